""" Shared plumbing: locating the repository under test, importing it,
    running main() under capture, small numeric helpers.
    Everything that touches /repo code goes through here so that the
    tree under test can be switched with PMV_REPO (used only for trying
    the checks against scratch copies; registered commands use /repo).
"""
import os, sys, io, json, contextlib, traceback, hashlib

VERIF = os.path.dirname (os.path.dirname (os.path.abspath (__file__)))
REPO  = os.path.abspath (os.environ.get ('PMV_REPO', '/repo'))
DEPS  = os.path.join (VERIF, '.deps')
GUARD = 'PYMININEC_VERIF'

_MM = None

def repo ():
    """ Import mininec.mininec from the tree under test (never from an
        installed copy) and return the module.
    """
    global _MM
    if _MM is None:
        if REPO not in sys.path:
            sys.path.insert (0, REPO)
        for k in list (sys.modules):
            if k == 'mininec' or k.startswith ('mininec.'):
                f = getattr (sys.modules [k], '__file__', '') or ''
                if not f.startswith (REPO):
                    del sys.modules [k]
        import mininec.mininec as MM
        assert MM.__file__.startswith (REPO + os.sep), (MM.__file__, REPO)
        _MM = MM
    return _MM
# end def repo

def deps_path ():
    if os.path.isdir (DEPS) and DEPS not in sys.path:
        sys.path.append (DEPS)
# end def deps_path

class Repo_Crash (Exception):
    """ An exception escaped from repository code while computing on an
        accepted model. Carries the mechanism key exc@function.
    """
    def __init__ (self, exc, where = ''):
        self.exc   = exc
        self.key   = crash_key (exc)
        self.where = where
        self.tb    = ''.join (traceback.format_exception (exc)) [-3000:]
        super ().__init__ ('%s in %s: %s' % (self.key, where, exc))
# end class Repo_Crash

def repo_frames (exc):
    tb = traceback.extract_tb (exc.__traceback__)
    return [f for f in tb if f.filename.startswith (REPO + os.sep)]
# end def repo_frames

def crash_key (exc):
    fr = repo_frames (exc)
    fn = fr [-1].name if fr else '?'
    return '%s@%s' % (type (exc).__name__, fn)
# end def crash_key

def run_main (argv, return_mininec = False):
    """ Run the CLI entry point under capture.
        Returns dict (kind, ret, out, err, exc, key, model)
        kind: 'return' | 'exit' | 'exception'
    """
    MM  = repo ()
    out = io.StringIO ()
    err = io.StringIO ()
    res = dict (kind = 'return', ret = None, exc = None, key = None, model = None)
    try:
        with contextlib.redirect_stdout (out), contextlib.redirect_stderr (err):
            r = MM.main (list (argv), f_err = err, return_mininec = return_mininec)
        if return_mininec and isinstance (r, MM.Mininec):
            res ['model'] = r
            r = None
        res ['ret'] = r
    except SystemExit as e:
        res ['kind'] = 'exit'
        res ['ret']  = e.code
    except Exception as e:
        res ['kind'] = 'exception'
        res ['exc']  = e
        res ['key']  = crash_key (e)
        res ['tb']   = ''.join (traceback.format_exception (e)) [-3000:]
    res ['out'] = out.getvalue ()
    res ['err'] = err.getvalue ()
    return res
# end def run_main

class Rejected (Exception):
    """ The program rejected the model with its documented diagnostic """
    pass

def build_argv (argv):
    """ Build a model through the command line, return the Mininec object.
        Raises Rejected (message) for a documented rejection (return 23 /
        usage error), Repo_Crash for an uncaught exception.
    """
    r = run_main (argv, return_mininec = True)
    if r ['kind'] == 'exception':
        raise Repo_Crash (r ['exc'], 'main(build)')
    if r ['model'] is None:
        msg = (r ['out'] + r ['err']).strip ().split ('\n') [-1] [:200]
        raise Rejected (msg or ('ret=%r' % (r ['ret'],)))
    return r ['model']
# end def build_argv

def guarded (fn, where):
    """ Call fn (); exceptions with a repository frame become Repo_Crash """
    try:
        return fn ()
    except Repo_Crash:
        raise
    except Exception as e:
        if repo_frames (e):
            raise Repo_Crash (e, where) from e
        raise
# end def guarded

def sha (obj):
    s = json.dumps (obj, sort_keys = True, default = str)
    return hashlib.sha1 (s.encode ()).hexdigest () [:16]
# end def sha

def jsonable (x):
    import numpy as np
    if isinstance (x, dict):
        return {str (k): jsonable (v) for k, v in x.items ()}
    if isinstance (x, (list, tuple, set)):
        return [jsonable (v) for v in x]
    if isinstance (x, np.ndarray):
        return jsonable (x.tolist ())
    if isinstance (x, (np.floating,)):
        return float (x)
    if isinstance (x, (np.integer,)):
        return int (x)
    if isinstance (x, (np.bool_,)):
        return bool (x)
    if isinstance (x, complex):
        return [x.real, x.imag]
    if isinstance (x, float):
        if x != x or x in (float ('inf'), float ('-inf')):
            return repr (x)
        return x
    return x
# end def jsonable
