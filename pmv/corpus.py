""" The repository's hand-made antennas (test/*.pym option files) as model
    specs: an own reader of the option lines (not the program's parser)
    that produces the spec format of pmv.gen, so that every check can run
    its oracles on realistic structures - folded dipoles, inverted vees,
    yagis, helices over ground, loaded and insulated wires, several media -
    next to the generated families.  What the repository's tests pin for
    these files is the printed report for the options in the file; the
    checks look at other observables (matrix entries, fields at other
    points, round trips, re-solves, moved / reversed descriptions) and at
    *variants* (other frequency, other sources).
"""
import os, glob, copy
import numpy as np
from pmv import common

class Not_Convertible (Exception):
    pass

def _split (line):
    line = line.strip ()
    if line.startswith ('--'):
        if '=' in line:
            k, v = line.split ('=', 1)
        elif ' ' in line:
            k, v = line.split (None, 1)
        else:
            k, v = line, ''
    else:
        k, v = line [:2], line [2:]
        if v.startswith ('='):
            v = v [1:]
    return k.strip (), v.strip ()
# end def _split

ALIAS = { '--wire': '-w', '--arc': '-a', '--frequency': '-f', '--n-f': '--frequency-steps'
        , '--f-inc': '--frequency-increment', '-l': '--load' }

def read_options (fn):
    opts = []
    with open (fn) as f:
        for line in f:
            if not line.strip () or line.startswith ('#'):
                continue
            k, v = _split (line)
            opts.append ((ALIAS.get (k, k), v))
    return opts
# end def read_options

def _floats (v):
    return [float (x) for x in v.split (',')]
# end def _floats

def spec_from_options (opts):
    """ spec (pmv.gen format) + the requests of the file under 'req' """
    spec = dict (f = 7.15, geo = [], tr = [], sc = [], media = None, src = [], loads = [])
    arcs, helices, wires = [], [], []
    tapers = []
    src_p, src_v = [], []
    lumped = {k: [] for k in ('z', 'rlc', 'trap', 'lap')}
    lap_a, lap_b = [], []
    attach = []
    dist   = []
    req    = {}
    for k, v in opts:
        if k == '-f':
            spec ['f'] = float (v)
        elif k == '-w':
            p = v.split (',')
            tag = int (p.pop (0)) if len (p) == 9 else None
            x = [float (y) for y in p [1:]]
            wires.append (dict (k = 'w', n = int (p [0]), p1 = x [0:3], p2 = x [3:6], r = x [6], tag = tag, taper = None))
        elif k == '-a':
            p = v.split (',')
            tag = int (p.pop (0)) if len (p) == 6 else None
            x = [float (y) for y in p [1:]]
            arcs.append (dict (k = 'a', n = int (p [0]), radius = x [0], a1 = x [1], a2 = x [2], r = x [3], tag = tag))
        elif k == '--helix':
            p = v.split (',')
            tag = int (p.pop (0)) if len (p) in (7, 9) else None
            x = [float (y) for y in p [1:]]
            h = dict (k = 'h', n = int (p [0]), length = x [0], turn = x [1], r = x [2], rx1 = x [3], ry1 = x [4], tag = tag)
            if len (x) > 5:
                h.update (rx2 = x [5], ry2 = x [6])
            helices.append (h)
        elif k == '--taper-wire':
            tapers.append (_floats (v))
        elif k in ('--geo-rotate', '--geo-translate'):
            x = _floats (v)
            spec ['tr'].append ([k [6:], x [0], x [1:4], int (x [4]) if len (x) > 4 else None])
        elif k == '--geo-scale':
            x = _floats (v)
            spec ['sc'].append ([x [0], int (x [1]) if len (x) > 1 else None])
        elif k == '--medium':
            x = _floats (v)
            if spec ['media'] is None:
                spec ['media'] = []
            spec ['media'].append ([x [0], x [1], x [2], x [3] if len (x) > 3 else None])
        elif k == '--boundary':
            spec ['boundary'] = v
        elif k == '--radial-count':
            spec.setdefault ('radials', [0, 0]) [0] = int (v)
        elif k == '--radial-radius':
            spec.setdefault ('radials', [0, 0]) [1] = float (v)
        elif k == '--excitation-pulse':
            src_p.append ([int (x) for x in v.split (',')])
        elif k == '--excitation-voltage':
            src_v.append (complex (v))
        elif k == '--load':
            lumped ['z'].append (dict (k = 'z', z = [complex (v).real, complex (v).imag], att = []))
        elif k == '--rlc-load':
            x = [None if not y.strip () else float (y) for y in v.split (',')]
            lumped ['rlc'].append (dict (k = 'rlc', R = x [0], L = x [1], C = x [2], att = []))
        elif k == '--trap-load':
            x = _floats (v)
            lumped ['trap'].append (dict (k = 'trap', R = x [0], L = x [1], C = x [2], att = []))
        elif k == '--laplace-load-a':
            lap_a.append (_floats (v))
        elif k == '--laplace-load-b':
            lap_b.append (_floats (v))
        elif k == '--attach-load':
            attach.append (v.split (','))
        elif k in ('--skin-effect-conductivity', '--skin-effect-resistivity'):
            x = _floats (v)
            d = dict (k = 'skin', tag = int (x [1]) if len (x) > 1 else None)
            d ['cond' if k.endswith ('conductivity') else 'res'] = x [0]
            dist.append (d)
        elif k == '--insulation-load':
            x = _floats (v)
            dist.append (dict (k = 'ins', radius = x [0], eps = x [1], tag = int (x [2]) if len (x) > 2 else None))
        elif k in ( '--theta', '--phi', '--option', '--near-field', '--ff-distance', '--ff-power', '--nf-power'
                  , '--frequency-steps', '--frequency-increment', '-T', '--mininec-version'):
            req.setdefault (k, []).append (v)
        else:
            raise Not_Convertible ('option %s' % k)
    if len (lap_a) != len (lap_b):
        raise Not_Convertible ('laplace a / b')
    for a, b in zip (lap_a, lap_b):
        lumped ['lap'].append (dict (k = 'lap', a = a, b = b, att = []))
    # the program collects objects per option: arcs, helices, wires
    spec ['geo'] = arcs + helices + wires
    # explicit tags for everything (the automatic tag is the 1-based position) so that variants can reorder
    for i, g in enumerate (spec ['geo']):
        if g ['tag'] is None:
            g ['tag'] = i + 1
    bytag = {g ['tag']: g for g in spec ['geo']}
    if len (bytag) != len (spec ['geo']):
        raise Not_Convertible ('duplicate tags')
    for t in tapers:
        g = bytag.get (int (t [0]))
        if g is None or g ['k'] != 'w':
            raise Not_Convertible ('taper of unknown wire')
        g ['taper'] = [int (t [1]), t [2] if len (t) > 2 else None, t [3] if len (t) > 3 else None]
    order = [l for kind in ('z', 'rlc', 'trap', 'lap') for l in lumped [kind]]
    for a in attach:
        n = int (a [0])
        if not 1 <= n <= len (order):
            raise Not_Convertible ('attach-load number')
        att = [a [1] if a [1] == 'all' else int (a [1])] + [int (x) for x in a [2:]]
        order [n - 1]['att'].append (att)
    for l in order:
        if not l ['att']:
            raise Not_Convertible ('load without attachment')
    spec ['loads'] = order + dist
    if not src_p:
        src_p = [[5]]
    if not src_v:
        src_v = [1.0]
    if len (src_v) == 1 and len (src_p) > 1:
        src_v = src_v * len (src_p)
    if len (src_v) != len (src_p):
        raise Not_Convertible ('source count')
    spec ['src'] = [dict (p = p, v = [complex (v).real, complex (v).imag]) for p, v in zip (src_p, src_v)]
    if 'radials' in spec and (not spec ['radials'][0] or spec ['media'] is None):
        del spec ['radials']
    spec ['req'] = req
    return spec
# end def spec_from_options

_CACHE = {}

def files ():
    return sorted (os.path.basename (f) for f in glob.glob (os.path.join (common.REPO, 'test', '*.pym')))
# end def files

def spec (name):
    """ spec of test/<name>; raises Not_Convertible """
    if name not in _CACHE:
        try:
            _CACHE [name] = spec_from_options (read_options (os.path.join (common.REPO, 'test', name)))
        except (ValueError, IndexError) as e:
            _CACHE [name] = Not_Convertible ('%s: %s' % (name, e))
        except Not_Convertible as e:
            _CACHE [name] = e
    s = _CACHE [name]
    if isinstance (s, Exception):
        raise s
    return copy.deepcopy (s)
# end def spec

def usable ():
    out = []
    for n in files ():
        try:
            spec (n)
            out.append (n)
        except Not_Convertible:
            pass
    return out
# end def usable

def variant (rng, s, freq = True, sources = True):
    """ a model the golden files do not pin: frequency moved by up to 8 %
        (segment lengths stay inside the rules the file obeys), other
        complex voltages, optionally another source pulse of the same object
    """
    s = copy.deepcopy (s)
    s.pop ('req', None)
    if freq:
        s ['f'] = float (s ['f'] * rng.uniform (0.92, 1.08))
    if sources:
        for x in s ['src']:
            v = complex (rng.normal (), rng.normal ()) * 10 ** rng.uniform (-1, 1)
            x ['v'] = [float (v.real), float (v.imag)]
    return s
# end def variant

SLOW = ('12-el.pym', 'helix-cavity.pym')   # 252 / 330 unknowns: thorough tier only

def plan_cases (seed, tier = 'quick', quick = 1, thorough = 4, skip = (), only = None):
    """ cases dict (corpus = file, i = k, seed = seed) for every usable file:
        variant 0 is the antenna at the frequency of the file, the others
        move the frequency by up to 8 %
    """
    per = quick if tier == 'quick' else thorough
    out = []
    for n in usable ():
        if n in skip or (tier == 'quick' and n in SLOW) or (only is not None and not only (spec (n))):
            continue
        out.extend (dict (corpus = n, i = k, seed = seed) for k in range (per))
    return out
# end def plan_cases

def rng_of (c, stream):
    """ generator of a corpus case: differs per file, variant and check """
    return np.random.default_rng ([c ['seed'], stream, c ['i'], sum (c ['corpus'].encode ()), 77])
# end def rng_of

def make (c, stream, freq = True, sources = True):
    """ spec of a corpus case """
    rng = np.random.default_rng ([c ['seed'], stream, c ['i'], sum (c ['corpus'].encode ())])
    s   = variant (rng, spec (c ['corpus']), freq = freq and c ['i'] > 0, sources = sources)
    s ['fam'] = 'corpus:' + c ['corpus'] [:-4]
    return s
# end def make

# files whose antenna lies outside the documented thin-wire modelling rules at the frequency of the file
# (pmv.gen.validity with segments up to lambda/10): segment shorter than 8 radii or lambda/200, junction below
# 40 degrees, grounded wire rising at less than 20 degrees, unconnected wires closer than two segments.
# Checks whose statement is conditioned on the rules skip them (python -m pmv.corpus prints the current set).
OUTSIDE_RULES = ( '12-el.pym', 'dip_coat.pym', 'dip_coat_scaled.pym', 'dip_coat_yn.pym', 'dip_loadwire.pym'
                , 'dipv-14st-lw.pym', 'dipv-14st-t1s.pym', 'dipv-14st-t1sl.pym', 'dipv-14st-t2w.pym', 'folded-18.pym'
                , 'helix-cavity.pym', 'helix-mm.pym', 'helix-mp.pym', 'helix-pm.pym', 'helix-pp.pym', 'inve802B.pym'
                , 'inverted-v-thick.pym', 'inverted-v.pym', 'loop-scale.pym', 'loop-trans.pym', 'loop.pym', 'looptag.pym'
                , 'negimp-bug.pym', 't-ant.pym', 't-fuzzy.pym', 'wire-bug.pym')

if __name__ == '__main__':
    from pmv import gen
    common.repo ()
    out = []
    for n in usable ():
        m = gen.build (spec (n))
        ok, why, facts = gen.validity (m, seg_max = 1 / 10., check_junction_ratio = None)
        print ('%-28s N=%3d %s' % (n, len (m.pulses), 'ok' if ok else why [0]))
        if not ok:
            out.append (n)
    print (tuple (out))
    print ('differs from OUTSIDE_RULES' if tuple (out) != OUTSIDE_RULES else 'OUTSIDE_RULES is current')

def located (s):
    """ the same antenna described for the checks that compare two
        descriptions of one structure: wires only, the transformations of
        the file written into the coordinates (documented order: by key,
        scaling last, radius scaled too), sources and lumped loads given by
        location (pulse point + direction) instead of by pulse number.
        Raises Not_Convertible for files with curves or with a source / load
        on a pulse that shares its point with another pulse.
    """
    from pmv import gen
    from pmv.oracles import georef
    if any (g ['k'] != 'w' for g in s ['geo']):
        raise Not_Convertible ('curves')
    m0 = gen.build (s)
    s  = copy.deepcopy (s)
    if s.get ('tr') or s.get ('sc'):
        objs = {o ['tag']: o for o in georef.transformed_objects (s)}
        for g in s ['geo']:
            o = objs [g ['tag']]
            g ['p1'] = [float (x) for x in o ['nodes'][0]]
            g ['p2'] = [float (x) for x in o ['nodes'][-1]]
            g ['r']  = float (o ['r'])
        s ['tr'], s ['sc'] = [], []
    L = min (sg.seg_len for g in m0.geo for sg in g.segments)
    def loc (p):
        pt = np.asarray (p.point, float)
        if sum (1 for q in m0.pulses if np.linalg.norm (np.asarray (q.point, float) - pt) < 1e-6 * L) != 1:
            raise Not_Convertible ('pulse %d shares its point' % (p.idx + 1))
        d = np.asarray (p.ends [1], float) - np.asarray (p.ends [0], float)
        return [float (x) for x in pt], [float (x) for x in d]
    src = []
    for x, e in zip (s ['src'], m0.sources):
        at, d = loc (m0.pulses [e.idx])
        src.append (dict (at = at, dir = d, v = x ['v']))
    s ['src'] = src
    loads = []
    k = 0
    lumped = [l for l in s ['loads'] if l ['k'] in ('z', 'rlc', 'trap', 'lap')]
    # the program keeps lumped loads in the order z, rlc, trap, laplace before the distributed ones
    code = [l for l in m0.loads if type (l).__name__ in ('Impedance_Load', 'Series_RLC_Load', 'Trap_Load', 'Laplace_Load')]
    if len (code) != len (lumped):
        raise Not_Convertible ('lumped load count')
    for l, cl in zip (lumped, code):
        for p in cl.pulses:
            at, d = loc (p)
            loads.append (dict ({k: v for k, v in l.items () if k != 'att'}, at = at))
    s ['loads'] = loads + [l for l in s ['loads'] if l ['k'] in ('skin', 'ins')]
    s ['feeds'] = []
    return s
# end def located
