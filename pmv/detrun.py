""" Fresh-interpreter runner of the C14 determinism harness:
      python detrun.py <repo> <garbage seed> <stdout file> <argv...>
    Allocates a random amount of garbage (so that object addresses and
    hence id ()-based hashes differ from run to run) before importing the
    program, then runs main (argv) with stdout / stderr captured to a file.
"""
import sys, os, random

def main ():
    repo, gseed, outfile = sys.argv [1:4]
    argv = sys.argv [4:]
    rnd  = random.Random (int (gseed))
    keep = [bytearray (rnd.randrange (16, 4096)) for i in range (rnd.randrange (10, 4000))]
    keep2 = [object () for i in range (rnd.randrange (1, 20000))]
    sys.path.insert (0, repo)
    import warnings
    warnings.simplefilter ('ignore')
    import numpy as np
    np.seterr (all = 'ignore')
    import mininec.mininec as MM
    assert MM.__file__.startswith (repo)
    more = [dict () for i in range (rnd.randrange (1, 3000))]
    with open (outfile, 'w') as f:
        so, se = sys.stdout, sys.stderr
        sys.stdout = sys.stderr = f
        try:
            r = MM.main (argv, f_err = f)
            print ('RETURN %r' % (r,), file = f)
        except SystemExit as e:
            print ('EXIT %r' % (e.code,), file = f)
        except Exception as e:
            print ('EXCEPTION %s: %s' % (type (e).__name__, e), file = f)
        finally:
            sys.stdout, sys.stderr = so, se
    return 0

if __name__ == '__main__':
    sys.exit (main ())
