""" Model specs (plain JSON-able dicts), their rendering as a command line,
    building them through the real program, structure families, the
    validity filter of the documented thin-wire modelling rules, and
    feature signatures.

    spec = dict (
      f     = MHz,
      geo   = [ dict (k='w', n=, p1=[..], p2=[..], r=, tag=None|int, taper=None|[type,min,max])
              | dict (k='a', n=, radius=, a1=, a2=, r=, tag=)
              | dict (k='h', n=, length=, turn=, r=, rx1=, ry1=, rx2=, ry2=, tag=) ],
      tr    = [ ['rotate'|'translate', key, [x,y,z], tag|None] ],
      sc    = [ [factor, tag|None] ],
      media = None | [ [eps, sigma, height, coord|None], ... ],
      boundary = 'linear'|'circular', radials = None | [count, radius],
      src   = [ dict (p=[abs] | [k, tag], v=[re, im])            # CLI addressing, 1-based
              | dict (at=[x,y,z], dir=[dx,dy,dz], v=[re, im]) ], # by location (registered via API)
      loads = [ dict (k='z'|'rlc'|'trap'|'lap', ..., att=[[pulse|'all'(, tag)], ...])
              | dict (k='skin', cond=|res=, tag=None|int) | dict (k='ins', radius=, eps=, tag=) ],
    )
"""
import numpy as np
from pmv import common

C_MHZ = 299.8     # the program's speed of light (m * MHz)

def fl (x):
    return repr (float (x))
# end def fl

def cplx (re, im):
    """ lossless text of a complex number the option parser accepts """
    i = repr (float (im))
    if not i.startswith ('-'):
        i = '+' + i
    return repr (float (re)) + i + 'j'
# end def cplx

LUMPED_ORDER = ('z', 'rlc', 'trap', 'lap')

def lumped_index (spec):
    """ 1-based CLI index of every lumped load: loads are numbered in the
        order -l, --rlc-load, --trap-load, --laplace-load
    """
    idx = {}
    n   = 0
    for kind in LUMPED_ORDER:
        for i, l in enumerate (spec.get ('loads') or []):
            if l ['k'] == kind and 'at' not in l:
                n += 1
                idx [i] = n
    return idx
# end def lumped_index

def wire_ends (spec, g):
    """ end points of a wire as handed to the program """
    p1, p2 = list (g ['p1']), list (g ['p2'])
    zn = spec.get ('znoise')
    if zn and spec.get ('media') is not None:
        # a ground end that is zero only up to rounding (coordinates that come out of a computation):
        # far inside the matching tolerance, the reference geometry keeps the exact zero
        if p1 [2] == 0:
            p1 [2] = zn
        if p2 [2] == 0:
            p2 [2] = -zn if zn < 1e-15 else zn
    return p1, p2
# end def wire_ends

def to_argv (spec, with_sources = True):
    a = ['-f', fl (spec ['f'])]
    for g in spec ['geo']:
        tag = [] if g.get ('tag') is None else [str (int (g ['tag']))]
        if g ['k'] == 'w':
            p1, p2 = wire_ends (spec, g)
            v = tag + [str (int (g ['n']))] + [fl (x) for x in p1] \
              + [fl (x) for x in p2] + [fl (g ['r'])]
            a += ['-w', ','.join (v)]
        elif g ['k'] == 'a':
            v = tag + [str (int (g ['n'])), fl (g ['radius']), fl (g ['a1']), fl (g ['a2']), fl (g ['r'])]
            a += ['-a', ','.join (v)]
        else:
            v = tag + [str (int (g ['n'])), fl (g ['length']), fl (g ['turn']), fl (g ['r'])
                      , fl (g ['rx1']), fl (g ['ry1'])]
            if g.get ('rx2') is not None:
                v += [fl (g ['rx2']), fl (g ['ry2'])]
            a += ['--helix=' + ','.join (v)]
    for g in spec ['geo']:
        if g ['k'] == 'w' and g.get ('taper'):
            t  = g ['taper']
            v  = [str (int (g ['tag'])), str (int (t [0]))]
            if t [1] is not None or t [2] is not None:
                v.append (fl (t [1] or 0))
            if t [2] is not None:
                v.append (fl (t [2]))
            a += ['--taper-wire', ','.join (v)]
    for kind, key, vec, tag in spec.get ('tr') or []:
        v = [fl (key)] + [fl (x) for x in vec] + ([] if tag is None else [str (int (tag))])
        a += ['--geo-%s=%s' % (kind, ','.join (v))]
    for factor, tag in spec.get ('sc') or []:
        a += ['--geo-scale=' + ','.join ([fl (factor)] + ([] if tag is None else [str (int (tag))]))]
    if spec.get ('media') is not None:
        for m in spec ['media']:
            v = [fl (x) for x in m [:3]] + ([] if len (m) < 4 or m [3] is None else [fl (m [3])])
            a += ['--medium=' + ','.join (v)]
        if spec.get ('boundary'):
            a += ['--boundary', spec ['boundary']]
        if spec.get ('radials'):
            a += ['--radial-count', str (int (spec ['radials'][0])), '--radial-radius', fl (spec ['radials'][1])]
    cli_src = [s for s in (spec.get ('src') or []) if 'p' in s] if with_sources else []
    if cli_src:
        for s in cli_src:
            a += ['--excitation-pulse', ','.join (str (int (x)) for x in s ['p'])]
            a += ['--excitation-voltage=' + cplx (*s ['v'])]
    else:
        a += ['--excitation-pulse', '1']
    lidx = lumped_index (spec)
    for kind in LUMPED_ORDER:
        for i, l in enumerate (spec.get ('loads') or []):
            if l ['k'] != kind or 'at' in l:
                continue
            if kind == 'z':
                a += ['--load=' + cplx (*l ['z'])]
            elif kind == 'rlc':
                a += ['--rlc-load=' + ','.join ('' if l.get (x) is None else fl (l [x]) for x in 'RLC')]
            elif kind == 'trap':
                a += ['--trap-load=' + ','.join (fl (l [x]) for x in 'RLC')]
            else:
                a += ['--laplace-load-a=' + ','.join (fl (x) for x in l ['a'])]
                a += ['--laplace-load-b=' + ','.join (fl (x) for x in l ['b'])]
    for i, l in enumerate (spec.get ('loads') or []):
        if l ['k'] in LUMPED_ORDER and 'at' not in l:
            for att in l ['att']:
                a += ['--attach-load', ','.join ([str (lidx [i])] + [str (x) for x in att])]
    for l in spec.get ('loads') or []:
        tag = [] if l.get ('tag') is None else [str (int (l ['tag']))]
        if l ['k'] == 'skin':
            if 'res' in l:
                a += ['--skin-effect-resistivity=' + ','.join ([fl (l ['res'])] + tag)]
            else:
                a += ['--skin-effect-conductivity=' + ','.join ([fl (l ['cond'])] + tag)]
        elif l ['k'] == 'ins':
            a += ['--insulation-load=' + ','.join ([fl (l ['radius']), fl (l ['eps'])] + tag)]
    return a
# end def to_argv

class Locate_Error (Exception):
    """ no (or no unique) pulse at the location where the documented
        geometry puts one
    """
    pass

def locate (m, at, direction = None):
    """ pulse index at a location and the sign of its reference direction
        relative to `direction`. Only unambiguous locations are accepted.
    """
    at   = np.asarray (at, float)
    L    = min (s.seg_len for g in m.geo for s in g.segments)
    hits = [p for p in m.pulses if np.linalg.norm (np.asarray (p.point, float) - at) < 1e-6 * L]
    if len (hits) != 1:
        raise Locate_Error ('%d pulses at %s' % (len (hits), at))
    p = hits [0]
    sgn = 1
    if direction is not None:
        d = np.asarray (p.ends [1], float) - np.asarray (p.ends [0], float)
        sgn = 1 if d @ np.asarray (direction, float) >= 0 else -1
    return p.idx, sgn
# end def locate

def build_api (spec, early_loads = False, late_sources = False, plain_list = False, ints = False, tags = 'early', media_objs = None, fix = True):
    """ The model of the spec built with the classes of the library instead
        of the command line, in the order the program uses - or, on
        request, in another order the API permits: distributed-load
        objects created before the geometry is moved and scaled
        (early_loads), loads registered before the sources (late_sources),
        a plain list of objects instead of a Geo_Container (plain_list,
        only without transformations), whole-number coordinates handed over
        as python ints (ints), the container's tags computed only after the
        whole-structure transformations (tags = 'late') or computed once
        after the first object, the rest appended afterwards (tags = 'split').
    """
    MM  = common.repo ()
    def num (v):
        return int (v) if ints and float (v).is_integer () else v
    def obj (g):
        if g ['k'] == 'w':
            p1, p2 = wire_ends (spec, g)
            return MM.Wire (int (g ['n']), *[num (v) for v in p1], *[num (v) for v in p2], g ['r'], tag = g.get ('tag'))
        if g ['k'] == 'a':
            return MM.Arc (int (g ['n']), g ['radius'], g ['a1'], g ['a2'], g ['r'], tag = g.get ('tag'))
        a = [g ['length'], g ['turn'], g ['r'], g ['rx1'], g ['ry1']]
        if g.get ('rx2') is not None:
            a += [g ['rx2'], g ['ry2']]
        return MM.Helix (int (g ['n']), *a, tag = g.get ('tag'))
    def guard (fn):
        try:
            return common.guarded (fn, 'api build')
        except ValueError as e:
            raise common.Rejected (str (e))
        except common.Repo_Crash as e:
            if isinstance (e.exc, ValueError):
                raise common.Rejected (str (e.exc))      # the documented way of the library to refuse a model
            raise
    geo = MM.Geo_Container ()
    whole = not any (t [3] is not None for t in spec.get ('tr') or []) and not any (s [1] is not None for s in spec.get ('sc') or [])
    if not whole or early_loads:
        tags = 'early'
    first = True
    for k in 'ahw':
        for g in spec ['geo']:
            if g ['k'] == k:
                geo.append (guard (lambda: obj (g)))
                if first and tags == 'split':
                    guard (geo.compute_tags)
                first = False
    if tags == 'early':
        guard (geo.compute_tags)
    dist = []
    def make_dist ():
        for l in spec.get ('loads') or []:
            if l ['k'] not in ('skin', 'ins'):
                continue
            ws = list (geo) if l.get ('tag') is None else [geo.by_tag [l ['tag']]]
            for w in ws:
                aw = l.get ('tag') is None
                if l ['k'] == 'skin':
                    kw = dict (resistivity = l ['res']) if 'res' in l else dict (conductivity = l ['cond'])
                    dist.append ((l ['k'], guard (lambda: MM.Skin_Effect_Load (w, all_wires = aw or None, **kw)), w))
                else:
                    dist.append ((l ['k'], guard (lambda: MM.Insulation_Load (w, l ['radius'], l ['eps'], all_wires = aw or None)), w))
    if early_loads:
        make_dist ()
    tr = [t for t in spec.get ('tr') or [] if t [0] == 'rotate'] + [t for t in spec.get ('tr') or [] if t [0] == 'translate']
    for kind, key, vec, tag in sorted (tr, key = lambda t: t [1]):
        guard (lambda: getattr (geo, kind) (key, np.array (vec, float), tag))
    for factor, tag in spec.get ('sc') or []:
        guard (lambda: geo.scale (factor, tag))
    if tags != 'early':
        guard (geo.compute_tags)
    for g in spec ['geo']:
        if g ['k'] == 'w' and g.get ('taper'):
            w = geo.by_tag [g ['tag']]
            t = g ['taper']
            w.segtype   = int (t [0])
            w.taper_min = t [1]         # (a maximum alone is a maximum alone: the classes take either limit on its own)
            w.taper_max = t [2]
    media = None
    if media_objs is not None:
        media = list (media_objs)       # Medium objects made by the caller (possibly used by another model before)
    elif spec.get ('media') is not None:
        media = []
        for n, md in enumerate (spec ['media']):
            d = dict (boundary = spec.get ('boundary') or 'linear')
            if n == 0 and spec.get ('radials'):
                d.update (nradials = int (spec ['radials'][0]), radius = spec ['radials'][1])
            if len (md) > 3 and md [3] is not None:
                d.update (coord = md [3])
            media.append (guard (lambda: MM.Medium (md [0], md [1], md [2], **d)))
    if plain_list and not (spec.get ('tr') or spec.get ('sc') or dist):
        # fresh objects in a plain list (tags given or automatic), as in the examples of the repository
        gl = [guard (lambda: obj (g)) for k in 'ahw' for g in spec ['geo'] if g ['k'] == k]
        for g in spec ['geo']:
            if g ['k'] == 'w' and g.get ('taper'):
                raise common.Rejected ('plain list with taper not generated')
    else:
        gl = geo
    m  = guard (lambda: MM.Mininec (spec ['f'], gl, media = media))
    geo = m.geo
    def sources ():
        cli = [s for s in (spec.get ('src') or []) if 'p' in s]
        for s in cli or ([dict (p = [1], v = [1.0, 0.0])] if not [x for x in (spec.get ('src') or []) if 'at' in x] else []):
            v = complex (*s ['v'])
            if len (s ['p']) > 1:
                e = MM.Excitation (cvolt = v, geo_tag = s ['p'][1], geo_idx = s ['p'][0] - 1)
                guard (lambda: m.register_source (e, s ['p'][0] - 1, s ['p'][1]))
            else:
                guard (lambda: m.register_source (MM.Excitation (cvolt = v), s ['p'][0] - 1))
    def loads ():
        for kind in LUMPED_ORDER:
            for l in spec.get ('loads') or []:
                if l ['k'] != kind or 'at' in l:
                    continue
                if kind == 'z':
                    ld = MM.Impedance_Load (complex (*l ['z']))
                elif kind == 'rlc':
                    ld = MM.Series_RLC_Load (l.get ('R'), l.get ('L'), l.get ('C'))
                elif kind == 'trap':
                    ld = MM.Trap_Load (l ['R'], l ['L'], l ['C'])
                else:
                    ld = guard (lambda: MM.Laplace_Load (a = list (l ['a']), b = list (l ['b'])))
                l ['_obj'] = ld
        for l in spec.get ('loads') or []:
            if l ['k'] in LUMPED_ORDER and 'at' not in l:
                for att in l ['att']:
                    a = [None if att [0] == 'all' else int (att [0]) - 1] + [int (x) for x in att [1:]]
                    guard (lambda: m.register_load (l ['_obj'], *a))
                del l ['_obj']
        if not early_loads:
            make_dist ()
        for k in ('skin', 'ins'):
            for kk, ld, w in dist:
                if kk == k:
                    guard (lambda: m.register_load (ld, None, w.tag))
    if late_sources:
        loads ()
        sources ()
    else:
        sources ()
        loads ()
    if fix:
        guard (m.fix_distributed_loads)     # (fix = False: the caller of the library does not make this call - junction pulses then stay as they are)
    return m
# end def build_api

def build (spec, route = 'cli', **kw):
    """ Build the model through the command line (sources given by
        location are registered through the API afterwards), or through
        the classes of the library (route = 'api', see build_api).
    """
    MM = common.repo ()
    if route == 'api':
        m = build_api (spec, **kw)
    else:
        m = common.build_argv (to_argv (spec))
    by_loc = [s for s in (spec.get ('src') or []) if 'at' in s]
    if by_loc:
        assert not [s for s in spec ['src'] if 'p' in s]
        m.sources = []
        for s in by_loc:
            idx, sgn = locate (m, s ['at'], s.get ('dir'))
            v = complex (*s ['v']) * sgn
            common.guarded (lambda: m.register_source (MM.Excitation (v), idx), 'register_source')
    # lumped impedance loads given by location (registered through the API)
    for l in spec.get ('loads') or []:
        if 'at' in l:
            idx, sgn = locate (m, l ['at'])
            if l ['k'] == 'rlc':
                ld = MM.Series_RLC_Load (R = l ['R'], L = l ['L'], C = l ['C'])
            elif l ['k'] == 'trap':
                ld = MM.Trap_Load (l ['R'], l ['L'], l ['C'])
            elif l ['k'] == 'lap':
                ld = MM.Laplace_Load (a = l ['a'], b = l ['b'])
            else:
                ld = MM.Impedance_Load (complex (*l ['z']))
            common.guarded (lambda: m.register_load (ld, idx), 'register_load')
    # every sixth model is used with the time measurement of the library switched on (Mininec (..., t = True), -T):
    # it reports durations on stderr and must not change anything else
    if int (common.sha ([spec.get ('geo'), spec.get ('f')]), 16) % 6 == 0:
        m.do_timing = True
    return m
# end def build

def readdress_by_tag (m):
    """ register the sources of the model again in the per-object form (k-th pulse of the object with that tag): the
        same pulses with the same voltages """
    MM  = common.repo ()
    own = {}
    for g in m.geo:
        for k, p in enumerate (g.pulses):
            own [p.idx] = (k, g.tag)
    src = [(s.idx, complex (s.voltage)) for s in m.sources]
    m.sources = []
    for idx, v in src:
        k, tag = own [idx]
        common.guarded (lambda: m.register_source (MM.Excitation (v), k, tag), 'register_source')
    return m
# end def readdress_by_tag

# ------------------------------------------------------------- geometry utils

def rot_matrix (rng):
    q = rng.normal (size = 4)
    q /= np.linalg.norm (q)
    a, b, c, d = q
    return np.array ([[a*a+b*b-c*c-d*d, 2*(b*c-a*d), 2*(b*d+a*c)],
                      [2*(b*c+a*d), a*a-b*b+c*c-d*d, 2*(c*d-a*b)],
                      [2*(b*d-a*c), 2*(c*d+a*b), a*a-b*b-c*c+d*d]])
# end def rot_matrix

def rot_z (ang):
    c, s = np.cos (ang), np.sin (ang)
    return np.array ([[c, -s, 0], [s, c, 0], [0, 0, 1.]])
# end def rot_z

def wire (n, p1, p2, r, tag = None, taper = None):
    return dict ( k = 'w', n = int (n), p1 = [float (x) for x in p1]
                , p2 = [float (x) for x in p2], r = float (r), tag = tag, taper = taper)
# end def wire

def seg_seg_dist (a0, a1, b0, b1):
    """ minimum distance between two straight segments """
    a0, a1, b0, b1 = (np.asarray (x, float) for x in (a0, a1, b0, b1))
    u, v, w = a1 - a0, b1 - b0, a0 - b0
    a, b, c, d, e = u @ u, u @ v, v @ v, u @ w, v @ w
    D = a * c - b * b
    sN, sD, tN, tD = 0.0, D, 0.0, D
    if D < 1e-14 * a * c:
        sN, sD, tN, tD = 0.0, 1.0, e, c
    else:
        sN, tN = b * e - c * d, a * e - b * d
        if sN < 0:
            sN, tN, tD = 0.0, e, c
        elif sN > sD:
            sN, tN, tD = sD, e + b, c
    if tN < 0:
        tN = 0.0
        if -d < 0:
            sN = 0.0
        elif -d > a:
            sN = sD
        else:
            sN, sD = -d, a
    elif tN > tD:
        tN = tD
        if -d + b < 0:
            sN = 0.0
        elif -d + b > a:
            sN = sD
        else:
            sN, sD = -d + b, a
    sc = 0.0 if abs (sN) < 1e-300 else sN / sD
    tc = 0.0 if abs (tN) < 1e-300 else tN / tD
    return float (np.linalg.norm (w + sc * u - tc * v))
# end def seg_seg_dist

def point_seg_dist (x, a, b):
    x, a, b = (np.asarray (v, float) for v in (x, a, b))
    d = b - a
    t = np.clip ((x - a) @ d / (d @ d), 0, 1)
    return float (np.linalg.norm (x - (a + t * d)))
# end def point_seg_dist

# ------------------------------------------------------------- validity filter

def model_geometry (m):
    """ plain arrays of the segments of the built model: used by the
        validity filter and feature signatures (not by any oracle)
    """
    segs = []
    for gi, g in enumerate (m.geo):
        for s in g.segments:
            segs.append (dict ( g = gi, p1 = np.asarray (s.p1, float), p2 = np.asarray (s.p2, float)
                              , l = float (np.linalg.norm (np.asarray (s.p2, float) - np.asarray (s.p1, float)))
                              , r = float (g.r)))
    return segs
# end def model_geometry

def junction_clusters (m):
    """ union-find over wire ends closer than 1e-3 * shortest segment;
        returns list of clusters, each a list of (geo index, end index)
    """
    ends = []
    for gi, g in enumerate (m.geo):
        ends.append ((gi, 0, np.asarray (g.p1, float)))
        ends.append ((gi, 1, np.asarray (g.p2, float)))
    L   = min (s.seg_len for g in m.geo for s in g.segments)
    par = list (range (len (ends)))
    def find (i):
        while par [i] != i:
            par [i] = par [par [i]]
            i = par [i]
        return i
    for i in range (len (ends)):
        for j in range (i):
            if np.linalg.norm (ends [i][2] - ends [j][2]) <= 1e-3 * L:
                par [find (i)] = find (j)
    cl = {}
    for i, e in enumerate (ends):
        cl.setdefault (find (i), []).append ((e [0], e [1]))
    return [c for c in cl.values ()]
# end def junction_clusters

def validity (m, seg_max = 1 / 20., seg_min = 1 / 200., check_junction_ratio = 1.1):
    """ documented thin-wire modelling rules evaluated on the built model.
        returns (ok, reasons, facts)
    """
    lam   = C_MHZ / m.f
    segs  = model_geometry (m)
    why   = []
    facts = {}
    ls    = np.array ([s ['l'] for s in segs])
    facts ['seg_max'] = float (ls.max () / lam)
    facts ['seg_min'] = float (ls.min () / lam)
    if ls.max () > seg_max * lam * (1 + 1e-9):
        why.append ('segment > lambda/%g' % (1 / seg_max))
    if ls.min () < seg_min * lam * (1 - 1e-9):
        why.append ('segment < lambda/%g' % (1 / seg_min))
    thin = min (s ['l'] / s ['r'] for s in segs)
    facts ['len_over_radius'] = float (thin)
    if thin < 8:
        why.append ('segment < 8 radii')
    # adjacent segment ratio within an object
    byg = {}
    for s in segs:
        byg.setdefault (s ['g'], []).append (s)
    ratio = 1.0
    for g, ss in byg.items ():
        for a, b in zip (ss [:-1], ss [1:]):
            ratio = max (ratio, a ['l'] / b ['l'], b ['l'] / a ['l'])
    # junctions: angles, ratios
    cl = junction_clusters (m)
    jmax = 1
    jratio3 = 1.0
    min_angle = 180.0
    connected = set ()
    for c in cl:
        if len (c) < 2:
            continue
        jmax = max (jmax, len (c))
        dirs, lens, rads = [], [], []
        for gi, e in c:
            ss = byg [gi]
            s  = ss [0] if e == 0 else ss [-1]
            d  = (s ['p2'] - s ['p1']) if e == 0 else (s ['p1'] - s ['p2'])
            dirs.append (d / np.linalg.norm (d))
            lens.append (s ['l'])
            rads.append (s ['r'])
        for i in range (len (c)):
            for j in range (i):
                connected.add (frozenset ((c [i][0], c [j][0])))
                ang = np.degrees (np.arccos (np.clip (dirs [i] @ dirs [j], -1, 1)))
                min_angle = min (min_angle, ang)
        r2 = max (lens) / min (lens)
        ratio = max (ratio, r2) if len (c) == 2 else ratio
        if len (c) >= 3:
            jratio3 = max (jratio3, r2)
    facts ['adj_ratio'] = float (ratio)
    facts ['jmax'] = jmax
    facts ['jratio3'] = float (jratio3)
    facts ['min_angle'] = float (min_angle)
    if ratio > 2.1:
        why.append ('adjacent segment ratio > 2.1')
    if min_angle < 40 - 1e-6:
        why.append ('junction angle < 40 deg')
    if jmax > 4:
        why.append ('junction of more than 4 wires')
    if check_junction_ratio and jratio3 > check_junction_ratio:
        why.append ('unequal segment lengths at >=3-wire junction')
    # wires neither joined directly nor through a common neighbour: >= 2 seg lengths apart
    nb = {}
    for pr in connected:
        a, b = tuple (pr) if len (pr) == 2 else (tuple (pr) [0], tuple (pr) [0])
        nb.setdefault (a, set ()).add (b)
        nb.setdefault (b, set ()).add (a)
    gs = sorted (byg)
    mind = mind2 = np.inf
    for i, ga in enumerate (gs):
        for gb in gs [:i]:
            if gb in nb.get (ga, ()):
                continue
            common = nb.get (ga, set ()) & nb.get (gb, set ())
            if common:
                # two wires on a common neighbour start close to each other, but must not come back
                # together further out: the program treats them as connected and uses the on-wire (exact)
                # kernel for points within (d0 + d3) <= 1.1 segment lengths of a segment of the other wire
                cseg = [x for c in common for x in byg [c]]
                def touches (s):
                    return any (min (np.linalg.norm (s [a] - x [b]) for a in ('p1', 'p2') for b in ('p1', 'p2')) < 1e-9 * s ['l'] for x in cseg)
                for sa in byg [ga]:
                    ta = touches (sa)
                    for sb in byg [gb]:
                        if ta and touches (sb):
                            continue
                        d = seg_seg_dist (sa ['p1'], sa ['p2'], sb ['p1'], sb ['p2'])
                        mind2 = min (mind2, d / max (sa ['l'], sb ['l']))
                continue
            for sa in byg [ga]:
                for sb in byg [gb]:
                    d = seg_seg_dist (sa ['p1'], sa ['p2'], sb ['p1'], sb ['p2'])
                    mind = min (mind, d / max (sa ['l'], sb ['l']))
    facts ['min_sep'] = float (mind)
    facts ['min_sep_common'] = float (mind2)
    if mind < 2:
        why.append ('unconnected wires < 2 segment lengths apart')
    if mind2 < 0.5:
        why.append ('wires on a common neighbour pass < 0.5 segment lengths from each other')
    # non-adjacent segments of the same or neighbouring wires must not come close either
    # (folded structures): approximated by requiring bends >= 40 deg (above).
    if m.media is not None:
        for gi, g in enumerate (m.geo):
            ss = byg [gi]
            for e, s in ((0, ss [0]), (1, ss [-1])):
                if g.is_ground [e]:
                    d  = (s ['p2'] - s ['p1']) if e == 0 else (s ['p1'] - s ['p2'])
                    el = np.degrees (np.arcsin (np.clip (d [2] / np.linalg.norm (d), -1, 1)))
                    if el < 20 - 1e-6:
                        why.append ('grounded wire rises < 20 deg')
            if not (g.is_ground [0] or g.is_ground [1]):
                # a wire that does not stand on the ground stays at least one segment length above it
                zmin = min (min (x ['p1'][2], x ['p2'][2]) for x in ss)
                if zmin < max (x ['l'] for x in ss) * (1 - 1e-9):
                    why.append ('wire closer than one segment to ground')
        gp = [tuple (np.round (np.asarray ((g.p1, g.p2) [e], float) [:2] / ls.min (), 3))
              for g in m.geo for e in (0, 1) if g.is_ground [e]]
        if len (gp) != len (set (gp)):
            why.append ('more than one wire on a ground point')
    size = max (np.linalg.norm (a ['p1'] - b ['p2']) for a in segs for b in segs [::max (1, len (segs) // 40)])
    facts ['size'] = float (size / lam)
    if size > 3 * lam:
        why.append ('structure > 3 lambda')
    return (not why), sorted (set (why)), facts
# end def validity

def signature (spec, m, extra = ()):
    """ feature signature of a case: what kind of structure it is """
    lam  = C_MHZ / m.f
    cl   = junction_clusters (m)
    jt   = sorted (''.join (str (e) for g, e in sorted (c)) for c in cl if len (c) > 1)
    kinds = ''.join (sorted (set (g ['k'] for g in spec ['geo'])))
    tap  = sorted (set (g ['taper'][0] for g in spec ['geo'] if g.get ('taper')))
    gnd  = sorted (set (e for g in m.geo for e in (0, 1) if m.media is not None and g.is_ground [e]))
    thin = sorted (set (bool (g.r <= 1e-4 * lam) for g in m.geo))
    env  = 'free' if m.media is None else ('ideal' if m.media [0].is_ideal else
            '%dmed%s%s' % (len (m.media), m.media [0].boundary [0], 'R' if m.media [0].nradials else ''))
    lk   = sorted (set (l ['k'] for l in spec.get ('loads') or []))
    tags = 'T' if any (g.get ('tag') is not None for g in spec ['geo']) else 'a'
    parts = [ spec.get ('fam', '?'), kinds, 'j' + ','.join (jt), 'tap%s' % tap, 'gnd%s' % gnd
            , 'thin%s' % [int (x) for x in thin], env, 'src%d' % len (spec.get ('src') or [])
            , 'ld' + '+'.join (lk), tags] + list (extra)
    return '|'.join (str (p) for p in parts)
# end def signature

# ------------------------------------------------------------- structure families

FREQS = [1.8, 3.6, 7.1, 14.2, 28.5, 50.2, 144.3, 299.8, 433.0]

def pick_scale (rng, seg_lo = 1 / 100., seg_hi = 1 / 21., thin = None):
    """ frequency, wavelength, segment length, radius """
    f    = float (rng.choice (FREQS))
    lam  = C_MHZ / f
    segl = lam * float (np.exp (rng.uniform (np.log (seg_lo), np.log (seg_hi))))
    if thin is None:
        thin = rng.random () < 0.3
    if thin:
        rad = lam * float (np.exp (rng.uniform (np.log (2e-6), np.log (9e-5))))
        rad = min (rad, segl / 10)
    else:
        rad = max (segl / float (rng.uniform (10, 150)), 1.2e-4 * lam)
        if rad > segl / 8.5:
            rad = segl / 8.5
    return f, lam, segl, rad
# end def pick_scale

def _orient (rng, env):
    """ placement transform for a family built around the origin """
    if env == 'free':
        R = rot_matrix (rng)
    else:
        R = rot_z (rng.uniform (0, 2 * np.pi))
    return R
# end def _orient

def fam_free (rng, fam = None, seg_hi = 1 / 21., seg_lo = 1 / 100., nmax = 60, equal_junction = True, shift = True):
    """ free-space structure family; returns spec (geo + feeds list of
        candidate feed locations (at, dir)) without sources
    """
    fams = ['dipole', 'vee', 'L', 'zig', 'star3', 'star4', 'loop', 'yagi', 'T', 'tdip', 'step', 'varray']
    fam  = fam or str (rng.choice (fams))
    f, lam, segl, rad = pick_scale (rng, seg_lo, seg_hi)
    R = rot_matrix (rng)
    if fam == 'varray':
        # every wire exactly parallel to the z axis, at different places in the plane (phased verticals, a vertical
        # with a parasitic one): nothing about the structure is symmetric about the axis
        R = rot_z (rng.uniform (0, 2 * np.pi))
    T = rng.uniform (-1, 1, 3) * lam * float (rng.choice ([0, 0, 1, 10]))
    if not shift:
        T = T * 0
    if fam == 'step':
        # along a coordinate axis from the origin: the segment lengths of the parts are equal bit by bit
        R = np.eye (3) [rng.permutation (3)] * float (rng.choice ([1, -1]))
        T = T * 0
    P = lambda v: R @ np.asarray (v, float) + T
    geo, feeds = [], []
    def seglen (k = 1.0):
        return segl if equal_junction else segl * float (rng.uniform (0.6, 1.0)) * k
    def add (n, a, b, r = None, feed_at = None):
        geo.append (wire (n, P (a), P (b), rad if r is None else r))
        a, b = np.asarray (a, float), np.asarray (b, float)
        if n >= 2:
            k = int (rng.integers (1, n)) if feed_at is None else feed_at
            feeds.append (dict (at = P (a + (b - a) * k / n).tolist (), dir = (R @ (b - a)).tolist ()))
    if fam == 'dipole' or fam == 'tdip':
        n = int (rng.integers (4, min (nmax, 28)))
        L = n * segl
        add (n, [-L / 2, 0, 0], [L / 2, 0, 0])
        if fam == 'tdip':
            geo [-1]['taper'] = [int (rng.choice ([1, 2, 3])), None, None]
            geo [-1]['tag'] = 1
            feeds [:] = []
    elif fam == 'step':
        # straight conductor of two or three collinear wires with the same segment length and different radii
        # (a tube continued by a whip), each part in either direction
        n  = int (rng.integers (3, 10))
        L  = n * segl
        k  = int (rng.integers (2, 4))
        rr = [min (rad * float (x), segl / 8.5) for x in rng.choice ([1, 0.3, 2.5, 0.1], size = k, replace = False)]
        if rng.random () < 0.5:
            # a fat tube (3 .. 8.5 radii per segment: outside the thin-wire rules, checks that rely on them discard it)
            rr [int (rng.integers (0, k))] = segl / float (rng.uniform (3, 8.5))
        for i in range (k):
            a, b = [i * L, 0, 0], [(i + 1) * L, 0, 0]
            if rng.random () < 0.3:
                a, b = b, a
            add (n, a, b, rr [i])
    elif fam == 'vee':
        n1, n2 = int (rng.integers (3, 12)), int (rng.integers (3, 12))
        ang = np.radians (rng.uniform (45, 180))
        l2  = seglen ()
        r2  = rad * float (rng.choice ([1, 1, 0.5, 2]))
        r2  = min (r2, l2 / 8.5)
        add (n1, [0, 0, 0], [n1 * segl, 0, 0])
        add (n2, [0, 0, 0], [n2 * l2 * np.cos (ang), n2 * l2 * np.sin (ang), 0], r2)
        feeds.append (dict (at = P ([0, 0, 0]).tolist (), dir = (R @ np.array ([1., 0, 0])).tolist ()))
    elif fam == 'L':
        n1, n2 = int (rng.integers (3, 12)), int (rng.integers (3, 12))
        l2 = seglen ()
        add (n1, [0, 0, 0], [n1 * segl, 0, 0])
        add (n2, [n1 * segl, 0, 0], [n1 * segl, 0, n2 * l2])
    elif fam == 'zig':
        k = int (rng.integers (2, 5))
        p = np.zeros (3)
        for i in range (k):
            n = int (rng.integers (2, 8))
            d = np.array ([1, (-1) ** i * rng.uniform (0.3, 1), rng.uniform (-.5, .5)])
            d /= np.linalg.norm (d)
            q = p + d * n * segl
            add (n, p, q)
            p = q
    elif fam in ('star3', 'star4', 'T'):
        if fam == 'T':
            dirs = [[1, 0, 0], [-1, 0, 0], [0, 0, -1]]
        else:
            dirs = [[1, 0, 0], [-0.5, 0.8660254, 0], [-0.5, -0.8660254, 0], [0, 0, 1]][: (3 if fam == 'star3' else 4)]
        for d in dirs:
            n = int (rng.integers (3, 9))
            l = seglen ()
            add (n, [0, 0, 0], np.asarray (d, float) * n * l)
    elif fam == 'loop':
        k = int (rng.choice ([3, 4, 6]))
        n = int (rng.integers (2, 8))
        side = n * segl
        Rl = side / (2 * np.sin (np.pi / k))
        pts = [[Rl * np.cos (2 * np.pi * i / k), Rl * np.sin (2 * np.pi * i / k), 0] for i in range (k)]
        for i in range (k):
            add (n, pts [i], pts [(i + 1) % k])
    elif fam == 'yagi':
        k = int (rng.integers (2, 4))
        n = int (rng.integers (6, 16))
        for i in range (k):
            L = n * segl * (1 - 0.05 * i)
            y = i * max (lam * rng.uniform (0.1, 0.3), 2.5 * segl)
            add (n, [-L / 2, y, 0], [L / 2, y, 0], feed_at = n // 2)
    elif fam == 'varray':
        k = int (rng.integers (2, 4))
        n = int (rng.integers (6, 16))
        x = 0.0
        for i in range (k):
            L = n * segl * (1 - 0.06 * i)
            add (n, [x, 0.3 * x * (i - 1), -L / 2], [x, 0.3 * x * (i - 1), L / 2], feed_at = n // 2)
            x += max (lam * float (rng.uniform (0.1, 0.35)), 2.5 * segl)
    spec = dict (f = f, geo = geo, fam = fam, media = None, feeds = feeds, src = [], loads = [])
    return spec
# end def fam_free

def fam_ground (rng, fam = None, seg_hi = 1 / 21., seg_lo = 1 / 100., media = 'ideal', shift = True):
    """ structure family over a ground plane (z = 0) """
    fams = ['mono', 'slope', 'invL', 'Tgnd', 'two', 'hdip', 'bent', 'gp', 'lean', 'stack']
    fam  = fam or str (rng.choice (fams))
    f, lam, segl, rad = pick_scale (rng, seg_lo, seg_hi)
    R = rot_z (rng.uniform (0, 2 * np.pi))
    T = np.append (rng.uniform (-1, 1, 2) * lam * float (rng.choice ([0, 0, 1, 5])), 0.0)
    if not shift:
        T = T * 0
    P = lambda v: R @ np.asarray (v, float) + T
    geo, feeds = [], []
    def add (n, a, b, r = None, feed_at = None, rev = False):
        a0, b0 = np.asarray (a, float), np.asarray (b, float)
        if rev:
            geo.append (wire (n, P (b0), P (a0), rad if r is None else r))
        else:
            geo.append (wire (n, P (a0), P (b0), rad if r is None else r))
        if n >= 2:
            k = int (rng.integers (1, n)) if feed_at is None else feed_at
            feeds.append (dict (at = P (a0 + (b0 - a0) * k / n).tolist (), dir = (R @ (b0 - a0)).tolist ()))
    rev = bool (rng.random () < 0.5)
    if fam == 'mono':
        n = int (rng.integers (3, 20))
        add (n, [0, 0, 0], [0, 0, n * segl], rev = rev)
        feeds.append (dict (at = P ([0, 0, 0]).tolist (), dir = [0, 0, 1.]))
    elif fam == 'slope':
        n  = int (rng.integers (3, 16))
        el = np.radians (rng.uniform (25, 85))
        add (n, [0, 0, 0], [n * segl * np.cos (el), 0, n * segl * np.sin (el)], rev = rev)
        feeds.append (dict (at = P ([0, 0, 0]).tolist (), dir = [0, 0, 1.]))
    elif fam == 'lean':
        # grounded wire a little off the vertical (0.05 .. 12 degrees), alone or with a top wire
        n1  = int (rng.integers (3, 14))
        off = np.radians (float (np.exp (rng.uniform (np.log (0.05), np.log (12.)))))
        top = np.array ([n1 * segl * np.sin (off), 0, n1 * segl * np.cos (off)])
        add (n1, [0, 0, 0], top, rev = rev)
        if rng.random () < 0.4:
            n2 = int (rng.integers (3, 10))
            add (n2, top, top + np.array ([0, n2 * segl, 0]), rev = bool (rng.random () < 0.5))
        feeds.append (dict (at = P ([0, 0, 0]).tolist (), dir = [0, 0, 1.]))
    elif fam == 'invL':
        n1, n2 = int (rng.integers (3, 10)), int (rng.integers (3, 12))
        add (n1, [0, 0, 0], [0, 0, n1 * segl], rev = rev)
        add (n2, [0, 0, n1 * segl], [n2 * segl, 0, n1 * segl], rev = bool (rng.random () < 0.5))
        feeds.append (dict (at = P ([0, 0, 0]).tolist (), dir = [0, 0, 1.]))
    elif fam == 'Tgnd':
        n1, n2, n3 = (int (rng.integers (3, 9)) for i in range (3))
        h = n1 * segl
        add (n1, [0, 0, 0], [0, 0, h], rev = rev)
        add (n2, [0, 0, h], [n2 * segl, 0, h], rev = bool (rng.random () < 0.5))
        add (n3, [0, 0, h], [-n3 * segl, 0, h], rev = bool (rng.random () < 0.5))
        feeds.append (dict (at = P ([0, 0, 0]).tolist (), dir = [0, 0, 1.]))
    elif fam == 'two':
        n = int (rng.integers (4, 14))
        d = max (lam * rng.uniform (0.1, 0.4), 3 * segl)
        add (n, [0, 0, 0], [0, 0, n * segl], rev = rev)
        add (n, [d, 0, 0], [d, 0, n * segl * 0.95], rev = bool (rng.random () < 0.5))
        feeds.append (dict (at = P ([0, 0, 0]).tolist (), dir = [0, 0, 1.]))
        feeds.append (dict (at = P ([d, 0, 0]).tolist (), dir = [0, 0, 1.]))
    elif fam == 'hdip':
        n = int (rng.integers (4, 24))
        h = segl * rng.uniform (1.2, 12)
        L = n * segl
        add (n, [-L / 2, 0, h], [L / 2, 0, h], rev = rev)
    elif fam == 'stack':
        # two or three equal dipoles (horizontal or sloping) above each other: each a shifted copy of the lowest
        n  = int (rng.integers (4, 16))
        k  = int (rng.integers (2, 4))
        h  = segl * rng.uniform (1.5, 8)
        dz = max (lam * rng.uniform (0.15, 0.6), 2.5 * segl)
        sl = float (rng.choice ([0.0, 0.0, 0.3]))
        L  = n * segl
        for i in range (k):
            add (n, [-L / 2, 0, h + i * dz], [L / 2 * np.sqrt (1 - sl * sl) - L / 2 * (1 - np.sqrt (1 - sl * sl)), 0, h + i * dz + sl * L], rev = rev, feed_at = n // 2)
    elif fam == 'bent':
        n1, n2 = int (rng.integers (3, 10)), int (rng.integers (3, 10))
        h = segl * rng.uniform (1.2, 6)
        add (n1, [0, 0, h], [n1 * segl, 0, h], rev = rev)
        add (n2, [n1 * segl, 0, h], [n1 * segl, n2 * segl * 0.6, h + n2 * segl * 0.8], rev = bool (rng.random () < 0.5))
    elif fam == 'gp':
        n = int (rng.integers (4, 10))
        h = segl * rng.uniform (3, 10)
        add (n, [0, 0, h], [0, 0, h + n * segl], rev = rev)
        for d in ([1, 0, 0], [-0.5, 0.8660254, 0], [-0.5, -0.8660254, 0]):
            v = np.asarray (d, float) * 0.9 + np.array ([0, 0, -0.436])
            v /= np.linalg.norm (v)
            nn = int (rng.integers (3, 7))
            if h - nn * segl * 0.436 < 1.2 * segl:
                nn = max (2, int ((h - 1.2 * segl) / (segl * 0.436)))
            add (nn, [0, 0, h], np.array ([0, 0, h]) + v * nn * segl, rev = bool (rng.random () < 0.5))
    elif fam == 'close':
        # (only on request, outside the spacing rule of the thin-wire guidelines) separately grounded wires whose
        # feet are a fraction of a segment apart: cage of monopoles, V of sloping wires, stub next to a monopole
        n  = int (rng.integers (3, 12))
        d  = max (segl * float (np.exp (rng.uniform (np.log (0.06), np.log (1.3)))), 3 * rad)
        kind = str (rng.choice (['par', 'par3', 'V', 'stub']))
        add (n, [0, 0, 0], [0, 0, n * segl], rev = rev)
        feeds.append (dict (at = P ([0, 0, 0]).tolist (), dir = [0, 0, 1.]))
        if kind in ('par', 'par3'):
            add (n, [d, 0, 0], [d, 0, n * segl * float (rng.choice ([1, 0.9]))], rev = bool (rng.random () < 0.5))
            feeds.append (dict (at = P ([d, 0, 0]).tolist (), dir = [0, 0, 1.]))
            if kind == 'par3':
                add (n, [0, d, 0], [0, d, n * segl], rev = bool (rng.random () < 0.5))
        elif kind == 'V':
            el = np.radians (rng.uniform (30, 70))
            n2 = int (rng.integers (3, 10))
            add (n2, [d, 0, 0], [d + n2 * segl * np.cos (el), 0, n2 * segl * np.sin (el)], rev = bool (rng.random () < 0.5))
            feeds.append (dict (at = P ([d, 0, 0]).tolist (), dir = [0, 0, 1.]))
        else:
            n2 = int (rng.integers (1, 4))
            add (n2, [d, 0, 0], [d, 0, n2 * segl], rev = bool (rng.random () < 0.5))
        fam = 'close-' + kind
    med = [[0, 0, 0]] if media == 'ideal' else media
    spec = dict (f = f, geo = geo, fam = fam, media = med, feeds = feeds, src = [], loads = [])
    zn = float (np.random.default_rng ([int (f * 1000), len (geo), int (1e6 * rad / lam)]).choice ([0, 0, 0, 2.8e-17, 5.6e-17, 1e-13]))
    if zn:
        spec ['znoise'] = zn
    return spec
# end def fam_ground

def rand_media (rng, spec):
    """ put a ground family over real ground: 1..3 media, linear or circular boundary, possibly radials """
    env = str (rng.choice (['real1', 'real2', 'real3', 'radials']))
    if env == 'real1':
        med = [[float (rng.uniform (2, 80)), float (10 ** rng.uniform (-4, 1)), 0.0]]
    else:
        med = [[float (rng.uniform (2, 30)), float (10 ** rng.uniform (-3, 0)), 0.0, float (10 ** rng.uniform (0, 2.5))]]
        med.append ([float (rng.uniform (2, 80)), float (10 ** rng.uniform (-4, 0)), float (-rng.choice ([0, 0.5, 2]))])
        if env == 'real3':
            med [1].append (med [0][3] * float (rng.uniform (1.5, 10)))
            med.append ([float (rng.uniform (2, 80)), float (10 ** rng.uniform (-4, 0)), float (-rng.choice ([0, 1, 5]))])
        spec ['boundary'] = 'circular' if env == 'radials' else str (rng.choice (['linear', 'circular']))
        if env == 'radials':
            spec ['radials'] = [int (rng.integers (4, 120)), float (10 ** rng.uniform (-4, -2.5))]
    spec ['media'] = med
    return spec
# end def rand_media

def rand_voltage (rng):
    mag = float (np.exp (rng.uniform (np.log (0.2), np.log (20))))
    ph  = float (rng.uniform (-np.pi, np.pi))
    u = rng.random ()
    if u < 0.25:
        return [1.0, 0.0]
    if u < 0.37:
        # magnitude exactly one, phase not zero
        return [float (x) for x in ([0, 1], [-1, 0], [0, -1], [0.6, 0.8], [-0.8, 0.6]) [int (rng.integers (0, 5))]]
    return [mag * np.cos (ph), mag * np.sin (ph)]
# end def rand_voltage

def add_sources (rng, spec, nmax = 1):
    feeds = list (spec.get ('feeds') or [])
    if not feeds:
        n = sum (g ['n'] for g in spec ['geo'] [:1])
        spec ['src'] = [dict (p = [max (1, n // 2)], v = rand_voltage (rng))]
        return spec
    rng.shuffle (feeds)
    k = max (1, min (len (feeds), int (rng.integers (1, nmax + 1))))
    spec ['src'] = [dict (at = fd ['at'], dir = fd ['dir'], v = rand_voltage (rng)) for fd in feeds [:k]]
    return spec
# end def add_sources

def curve_spec (rng):
    """ arc / helix with wires on its ends, feeds on the wires """
    from pmv.props import c02
    spec = c02.curve_family (rng)
    spec ['feeds'] = []
    for g in spec ['geo']:
        if g ['k'] == 'w' and g ['n'] >= 2:
            p1, p2 = np.array (g ['p1']), np.array (g ['p2'])
            k = int (rng.integers (1, g ['n']))
            spec ['feeds'].append (dict (at = (p1 + (p2 - p1) * k / g ['n']).tolist (), dir = (p2 - p1).tolist ()))
    return spec if spec ['feeds'] else None
# end def curve_spec

def taper_some (rng, spec, prob, kind = None, min_radii = None):
    """ taper wires (default limits) that carry no source or load placed by location """
    marks = [np.array (x ['at']) for x in (spec.get ('src') or []) + (spec.get ('loads') or []) if 'at' in x]
    n = 0
    for g in spec ['geo']:
        if g ['k'] == 'w' and g ['n'] >= 3 and not g.get ('taper') and rng.random () < prob:
            p1, p2 = np.array (g ['p1']), np.array (g ['p2'])
            d  = p2 - p1
            # a mark on an end of the wire (junction or ground pulse) stays where it is under tapering
            on = any (np.linalg.norm (np.cross (d, x - p1)) < 1e-9 * (d @ d) and 1e-9 < (x - p1) @ d / (d @ d) < 1 - 1e-9 for x in marks)
            if not on:
                g ['taper'] = [int (rng.integers (1, 4)) if kind is None else kind, (None if min_radii is None else float (min_radii * g ['r'])), None]
                n += 1
    if n:
        order, tg = __import__ ('pmv.oracles.georef', fromlist = ['x']).object_tags (spec ['geo'])
        for g, t in zip (order, tg):
            g ['tag'] = t
    return n
# end def taper_some

def clean (spec):
    """ copy of a spec without generator bookkeeping, fit for replay files """
    return {k: v for k, v in spec.items () if k not in ('feeds',)}
# end def clean
