""" Random wire graphs with junction membership known by construction
    (used by C09, C17): nodes on a lattice, wires between nodes, optional
    arc / helix with wires attached to their ends, ground nodes, random
    order, direction and tags. expected_blocks () derives, without
    looking at the code under test, which pulses every object block of
    the geometry table must contain and where.
"""
import numpy as np
from pmv import gen
from pmv.oracles import georef

def make_graph (rng, gnd = None, curves = True, nw_max = 6, seg = (1, 5), tags = None, solvable = False):
    """ solvable: keep the structure electrically reasonable (segments
        comparable, no wires crossing at small distance is NOT guaranteed;
        used for checks that solve but do not judge the physics)
    """
    if gnd is None:
        gnd = bool (rng.random () < 0.4)
    scale = float (10 ** rng.uniform (-0.5, 1.0))
    lat   = [(x, y, z) for x in range (3) for y in range (3) for z in range (3)]
    K     = int (rng.integers (2, 7))
    idx   = rng.choice (len (lat), size = K, replace = False)
    nodes = {i: np.array (lat [j], float) * scale for i, j in enumerate (idx)}
    if not gnd:
        R = gen.rot_matrix (rng)
        nodes = {i: R @ p + np.array ([0, 0, 0.0]) for i, p in nodes.items ()}
    geo, ends = [], []
    # optional curve with wires hanging on its ends
    if curves and rng.random () < 0.3 and not gnd:
        if rng.random () < 0.5:
            n = int (rng.integers (3, 8))
            a1 = float (rng.uniform (0, 180))
            c = dict (k = 'a', n = n, radius = 2.0 * scale, a1 = a1, a2 = a1 + float (rng.uniform (40, 300)), r = 1e-3 * scale, tag = None)
        else:
            n = int (rng.integers (4, 9))
            c = dict ( k = 'h', n = n, length = float (rng.choice ([1, -1])) * 1.5 * scale, turn = float (rng.choice ([1, -1])) * 1.1 * scale
                     , r = 1e-3 * scale, rx1 = 0.8 * scale, ry1 = 0.6 * scale, tag = None)
        nd = georef.nodes_of (c)
        off = np.array ([20.0 * scale, 0, 0])
        geo.append (c)
        ci = 0
        for e, p in ((0, nd [0]), (1, nd [-1])):
            lab = 'c%d' % e
            nodes [lab] = p     # curve coordinates are not translated (no transform options here)
            ends.append (dict (w = ci, e = e, node = lab, gnd = False))
            if rng.random () < 0.7:
                # wire hanging on this curve end, going radially away
                d = p / np.linalg.norm (p) if np.linalg.norm (p) > 0 else np.array ([1., 0, 0])
                d = d + 0.3 * rng.normal (size = 3)
                d /= np.linalg.norm (d)
                q = p + d * scale * float (rng.uniform (0.8, 2))
                far = 'f%d' % e
                nodes [far] = q
                rev = bool (rng.random () < 0.5)
                a, b = (far, lab) if rev else (lab, far)
                geo.append (gen.wire (int (rng.integers (seg [0], seg [1] + 1)), nodes [a], nodes [b], 1e-3 * scale))
                ends.append (dict (w = len (geo) - 1, e = 0, node = a, gnd = False))
                ends.append (dict (w = len (geo) - 1, e = 1, node = b, gnd = False))
        if rng.random () < 0.5:
            # a second curve of the other kind, free standing (objects without tags are numbered arcs first, then
            # helices, then wires - whatever the order in which they are given)
            if c ['k'] == 'h':
                a1 = float (rng.uniform (0, 180))
                c2 = dict (k = 'a', n = int (rng.integers (3, 8)), radius = 2.0 * scale, a1 = a1, a2 = a1 + float (rng.uniform (40, 300)), r = 1e-3 * scale, tag = None)
            else:
                c2 = dict ( k = 'h', n = int (rng.integers (4, 9)), length = float (rng.choice ([1, -1])) * 1.5 * scale, turn = float (rng.choice ([1, -1])) * 1.1 * scale
                          , r = 1e-3 * scale, rx1 = 0.8 * scale, ry1 = 0.6 * scale, tag = None)
            nd2 = georef.nodes_of (c2)
            geo.append (c2)
            for e, p in ((0, nd2 [0]), (1, nd2 [-1])):
                nodes ['d%d' % e] = p
                ends.append (dict (w = len (geo) - 1, e = e, node = 'd%d' % e, gnd = False))
        # move the lattice away from the curve
        for i in range (K):
            nodes [i] = nodes [i] + off
    nw    = int (rng.integers (1, nw_max + 1))
    pairs = set ()
    tries = 0
    while len ([g for g in geo if g ['k'] == 'w' and g.get ('lat')]) < nw and tries < 40:
        tries += 1
        a, b = (int (x) for x in rng.choice (K, size = 2, replace = False))
        if frozenset ((a, b)) in pairs:
            continue
        if gnd and nodes [a][2] == 0 and nodes [b][2] == 0:
            continue
        pairs.add (frozenset ((a, b)))
        g = gen.wire (int (rng.integers (seg [0], seg [1] + 1)), nodes [a], nodes [b], 1e-3 * scale)
        g ['lat'] = True
        geo.append (g)
        for e, nd in ((0, a), (1, b)):
            ends.append (dict (w = len (geo) - 1, e = e, node = nd, gnd = bool (gnd and nodes [nd][2] == 0)))
    if not any (g.get ('lat') for g in geo):
        # no admissible pair drawn (e. g. only ground nodes): one wire upwards from node 0
        top = nodes [0] + np.array ([0, 0, scale])
        nodes ['top'] = top
        g = gen.wire (int (rng.integers (max (2, seg [0]), max (2, seg [1]) + 1)), nodes [0], top, 1e-3 * scale)
        geo.append (g)
        ends.append (dict (w = len (geo) - 1, e = 0, node = 0, gnd = bool (gnd and nodes [0][2] == 0)))
        ends.append (dict (w = len (geo) - 1, e = 1, node = 'top', gnd = False))
    for g in geo:
        g.pop ('lat', None)
    # order: shuffle wires among themselves (arcs, helices, wires are collected per kind by the CLI)
    widx  = [i for i, g in enumerate (geo) if g ['k'] == 'w']
    perm  = list (rng.permutation (widx))
    remap = {}
    newgeo = [g for g in geo if g ['k'] != 'w']
    for i, g in enumerate (geo):
        if g ['k'] != 'w':
            remap [i] = newgeo.index (g)
    for j in perm:
        remap [j] = len (newgeo)
        newgeo.append (geo [j])
    for e in ends:
        e ['w'] = remap [e ['w']]
    geo = newgeo
    # tags: None -> random style
    style = tags or str (rng.choice (['auto', 'explicit', 'permuted', 'sparse', 'mixed']))
    n = len (geo)
    if style == 'explicit':
        for i, g in enumerate (geo):
            g ['tag'] = i + 1
    elif style == 'permuted':
        for g, t in zip (geo, rng.permutation (n) + 1):
            g ['tag'] = int (t)
    elif style == 'sparse':
        ts = sorted (rng.choice (np.arange (1, 40), size = n, replace = False))
        for g, t in zip (geo, rng.permutation (ts)):
            g ['tag'] = int (t)
    elif style == 'mixed':
        ts = rng.choice (np.arange (1, 25), size = n, replace = False)
        for g, t in zip (geo, ts):
            if rng.random () < 0.5:
                g ['tag'] = int (t)
    # conductors of different thickness on one junction (thin wire, tube ten times as thick, wire in between): a third
    # of the structures (own random stream, from the coordinates)
    rr = np.random.default_rng ([int (abs (x) * 1e6) % 1000003 for g in geo if g ['k'] == 'w' for x in g ['p1']] + [len (geo)])
    if rr.random () < 0.33:
        for g in geo:
            if g ['k'] == 'w':
                g ['r'] = float (g ['r'] * float (rr.choice ([0.5, 1.0, 2.5, 5.0, 10.0])))
    seg_min = None
    for g in geo:
        nd = georef.nodes_of (g)
        for a, b in zip (nd [:-1], nd [1:]):
            l = np.linalg.norm (b - a)
            seg_min = l if seg_min is None else min (seg_min, l)
    spec = dict ( f = float (299.8 / (scale * 40)), geo = geo, media = ([[0, 0, 0]] if gnd else None)
                , src = [], loads = [], ends = ends, tol = 1e-3 * seg_min, style = style
                , nodes = {str (k): v.tolist () for k, v in nodes.items ()})
    return spec
# end def make_graph

def expected_blocks (spec):
    """ returns (tags in block order, blocks) where blocks [tag] is the
        list of expected pulses of that object's block in order:
        dict (kind = 'G' ground | 'J' junction | 'I' interior, at = point, e = end index or None)
        Rule: objects ordered by tag; a junction pulse belongs to the later
        of the objects it joins: an object owns a junction pulse at an end
        when an earlier object (or, for a closed object, its own first end)
        has an end at the same node.
    """
    order, tags = georef.object_tags (spec ['geo'])
    # map spec geo index -> tag (object_tags reorders arcs, helices, wires - same as spec order here)
    idx_of = {id (g): i for i, g in enumerate (spec ['geo'])}
    tag_of = {idx_of [id (g)]: t for g, t in zip (order, tags)}
    by_end = {(e ['w'], e ['e']): e for e in spec ['ends']}
    node_members = {}
    for e in spec ['ends']:
        if not e ['gnd']:
            node_members.setdefault (str (e ['node']), []).append ((tag_of [e ['w']], e ['e']))
    blocks = {}
    for i, g in enumerate (spec ['geo']):
        t  = tag_of [i]
        nd = georef.nodes_of (g)
        bl = []
        for e in (0, 1):
            info = by_end [(i, e)]
            p    = nd [0] if e == 0 else nd [-1]
            item = None
            if info ['gnd']:
                q = np.array (p, float)
                q [2] = 0.0
                item = dict (kind = 'G', at = q, e = e)
            else:
                mem = node_members [str (info ['node'])]
                earlier = [x for x in mem if x [0] < t]
                own_first = (t, 0) in mem and e == 1
                if earlier or own_first:
                    item = dict (kind = 'J', at = np.array (p, float), e = e)
            if e == 0:
                if item:
                    bl.append (item)
                for p2 in nd [1:-1]:
                    bl.append (dict (kind = 'I', at = np.array (p2, float), e = None))
            elif item:
                bl.append (item)
        blocks [t] = bl
    return sorted (blocks), blocks, tag_of, node_members
# end def expected_blocks
