""" Instrumentation layers attached from the harness (no source edits):
    1. contract layer  - postconditions on the real functions (icontract
       plumbing when available, the same condition functions called from
       plain wrappers otherwise); a broken contract is *recorded* with the
       id of the property that owns it and the workload continues.
    2. event recorder  - kernel branch histogram of Mininec.psi, call
       counts of the boundary functions.
    3. anchor tracer   - sys.monitoring LINE events (DISABLE after first
       hit per location) restricted to files of the repository: which
       lines of the anchored mechanisms were executed in this process.
    Enabled only when the environment variable PYMININEC_VERIF is set.
"""
import os, sys, functools, collections
import numpy as np
from fractions import Fraction
from pmv import common

RECORD   = []   # broken contracts: dict (owner, contract, msg, measured, allowed)
EVALS    = collections.Counter ()   # contract name -> evaluations
EVENTS   = collections.Counter ()   # event name -> count
LINES    = set ()                   # (relative filename, qualname, line)
_installed = False

class Contract_Broken (Exception):
    def __init__ (self, owner, contract, msg, measured = None, allowed = None):
        self.d = dict ( owner = owner, contract = contract, msg = msg
                      , measured = measured, allowed = allowed
                      )
        super ().__init__ ('%s/%s: %s' % (owner, contract, msg))
# end class Contract_Broken

def reset_case ():
    del RECORD [:]
# end def reset_case

def take_records ():
    r = list (RECORD)
    del RECORD [:]
    return r
# end def take_records

# ---------------------------------------------------------------- conditions
# Every condition returns None when it holds and raises Contract_Broken
# otherwise. They only read public state of the objects.

def cond_rhs (self):
    """ the right-hand side holds, for every source, its voltage (times -j / (4.77783352 lambda), the constant of the
        formulation), twice that on a pulse on the ground plane, and nothing else """
    EVALS ['compute_rhs.sources'] += 1
    b = np.asarray (self.rhs)
    want = np.zeros (len (b), dtype = complex)
    seen = {}
    for s in self.sources:
        seen [s.idx] = seen.get (s.idx, 0) + 1
    if any (v > 1 for v in seen.values ()):
        EVALS ['compute_rhs.sources:skipped-two-on-one-pulse'] += 1
        return
    for s in self.sources:
        p = self.pulses [s.idx]
        onplane = self.media is not None and bool (np.asarray (p.ground).any ())
        want [s.idx] = -1j * complex (s.voltage) / (4.77783352 * self.wavelen) * (2 if onplane else 1)
    n = max (np.abs (want).max (initial = 0), 1e-300)
    d = float (np.abs (b - want).max (initial = 0) / n)
    if d > 1e-12:
        k = int (np.argmax (np.abs (b - want)))
        raise Contract_Broken \
            ( 'C07', 'compute_rhs.sources'
            , 'right-hand side entry of pulse %d is %r, the sources give %r (pulse on the ground plane: %s)'
              % (k + 1, complex (b [k]), complex (want [k]), bool (np.asarray (self.pulses [k].ground).any ()))
            , d, 1e-12
            )
# end def cond_rhs

def cond_solve_residual (self):
    EVALS ['compute_currents.residual'] += 1
    Z, I, b = self.Z, self.current, self.rhs
    res = np.linalg.norm (Z @ I - b)
    nb  = np.linalg.norm (b)
    if nb == 0 or not np.isfinite (res):
        return
    try:
        cond = np.linalg.cond (Z)
    except Exception:
        cond = 1e16
    if not np.isfinite (cond) or cond > 1e10:
        # numerically singular system (overlapping / degenerate geometry): outside every property's domain
        EVALS ['compute_currents.residual:skipped-ill-conditioned'] += 1
        return
    allowed = 1e-12 * max (cond, 1.0)
    if res / nb > allowed:
        raise Contract_Broken \
            ( 'C07', 'compute_currents.residual'
            , '|Z I - rhs| / |rhs| = %.3g > %.3g (cond %.3g)'
              % (res / nb, allowed, cond)
            , res / nb, allowed
            )
# end def cond_solve_residual

def cond_power_sum (self):
    EVALS ['compute.power'] += 1
    p = sum ( (0.5 * complex (s.voltage) * np.conj (self.current [s.idx])).real
              for s in self.sources
            )
    scale = sum (0.5 * abs (s.voltage) * abs (self.current [s.idx]) for s in self.sources)
    if not np.isfinite (scale) or scale == 0:
        return
    if abs (p - self.power) > 1e-12 * scale:
        raise Contract_Broken \
            ( 'C07', 'compute.power'
            , 'Mininec.power %.10g != sum 1/2 Re (V I*) %.10g' % (self.power, p)
            , abs (p - self.power) / scale, 1e-12
            )
# end def cond_power_sum

def exact_grid (start, inc, n):
    """ start + i * inc evaluated in exact rational arithmetic """
    s = Fraction (float (start))
    d = Fraction (float (inc))
    return [float (s + i * d) for i in range (int (n))]
# end def exact_grid

def grid_tol (start, inc, n):
    m = max (abs (float (start)), abs (float (start) + float (n) * float (inc)), 1e-300)
    return (int (n) + 4) * 2.3e-16 * m
# end def grid_tol

def cond_far_field_table (self, zenith_angle, azimuth_angle):
    EVALS ['compute_far_field.table'] += 1
    ff  = self.far_field
    nt, nph = int (zenith_angle.number), int (azimuth_angle.number)
    own = 'C16'
    for name, arr, last in ( ('gain', ff.gain, 3), ('e_theta', ff.e_theta, None)
                           , ('e_phi', ff.e_phi, None), ('zen', ff.zen, None)
                           , ('azi', ff.azi, None)):
        a = np.asarray (arr)
        if name == 'gain':
            ok = a.shape == (nt, nph, 3)
        else:
            # zen/azi come from meshgrid (theta, phi) -> (nph, nt); e_* are (nph, nt)
            ok = a.size == nt * nph
        if not ok:
            raise Contract_Broken \
                ( own, 'compute_far_field.table'
                , 'far_field.%s has shape %s for %d x %d angles' % (name, a.shape, nt, nph)
                , a.size, nt * nph
                )
    th = exact_grid (zenith_angle.initial, zenith_angle.inc, nt)
    ph = exact_grid (azimuth_angle.initial, azimuth_angle.inc, nph)
    zen = np.asarray (ff.zen)
    azi = np.asarray (ff.azi)
    # rows are printed by iterating zen.flat / azi.flat: theta fastest
    want_t = np.array ([t for p in ph for t in th])
    want_p = np.array ([p for p in ph for t in th])
    tt = grid_tol (zenith_angle.initial, zenith_angle.inc, nt)
    tp = grid_tol (azimuth_angle.initial, azimuth_angle.inc, nph)
    if np.abs (zen.flatten () - want_t).max (initial = 0) > tt \
       or np.abs (azi.flatten () - want_p).max (initial = 0) > tp:
        raise Contract_Broken \
            ( own, 'compute_far_field.table'
            , 'far-field angles differ from start + i * step'
            , float (max ( np.abs (zen.flatten () - want_t).max (initial = 0)
                         , np.abs (azi.flatten () - want_p).max (initial = 0)))
            , max (tt, tp)
            )
# end def cond_far_field_table

def cond_near_field_grid (self, start, inc, nvec):
    EVALS ['compute_near_field.grid'] += 1
    n   = [int (x) for x in nvec]
    tot = n [0] * n [1] * n [2]
    c   = np.asarray (self.near_field_coord)
    ne, nh = len (self.e_field), len (self.h_field)
    if getattr (self, '_pmv_stub', False):
        # grid-only mode of C16: field evaluation stubbed out for large grids
        ne = nh = tot
    if c.shape != (3, tot) or ne != tot or nh != tot:
        raise Contract_Broken \
            ( 'C16', 'compute_near_field.grid'
            , 'grid %s * %s * %s requested, coord shape %s, %d E and %d H points'
              % (n [0], n [1], n [2], c.shape, ne, nh)
            , max (c.shape [-1] if c.ndim == 2 else -1, ne, nh), tot
            )
    ax = [exact_grid (start [k], inc [k], n [k]) for k in range (3)]
    # documented order (golden files): X fastest, then Y, then Z
    want = np.array ([[x, y, z] for z in ax [2] for y in ax [1] for x in ax [0]]).T
    tol  = np.array ([grid_tol (start [k], inc [k], n [k]) for k in range (3)])
    dev  = np.abs (c - want).max (axis = 1) if tot else np.zeros (3)
    if (dev > tol).any ():
        raise Contract_Broken \
            ( 'C16', 'compute_near_field.grid'
            , 'near-field points differ from start + i * increment (x fastest): dev %s tol %s'
              % (dev, tol)
            , float ((dev / tol).max ()), 1.0
            )
# end def cond_near_field_grid

def cond_segments_tile (geobj):
    EVALS ['compute_segments.tiling'] += 1
    segs = geobj.segments
    n    = int (geobj.n_segments)
    if len (segs) != n:
        raise Contract_Broken \
            ( 'C13', 'compute_segments.tiling'
            , '%s: %d segments for %d requested' % (geobj, len (segs), n)
            , len (segs), n
            )
    p1 = np.asarray (geobj.p1, float)
    p2 = np.asarray (geobj.p2, float)
    L  = sum (np.linalg.norm (np.asarray (s.p2, float) - np.asarray (s.p1, float)) for s in segs)
    # (coordinates carry the rounding of their own magnitude: structures hundreds of kilometres from the origin)
    big = float (max (np.abs (p1).max (), np.abs (p2).max ()))
    tol = 1e-9 * max (L, 1e-300) + 8 * np.finfo (float).eps * big
    gaps = [np.linalg.norm (np.asarray (segs [0].p1, float) - p1)]
    for a, b in zip (segs [:-1], segs [1:]):
        gaps.append (np.linalg.norm (np.asarray (a.p2, float) - np.asarray (b.p1, float)))
    gaps.append (np.linalg.norm (np.asarray (segs [-1].p2, float) - p2))
    if max (gaps) > tol:
        raise Contract_Broken \
            ( 'C13', 'compute_segments.tiling'
            , '%s: segments do not chain from first to last end (gap %.3g)' % (geobj, max (gaps))
            , max (gaps), tol
            )
    for s in segs:
        l = np.linalg.norm (np.asarray (s.p2, float) - np.asarray (s.p1, float))
        if not (l > 0) or abs (s.seg_len - l) > 1e-9 * max (l, 1e-300) + 8 * np.finfo (float).eps * big:
            raise Contract_Broken \
                ( 'C13', 'compute_segments.tiling'
                , '%s: segment %d has length %r (seg_len %r)' % (geobj, s.idx, l, s.seg_len)
                , float (s.seg_len), float (l)
                )
# end def cond_segments_tile

def cond_pulse_numbering (container, pulse):
    EVALS ['Pulse_Container.add.numbering'] += 1
    idx = [p.idx for p in container.pulses]
    if idx != list (range (len (idx))) or len (container) != len (idx):
        raise Contract_Broken \
            ( 'C12', 'Pulse_Container.add.numbering'
            , 'pulse indices not contiguous: %s' % idx [-5:]
            , idx [-1] if idx else -1, len (idx) - 1
            )
# end def cond_pulse_numbering

def cond_format_float (floats, use_e, result):
    """ round trip of the produced text (C19) """
    EVALS ['format_float.roundtrip'] += 1
    for f, s in zip (floats, result):
        f = float (f)
        try:
            v = float (s)
        except ValueError:
            raise Contract_Broken \
                ('C19', 'format_float.roundtrip', 'unparsable %r for %r' % (s, f))
        if f == 0:
            ok = v == 0
        elif 'E' in s:
            ok = abs (v - f) <= 5e-6 * abs (f) * (1 + 1e-6)
        else:
            ok = abs (v - f) <= max (5e-6 * abs (f), 1e-6) * (1 + 1e-6)
        if not ok:
            raise Contract_Broken \
                ( 'C19', 'format_float.roundtrip'
                , 'format_float (%r, use_e = %r) -> %r' % (f, use_e, s)
                , abs (v - f), max (5e-6 * abs (f), 0 if 'E' in s else 1e-6)
                )
# end def cond_format_float

# ------------------------------------------------------------ frozen state

import hashlib

def _dig (v):
    a = np.asarray (v)
    if a.dtype == object:
        return None
    return (a.shape, str (a.dtype), hashlib.blake2b (np.ascontiguousarray (a).tobytes (), digest_size = 8).hexdigest ())

def state_digest (m, results = False, extra = ()):
    """ digests of what a field request or a printing call has to leave alone: the cached arrays of the pulse
        container, segments and pulses of every object, matrix, right-hand side, currents, sources, loads, media;
        with results = True also the field tables of the last requests; extra: further objects (the caller's
        Angle objects) by their attributes """
    d = {}
    def put (k, v):
        try:
            x = _dig (v)
        except Exception:
            x = None
        if x is not None:
            d [k] = x
    def attrs (prefix, o):
        for k, v in list (vars (o).items ()):
            if k in ('zint', 'zint_key', 'zins'):
                continue        # per-frequency caches of the distributed loads (keyed by the frequency they were computed for)
            if isinstance (v, (np.ndarray, float, int, complex, np.floating, np.integer, np.complexfloating, bool, tuple)):
                put (prefix + k, v)
    try:
        attrs ('pulses.', m.pulses)
        for gi, g in enumerate (m.geo):
            attrs ('geo%d.' % gi, g)
            sg = getattr (g, 'segments', None) or []
            if sg:
                # (segments and pulses hold views of / are mirrored in the arrays digested here)
                put ('geo%d.nodes' % gi, [sg [0].p1] + [s.p2 for s in sg])
                put ('geo%d.seglen' % gi, [s.seg_len for s in sg])
        for k in ('Z', 'rhs', 'current', 'f', 'w', 'srm', 'power'):
            v = getattr (m, k, None)
            if v is not None:
                put ('m.' + k, v)
        for i, s in enumerate (m.sources):
            put ('src%d' % i, [complex (s.voltage).real, complex (s.voltage).imag, s.idx])
        for i, l in enumerate (m.loads):
            put ('load%d' % i, [p.idx for p in l.pulses])
            attrs ('load%d.' % i, l)
        for i, md in enumerate (m.media or []):
            attrs ('medium%d.' % i, md)
            put ('medium%d.boundary' % i, [ord (c) for c in str (getattr (md, 'boundary', ''))])
        if results:
            ff = getattr (m, 'far_field', None)
            if ff is not None:
                attrs ('far_field.', ff)
            for k in ('e_field', 'h_field', 'near_field_coord'):
                v = getattr (m, k, None)
                if v is not None and len (v):
                    put ('m.' + k, np.asarray (v))
        for i, o in enumerate (extra):
            attrs ('arg%d.' % i, o)
    except Exception:
        EVENTS ['frozen-state.digest-failed'] += 1
        return None
    return d
# end def state_digest

def frozen (name, results):
    """ wrapper factory: the state digested before the call is found unchanged after it (new cached entries may
        appear, existing ones may not change). Owner: C14 - a request or a printing call that alters state changes
        what later calls on the same object return. """
    def deco (orig):
        @functools.wraps (orig)
        def w (self, *a, **kw):
            extra  = [x for x in a if x.__class__.__name__ == 'Angle'] + [x for x in kw.values () if x.__class__.__name__ == 'Angle']
            before = state_digest (self, results, extra)
            r = orig (self, *a, **kw)
            if before is not None:
                after = state_digest (self, results, extra)
                EVALS ['frozen-state.' + name] += 1
                if after is not None:
                    changed = sorted (k for k in before if k in after and after [k] != before [k]) + sorted (k for k in before if k not in after)
                    if changed:
                        RECORD.append (dict ( owner = 'C14', contract = 'frozen-state.' + name
                                            , msg = '%s changed state it has to leave alone: %s' % (name, ', '.join (changed [:6]))
                                            , measured = len (changed), allowed = 0))
            return r
        return w
    return deco
# end def frozen

# -------------------------------------------------------------- installation

def attach (cls, name, cond, params, have_ic):
    """ Attach cond as a postcondition of cls.name (a method returning
        None). params are the explicit parameter names: measure_time
        hides the argument names of the real methods, so the contract is
        put on a shim with an explicit signature. With icontract the
        condition is an `ensure` on that shim; without it the wrapper
        calls the very same condition function. The condition raises
        Contract_Broken itself (it carries owner/measured/allowed); the
        wrapper records it and lets the workload continue.
    """
    orig = getattr (cls, name)
    P    = ', '.join (params)
    ns   = dict (orig = orig, cond = cond)
    exec ( 'def shim (%s):\n    return orig (%s)\n'
           'def holds (%s):\n    cond (%s)\n    return True\n' % (P, P, P, P)
         , ns
         )
    if have_ic:
        import icontract
        checked = icontract.ensure (ns ['holds']) (ns ['shim'])
    else:
        def checked (*a):
            r = ns ['shim'] (*a)
            ns ['holds'] (*a)
            return r
    @functools.wraps (orig)
    def wrapper (*a):
        try:
            return checked (*a)
        except Contract_Broken as e:
            RECORD.append (e.d)
            return None
    setattr (cls, name, wrapper)
# end def attach

def install ():
    global _installed
    if _installed or not os.environ.get (common.GUARD):
        return False
    _installed = True
    MM = common.repo ()
    import mininec.pulse as PU
    import mininec.util  as UT
    common.deps_path ()
    try:
        import icontract
        have_ic = True
    except Exception:
        have_ic = False
    EVENTS ['icontract' if have_ic else 'plain-wrappers'] += 1

    # Mininec
    M = MM.Mininec
    attach (M, 'compute_currents', cond_solve_residual, ['self'], have_ic)
    attach (M, 'compute_rhs', cond_rhs, ['self'], have_ic)
    attach (M, 'compute', cond_power_sum, ['self'], have_ic)
    # far field / near field take optional arguments: plain wrappers keep kwargs
    orig_ff = M.compute_far_field
    @functools.wraps (orig_ff)
    def ff (self, zenith_angle, azimuth_angle, *a, **kw):
        EVENTS ['compute_far_field'] += 1
        r = orig_ff (self, zenith_angle, azimuth_angle, *a, **kw)
        try:
            cond_far_field_table (self, zenith_angle, azimuth_angle)
        except Contract_Broken as e:
            RECORD.append (e.d)
        return r
    M.compute_far_field = ff
    orig_nf = M.compute_near_field
    @functools.wraps (orig_nf)
    def nf (self, start, inc, nvec, *a, **kw):
        EVENTS ['compute_near_field'] += 1
        r = orig_nf (self, start, inc, nvec, *a, **kw)
        try:
            cond_near_field_grid (self, start, inc, nvec)
        except Contract_Broken as e:
            RECORD.append (e.d)
        return r
    M.compute_near_field = nf
    # segmentation of every object class
    for cls in (MM.Wire, MM.Curve):
        attach (cls, 'compute_segments', cond_segments_tile, ['self'], have_ic)
    attach (PU.Pulse_Container, 'add', cond_pulse_numbering, ['self', 'pulse'], have_ic)
    # format_float is imported by name into two modules
    orig_fmt = UT.format_float
    @functools.wraps (orig_fmt)
    def fmt (floats, use_e = 0):
        floats = tuple (floats)
        r = orig_fmt (floats, use_e)
        try:
            cond_format_float (floats, use_e, r)
        except Contract_Broken as e:
            RECORD.append (e.d)
        except Exception:
            pass
        return r
    for mod in (UT, MM, PU):
        if getattr (mod, 'format_float', None) is orig_fmt:
            mod.format_float = fmt
    # event recorder: kernel branches of psi
    orig_psi = M.psi
    @functools.wraps (orig_psi)
    def psi (self, vec2, vecv, k, scale, pidx, exact = False, fvs = 0):
        try:
            sl = self.pulses.seg_len.T [int (scale > 0)][pidx]
            t  = ( np.linalg.norm (vec2, axis = -1)
                 + np.linalg.norm (vecv, axis = -1)) / sl
            t  = np.atleast_1d (t)
            ex = np.atleast_1d (np.asarray (exact, dtype = bool) * (t <= 1.1))
            r  = np.atleast_1d (self.pulses.radius.T [int (scale > 0)][pidx])
            EVENTS ['psi.exact.small-radius'] += int ((ex & (r <= self.srm)).sum ())
            EVENTS ['psi.exact.elliptic']     += int ((ex & (r >  self.srm)).sum ())
            ne = ~ex
            EVENTS ['psi.gauss8'] += int ((ne & (t <= 6)).sum ())
            EVENTS ['psi.gauss4'] += int ((ne & (t > 6) & (t <= 10)).sum ())
            EVENTS ['psi.gauss2'] += int ((ne & (t > 10)).sum ())
            EVENTS ['psi.image' if k < 0 else 'psi.direct'] += int (t.size)
        except Exception:
            EVENTS ['psi.unclassified'] += 1
        return orig_psi (self, vec2, vecv, k, scale, pidx, exact = exact, fvs = fvs)
    M.psi = psi
    # frozen state: field requests leave the solver's state alone, printing leaves everything alone
    for name, res in ( ('compute_far_field', False), ('compute_near_field', False), ('as_mininec', True), ('as_cmdline', True), ('as_basic_input', True)
                     , ('currents_as_mininec', True), ('source_data_as_mininec', True), ('loads_as_mininec', True), ('wires_as_mininec', True)
                     , ('far_field_as_mininec', True), ('far_field_absolute_as_mininec', True), ('near_field_e_as_mininec', True), ('near_field_h_as_mininec', True)
                     , ('frq_dependent_as_mininec', True), ('frq_independent_as_mininec', True)):
        if hasattr (M, name):
            setattr (M, name, frozen (name, res) (getattr (M, name)))
    for name in ('compute_impedance_matrix', 'compute_rhs', 'as_mininec', 'as_cmdline', 'as_basic_input'):
        orig = getattr (M, name)
        def mk (orig, name):
            @functools.wraps (orig)
            def w (*a, **kw):
                EVENTS [name] += 1
                return orig (*a, **kw)
            return w
        setattr (M, name, mk (orig, name))
    start_tracer ()
    start_fp_recorder ()
    return True
# end def install

def start_fp_recorder ():
    """ floating-point 'sanitizer': numpy calls back on invalid / divide / overflow; the innermost
        repository function on the stack is recorded (EVENTS 'fp:<kind>@<function>'). Observability
        only - whether a non-finite value reaches an observable is decided by the property monitors.
    """
    prefix = os.path.join (common.REPO, 'mininec') + os.sep
    def handler (kind, flag):
        f = sys._getframe (1)
        depth = 0
        while f is not None and depth < 40:
            if f.f_code.co_filename.startswith (prefix):
                EVENTS ['fp:%s@%s' % (kind.split () [0], f.f_code.co_name)] += 1
                return
            f = f.f_back
            depth += 1
        EVENTS ['fp:%s@outside-repository' % kind.split () [0]] += 1
    np.seterrcall (handler)
    np.seterr (divide = 'call', over = 'call', invalid = 'call', under = 'ignore')
# end def start_fp_recorder

# -------------------------------------------------------------- anchor tracer

TOOL = None

def start_tracer ():
    global TOOL
    mon = getattr (sys, 'monitoring', None)
    if mon is None:
        return
    prefix = os.path.join (common.REPO, 'mininec') + os.sep
    for tid in (3, 4, 2, 1):
        try:
            mon.use_tool_id (tid, 'pmv-anchor')
            TOOL = tid
            break
        except Exception:
            continue
    if TOOL is None:
        return
    DIS = mon.DISABLE
    def on_line (code, line):
        fn = code.co_filename
        if fn.startswith (prefix):
            LINES.add ((fn [len (prefix):], code.co_qualname, line))
        return DIS
    mon.register_callback (TOOL, mon.events.LINE, on_line)
    mon.set_events (TOOL, mon.events.LINE)
# end def start_tracer

def anchor_report (anchors):
    """ anchors: list of qualnames ('Mininec.compute_rhs', 'taper1', ...)
        returns {qualname: [lines hit, lines total]} from this process
    """
    MM = common.repo ()
    import mininec.pulse, mininec.taper, mininec.util, mininec.segment
    mods = [MM, mininec.pulse, mininec.taper, mininec.util, mininec.segment]
    out = {}
    for q in anchors:
        obj = None
        for mod in mods:
            o = mod
            try:
                for part in q.split ('.'):
                    o = getattr (o, part)
                obj = o
                break
            except AttributeError:
                continue
        if obj is None:
            out [q] = [0, 0]
            continue
        if isinstance (obj, property):
            obj = obj.fget
        while hasattr (obj, '__wrapped__'):
            obj = obj.__wrapped__
        # methods decorated with measure_time are the closure 'timer' around the real method
        for k in range (3):
            c0 = getattr (obj, '__code__', None)
            if c0 is not None and c0.co_name == 'timer' and getattr (obj, '__closure__', None):
                inner = [c.cell_contents for c in obj.__closure__ if callable (getattr (c, 'cell_contents', None))]
                if inner:
                    obj = inner [0]
                    while hasattr (obj, '__wrapped__'):
                        obj = obj.__wrapped__
                    continue
            break
        code = getattr (obj, '__code__', None)
        if code is None:
            out [q] = [0, 0]
            continue
        # measure_time wraps methods in 'timer': find real code by name in file
        total = set (l for (_, _, l) in code.co_lines () if l is not None)
        total.discard (code.co_firstlineno)
        fn  = os.path.basename (code.co_filename)
        hit = set (l for (f, qn, l) in LINES if f == fn and l in total)
        out [q] = [len (hit), len (total)]
    return out
# end def anchor_report
