""" Description-invariant observables of a solved model (DESIGN 1.4) """
import numpy as np
from pmv import common

def solve (m):
    common.guarded (m.compute, 'compute')
    return m
# end def solve

def cond_number (m):
    try:
        return float (np.linalg.cond (m.Z))
    except Exception:
        return float ('inf')
# end def cond_number

def tol_cond (cond, base = 5e-4):
    """ 5e-4 up to cond 1e3, 5e-7 * cond up to 1e5, None beyond """
    if not np.isfinite (cond) or cond > 1e5:
        return None
    return max (base, base * 1e-3 * cond)
# end def tol_cond

def feed_amp (m):
    """ largest pulse current over the smallest feed current: a feed impedance V / I is only as exact, relatively,
        as its feed current, and the method bounds current errors relative to the largest current """
    I = np.abs (np.asarray (m.current))
    lo = min (abs (complex (m.current [s.idx])) for s in m.sources)
    return float (I.max () / max (lo, 1e-300))
# end def feed_amp

IMP_KEY = 'impedance-at-current-minimum'

def imp_key (rel, tol, amp):
    """ mechanism key of an impedance deviation: None (within the stated tolerance), the known finding (feed near a
        current minimum and the deviation is that of a current error within the tolerance), or 'impedance' """
    if rel <= tol:
        return None
    if amp > 3 and rel <= tol * amp:
        return IMP_KEY
    return 'impedance'
# end def imp_key

def power_ratio (m):
    """ apparent power of the sources over their net power: with several sources of which some absorb, the net input
        power is a small difference of large numbers, and the gain (field squared over input power) magnifies a
        relative current error d into 2 d S / P """
    S = sum (0.5 * abs (complex (s.voltage)) * abs (complex (m.current [s.idx])) for s in m.sources)
    return float (S / max (float (m.power), 1e-300))
# end def power_ratio

def gain_slack_db (m, d):
    """ dB by which the gain may move when the currents move by d (relative to the largest) - through the input power """
    if d is None or not np.isfinite (d):
        return 0.0
    return float (10 * np.log10 (1 + 2 * d * power_ratio (m)))
# end def gain_slack_db

def gain_dev_beam_db (ga, gb, d = None):
    """ deviation between two gain tables (dB, same directions) measured on the scale of the main beam: the largest
        difference of field amplitude over the largest amplitude, as dB (at the main beam this is the plain
        difference in dB; in a null a current error of relative size d is a large factor of a small number and is
        not counted as more than it is). Returns (measured dB, dB explained by a current deviation d). """
    fa = 10 ** (np.maximum (np.asarray (ga, float), -300) / 20)
    fb = 10 ** (np.maximum (np.asarray (gb, float), -300) / 20)
    dev = float (np.abs (fa - fb).max () / max (fa.max (), 1e-300))
    return float (20 * np.log10 (1 + dev)), float (20 * np.log10 (1 + (d or 0.0)))
# end def gain_dev_beam_db

def min_seg (m):
    return min (s.seg_len for g in m.geo for s in g.segments)
# end def min_seg

def current_field (m, T = None, Tv = None, unit = None, upper_only = None):
    """ map: quantised midpoint of every half-segment -> sum of I * tau
        (tau = unit vector of current flow). Halves below z = 0 (images)
        are dropped over ground. T / Tv transform points / vectors.
    """
    T  = T  or (lambda x: x)
    Tv = Tv or (lambda v: v)
    L  = unit or min_seg (m)
    f  = {}
    for p, I in zip (m.pulses, m.current):
        P = np.asarray (p.point, float)
        for e, sg in ((np.asarray (p.ends [0], float), -1), (np.asarray (p.ends [1], float), 1)):
            h   = (P + e) / 2
            mid = (P + h) / 2
            if (m.media is not None if upper_only is None else upper_only) and mid [2] < 0:
                continue
            tau = (h - P) * sg
            tau = tau / np.linalg.norm (tau)
            key = tuple (int (x) for x in np.round (T (mid) / L * 50))
            # pulses that share a half-segment (junction pulses) may write its end a little differently (ends
            # joined within the matching tolerance): a neighbouring bin is the same half-segment
            if key not in f:
                for dx in (-1, 0, 1):
                    for dy in (-1, 0, 1):
                        for dz in (-1, 0, 1):
                            k2 = (key [0] + dx, key [1] + dy, key [2] + dz)
                            if k2 in f:
                                key = k2
            f [key] = f.get (key, 0) + I * Tv (tau)
    return f
# end def current_field

def field_keys_match (fa, fb):
    """ match keys allowing +-1 quantisation steps """
    kb = {}
    for k in fb:
        kb [k] = k
    out = {}
    for k in fa:
        if k in kb:
            out [k] = k
            continue
        found = None
        for dx in (-1, 0, 1):
            for dy in (-1, 0, 1):
                for dz in (-1, 0, 1):
                    kk = (k [0] + dx, k [1] + dy, k [2] + dz)
                    if kk in kb:
                        found = kk
        if found is None:
            return None
        out [k] = found
    if len (set (out.values ())) != len (fb):
        return None
    return out
# end def field_keys_match

def cmp_fields (fa, fb):
    """ relative deviation of two current fields (max norm / max |I|) or
        None when the supports differ
    """
    mp = field_keys_match (fa, fb)
    if mp is None:
        return None
    mx = max (np.linalg.norm (v) for v in fa.values ())
    if mx == 0:
        return 0.0
    return float (max (np.linalg.norm (fa [k] - fb [mp [k]]) for k in fa) / mx)
# end def cmp_fields

def pattern (m, nth = 7, nph = 8, th0 = 7.0, th1 = None, pwr = None, dist = 0):
    """ gain table on a fixed grid of directions """
    MM = common.repo ()
    if th1 is None:
        th1 = 83.0 if m.media is not None else 173.0
    zen = MM.Angle (th0, (th1 - th0) / max (1, nth - 1), nth)
    azi = MM.Angle (3.0, 360.0 / nph, nph)
    kw = {}
    if pwr is not None:
        kw ['pwr'] = pwr
    if dist:
        kw ['dist'] = dist
    common.guarded (lambda: m.compute_far_field (zen, azi, **kw), 'compute_far_field')
    return m.far_field
# end def pattern

def gain_dev_db (ga, gb, floor = -40.0):
    """ max |difference| in dB of two gain tables, ignoring directions
        where both are more than `floor` dB below the maximum
    """
    ga = np.asarray (ga, float)
    gb = np.asarray (gb, float)
    mx = max (ga.max (), gb.max ())
    sel = (ga > mx + floor) | (gb > mx + floor)
    if not sel.any ():
        return 0.0
    return float (np.abs (ga [sel] - gb [sel]).max ())
# end def gain_dev_db

# ---- on-the-spot experiments used to classify a deviation as a known finding (never to accept one silently)

import contextlib

@contextlib.contextmanager
def gauss_order_fixed ():
    """ experiment: every potential integral with the 8-point rule. The program chooses 8 / 4 / 2 points by
        t = (d0 + d3) / segment length against the thresholds 6 and 10; on a straight, equally segmented wire t
        is a whole or half number for every pair of pulses, so pairs sit exactly on a threshold and the last bit of
        the coordinates decides the rule. Two descriptions of one antenna that differ in rounding then differ by the
        8- / 4-point quadrature difference (5e-5 of the entry) in a whole band of the matrix.
    """
    MM   = common.repo ()
    orig = MM.Mininec.fast_quad
    def fast_quad (self, a, b, args, n):
        return orig (self, a, b, args, 8)
    MM.Mininec.fast_quad = fast_quad
    try:
        yield
    finally:
        MM.Mininec.fast_quad = orig
# end def gauss_order_fixed

def threshold_pairs (m):
    """ number of potential integrals of the matrix fill of m whose order criterion t lies within 1e-9 (relative) of
        a threshold (6 or 10), counted by a wrapped Mininec.psi during a refill """
    MM   = common.repo ()
    orig = MM.Mininec.psi
    n    = [0]
    def psi (self, vec2, vecv, k, scale, pidx, exact = False, fvs = 0):
        L  = np.atleast_1d (self.pulses.seg_len.T [int (scale > 0)][pidx])
        t  = (np.linalg.norm (np.asarray (vec2, float), axis = -1) + np.linalg.norm (np.asarray (vecv, float), axis = -1)) / L
        n [0] += int ((np.minimum (np.abs (t - 6), np.abs (t - 10)) < 1e-9 * 10).sum ())
        return orig (self, vec2, vecv, k, scale, pidx, exact = exact, fvs = fvs)
    MM.Mininec.psi = psi
    try:
        common.guarded (m.compute_impedance_matrix, 'compute_impedance_matrix')
    finally:
        MM.Mininec.psi = orig
    return n [0]
# end def threshold_pairs
