""" Reader of the answer stream for the original BASIC MININEC program:
    a prompt-order state machine (prompts as documented in the comments
    of as_basic_input and validated on the .mini files of the test
    directory) that consumes every answer in order and rebuilds the
    described antenna through the public API. Leftover or missing answers
    are errors.
"""
import numpy as np
from pmv import common

class Read_Error (Exception):
    pass

class Stream:
    def __init__ (self, text):
        ans = [l.strip () for l in text.replace ('\r', '\n').split ('\n')]
        # an empty line is an answer (the program reads line by line): only the empty lines at the very end are not
        while ans and ans [-1] == '':
            ans.pop ()
        self.ans = ans
        self.pos = 0
        self.log = []
    def nxt (self, prompt):
        if self.pos >= len (self.ans):
            raise Read_Error ('missing answer for: ' + prompt)
        v = self.ans [self.pos]
        self.pos += 1
        self.log.append ((prompt, v))
        return v
    def floats (self, prompt, n = None):
        v = self.nxt (prompt)
        try:
            f = [float (x) for x in v.split (',')]
        except ValueError:
            raise Read_Error ('%s: %r is not a list of numbers' % (prompt, v))
        if n is not None and len (f) != n:
            raise Read_Error ('%s: %d values expected, got %r' % (prompt, n, v))
        return f
    def integer (self, prompt):
        v = self.nxt (prompt)
        try:
            f = float (v)
        except ValueError:
            raise Read_Error ('%s: %r is not a number' % (prompt, v))
        if f != int (f):
            raise Read_Error ('%s: %r is not an integer' % (prompt, v))
        return int (f)
    def yn (self, prompt):
        v = self.nxt (prompt).upper ()
        if v not in ('Y', 'N'):
            raise Read_Error ('%s: %r is not Y/N' % (prompt, v))
        return v == 'Y'
    def leftover (self):
        return self.ans [self.pos:]
# end class Stream

def read (text, version = '9'):
    """ returns dict (model, wires, sources, loads, commands, log) """
    MM = common.repo ()
    s  = Stream (text)
    dev = s.nxt ('OUTPUT TO CONSOLE, PRINTER, OR DISK (C/P/D)').upper ()
    if dev not in ('C', 'P', 'D'):
        raise Read_Error ('output device %r' % dev)
    if dev == 'D':
        s.nxt ('FILENAME (NAME.OUT)')
    f   = s.floats ('FREQUENCY (MHZ)', 1) [0]
    env = s.integer ('ENVIRONMENT (+1 FOR FREE SPACE, -1 FOR GROUND PLANE)')
    if env not in (1, -1):
        raise Read_Error ('environment %r' % env)
    media = None
    if env == -1:
        nm = s.integer ('NUMBER OF MEDIA (0 FOR PERFECTLY CONDUCTING GROUND)')
        if nm < 0:
            raise Read_Error ('number of media %d' % nm)
        if nm == 0:
            media = [MM.Medium (0, 0)]
        else:
            media = []
            boundary = 'linear'
            if nm > 1:
                tb = s.integer ('TYPE OF BOUNDARY (1-LINEAR, 2-CIRCULAR)')
                if tb not in (1, 2):
                    raise Read_Error ('type of boundary %r' % tb)
                boundary = 'circular' if tb == 2 else 'linear'
            for i in range (nm):
                eps, sig = s.floats ('RELATIVE DIELECTRIC CONSTANT, CONDUCTIVITY', 2)
                d = dict (boundary = boundary)
                h = 0
                if i == 0:
                    if nm > 1 and boundary == 'circular':
                        nr = s.integer ('NUMBER OF RADIAL WIRES IN GROUND SCREEN')
                        if nr:
                            d.update (nradials = nr, radius = s.floats ('RADIUS OF RADIAL WIRES', 1) [0])
                else:
                    h = s.floats ('HEIGHT OF MEDIA', 1) [0]
                if i < nm - 1:
                    d.update (coord = s.floats ('X OR R COORDINATE OF NEXT MEDIA INTERFACE', 1) [0])
                media.append (MM.Medium (eps, sig, h, **d))
    nw = s.integer ('NO. OF WIRES')
    if nw < 1:
        raise Read_Error ('number of wires %d' % nw)
    wires = []
    raw   = []
    for i in range (nw):
        n  = s.integer ('NO. OF SEGMENTS')
        a1 = s.nxt ('END ONE COORDINATES (X,Y,Z)')
        a2 = s.nxt ('END TWO COORDINATES (X,Y,Z)')
        try:
            p1 = [float (x) for x in a1.split (',')]
            p2 = [float (x) for x in a2.split (',')]
        except ValueError:
            raise Read_Error ('wire %d: coordinates %r %r' % (i + 1, a1, a2))
        if len (p1) != 3 or len (p2) != 3:
            raise Read_Error ('wire %d: coordinates %r %r' % (i + 1, a1, a2))
        r  = s.floats ('RADIUS', 1) [0]
        if s.yn ('CHANGE WIRE NO. %d (Y/N)' % (i + 1)):
            raise Read_Error ('wire %d is changed interactively' % (i + 1))
        wires.append (MM.Wire (n, *p1, *p2, r))
        raw.append (dict (n = n, p1 = p1, p2 = p2, r = r))
    if s.yn ('CHANGE GEOMETRY (Y/N)'):
        raise Read_Error ('geometry is changed interactively')
    m  = MM.Mininec (f, wires, media = media)
    ns = s.integer ('NO. OF SOURCES')
    if ns < 1:
        raise Read_Error ('number of sources %d' % ns)
    sources = []
    for i in range (ns):
        p, mag, ph = s.floats ('PULSE NO., VOLTAGE MAGNITUDE, PHASE (DEGREES)', 3)
        if p != int (p) or not 1 <= p <= len (m.pulses):
            raise Read_Error ('source pulse %r' % p)
        m.register_source (MM.Excitation (mag, ph), int (p) - 1)
        sources.append ((int (p), mag, ph))
    nl = s.integer ('NUMBER OF LOADS')
    loads = []
    if nl < 0:
        raise Read_Error ('number of loads %d' % nl)
    if nl:
        is_s = s.yn ('S-PARAMETER (S=jw) IMPEDANCE LOAD (Y/N)')
        for i in range (nl):
            if is_s:
                p, order = s.floats ('PULSE NO., ORDER OF S-PARAMETER FUNCTION', 2)
                a, b = [], []
                for d in range (int (order) + 1):
                    num, den = s.floats ('NUMERATOR, DENOMINATOR COEFFICIENTS OF S^%d' % d, 2)
                    fct = 10.0 ** (6 * d) if version == '9' else 1.0
                    b.append (num / fct)
                    a.append (den / fct)
                ld = MM.Laplace_Load (a = a, b = b)
            else:
                p, re, im = s.floats ('PULSE NO.,RESISTANCE,REACTANCE', 3)
                ld = MM.Impedance_Load (complex (re, im))
            if p != int (p) or not 1 <= p <= len (m.pulses):
                raise Read_Error ('load pulse %r' % p)
            m.register_load (ld, int (p) - 1)
            loads.append (int (p))
    commands = []
    while True:
        c = s.nxt ('command (C / P / N / Q)').upper ()
        if c == 'Q':
            break
        commands.append (c)
        if c == 'C':
            if s.yn ('SAVE CURRENTS TO A FILE (Y/N)'):
                s.nxt ('FILENAME')
        elif c == 'P':
            dv = s.nxt ('CALCULATE PATTERN IN DBI OR VOLTS/METER (D/V)').upper ()
            if dv not in ('D', 'V'):
                raise Read_Error ('pattern unit %r' % dv)
            if dv == 'V':
                while s.yn ('CHANGE POWER LEVEL (Y/N)'):
                    s.floats ('NEW POWER LEVEL (WATTS)', 1)
                s.floats ('RADIAL DISTANCE (METERS)', 1)
            s.floats ('ZENITH ANGLE : INITIAL,INCREMENT,NUMBER', 3)
            s.floats ('AZIMUTH ANGLE: INITIAL,INCREMENT,NUMBER', 3)
            if s.yn ('FILE PATTERN (Y/N)'):
                s.nxt ('FILENAME')
        elif c == 'N':
            eh = s.nxt ('ELECTRIC OR MAGNETIC NEAR FIELDS (E/H)').upper ()
            if eh not in ('E', 'H'):
                raise Read_Error ('near field kind %r' % eh)
            for ax in 'XYZ':
                s.floats ('%s-COORDINATE (M): INITIAL,INCREMENT,NUMBER' % ax, 3)
            while s.yn ('CHANGE POWER LEVEL (Y/N)'):
                s.floats ('NEW POWER LEVEL (WATTS)', 1)
            if s.yn ('SAVE TO A FILE (Y/N)'):
                s.nxt ('FILENAME')
        else:
            raise Read_Error ('unknown command %r' % c)
    left = s.leftover ()
    if left:
        raise Read_Error ('leftover answers after Q: %r' % left [:3])
    return dict (model = m, wires = raw, sources = sources, loads = loads, commands = commands, f = f, log = s.log)
# end def read
