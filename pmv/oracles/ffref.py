""" Far-field reference (DESIGN 1.5): radiation integral of the solved
    pulse currents from pulse points, far ends and currents only.

      N (rhat) = sum_n I_n sum_halves l_h tau_h F_h (rhat)
      F_h = exp (jk rhat . x_n)                         (point rule: MININEC places the moment at the pulse point)
      F_h = exp (jk rhat . c_h) sinc (k rhat . tau_h l_h / 2)   (exact integral over the straight half-segment)
      E_theta = -j k G0 N . theta_hat / r,  E_phi = -j k G0 N . phi_hat / r,   G0 = eta / 4 pi = 29.979221

    Over ideal ground every real half-segment (z >= 0) gets its image
    (position mirrored, moment mirrored with J_img = -diag (1, 1, -1) J); the
    image half of a pulse sitting on the ground plane is not a conductor
    of its own and is represented by the image of its real half.
"""
import numpy as np

G0 = 29.979221

def halves (m):
    """ list of (current, start, end, tau, collinear flag) of every real
        half-segment of the model: from the pulse point to the middle of
        the segment towards each far end
    """
    out = []
    for p, I in zip (m.pulses, m.current):
        P  = np.asarray (p.point, float)
        e0 = np.asarray (p.ends [0], float)
        e1 = np.asarray (p.ends [1], float)
        d0 = (P - e0) / np.linalg.norm (P - e0)
        d1 = (e1 - P) / np.linalg.norm (e1 - P)
        straight = bool (np.linalg.norm (d0 - d1) < 1e-9)
        for k, (e, tau) in enumerate (((e0, d0), (e1, d1))):
            if p.ground [k]:
                continue     # the image half of a ground pulse
            h = (P + e) / 2
            out.append (dict (I = complex (I), P = P, a = P, b = h, tau = tau, l = np.linalg.norm (h - P), straight = straight))
    return out
# end def halves

def unit_vectors (theta_deg, phi_deg):
    th = np.radians (np.asarray (theta_deg, float))
    ph = np.radians (np.asarray (phi_deg, float))
    rh = np.stack ([np.sin (th) * np.cos (ph), np.sin (th) * np.sin (ph), np.cos (th)], -1)
    tv = np.stack ([np.cos (th) * np.cos (ph), np.cos (th) * np.sin (ph), -np.sin (th)], -1)
    pv = np.stack ([-np.sin (ph), np.cos (ph), np.zeros_like (ph)], -1)
    return rh, tv, pv
# end def unit_vectors

def far_field (m, theta_deg, phi_deg, mode = 'point'):
    """ E_theta, E_phi at r = 1 m for arrays of directions (same shape)
        mode: 'point' | 'exact' | 'exact-straight' (exact on pulses whose
        halves are collinear, point rule on bent pulses)
    """
    kw = m.w
    rh, tv, pv = unit_vectors (theta_deg, phi_deg)
    N  = np.zeros (rh.shape, complex)
    mir = np.array ([1, 1, -1.0])
    images = [False] if m.media is None else [False, True]
    for h in halves (m):
        for img in images:
            s  = mir if img else np.ones (3)
            P  = h ['P'] * s
            a  = h ['a'] * s
            b  = h ['b'] * s
            tau = h ['tau'] * s * (-1 if img else 1)
            use_exact = mode == 'exact' or (mode == 'exact-straight' and h ['straight'])
            if use_exact:
                c   = (a + b) / 2
                t   = (b - a) / np.linalg.norm (b - a)
                arg = kw * (rh @ t) * h ['l'] / 2
                F   = np.exp (1j * kw * (rh @ c)) * np.sinc (arg / np.pi)
            else:
                F   = np.exp (1j * kw * (rh @ P))
            N += (h ['I'] * h ['l'] * F) [..., None] * tau
    et = -1j * kw * G0 * (N * tv).sum (-1)
    ep = -1j * kw * G0 * (N * pv).sum (-1)
    return et, ep
# end def far_field
