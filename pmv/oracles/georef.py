""" Independent geometry reference (DESIGN 1.5): segmentation of plain
    wires, arc / helix nodes from the documented formulas, transformation
    of points as documented (rotation about X, then Y, then Z; sort-key
    order; scaling last), junction clusters and ground detection with the
    documented tolerance, expected pulse locations.
    Written from README.rst / option help; shares no code with /repo.
"""
import numpy as np

def wire_nodes (p1, p2, n):
    p1 = np.asarray (p1, float)
    p2 = np.asarray (p2, float)
    return [p1 + (p2 - p1) * (i / n) for i in range (n + 1)]
# end def wire_nodes

def arc_nodes (n, radius, a1, a2):
    """ arc about the Y axis, centre at the origin, angles measured from
        the X axis (left hand about Y): (R cos a, 0, R sin a)
    """
    out = []
    for i in range (n + 1):
        a = np.radians (a1 + (a2 - a1) * i / n)
        out.append (np.array ([radius * np.cos (a), 0.0, radius * np.sin (a)]))
    return out
# end def arc_nodes

def helix_nodes (n, length, turn, rx1, ry1, rx2 = None, ry2 = None):
    """ generalised helix along +Z from z = 0 to |length|; radii taper
        linearly from (rx1, ry1) to (rx2, ry2); one turn per |turn| of
        height; right handed when length * turn > 0; for negative length
        the start point is rotated by 90 degrees (x = -rx sin, y = ry cos)
    """
    rx2 = rx1 if rx2 is None else rx2
    ry2 = ry1 if ry2 is None else ry2
    L   = abs (length)
    s   = np.sign (length * turn)
    out = []
    for i in range (n + 1):
        f  = i / n
        z  = f * L
        rx = rx1 + f * (rx2 - rx1)
        ry = ry1 + f * (ry2 - ry1)
        a  = s * 2 * np.pi * z / abs (turn)
        if length < 0:
            out.append (np.array ([-rx * np.sin (a), ry * np.cos (a), z]))
        else:
            out.append (np.array ([rx * np.cos (a), ry * np.sin (a), z]))
    return out
# end def helix_nodes

def rot_xyz (angles_deg):
    """ rotation about X, then Y, then Z (angles in degrees) """
    ax, ay, az = np.radians (angles_deg)
    Rx = np.array ([[1, 0, 0], [0, np.cos (ax), -np.sin (ax)], [0, np.sin (ax), np.cos (ax)]])
    Ry = np.array ([[np.cos (ay), 0, np.sin (ay)], [0, 1, 0], [-np.sin (ay), 0, np.cos (ay)]])
    Rz = np.array ([[np.cos (az), -np.sin (az), 0], [np.sin (az), np.cos (az), 0], [0, 0, 1]])
    return Rz @ Ry @ Rx
# end def rot_xyz

def object_tags (geo):
    """ explicit tags are kept, automatic tags continue after the largest
        explicit tag in order of definition; objects are ordered by tag.
        The command line collects arcs first, then helices, then wires.
        returns list of tags in definition order (arcs, helices, wires)
    """
    order = [g for g in geo if g ['k'] == 'a'] + [g for g in geo if g ['k'] == 'h'] \
          + [g for g in geo if g ['k'] == 'w']
    mx = max ([g ['tag'] for g in order if g.get ('tag') is not None] or [0])
    tags = []
    for g in order:
        if g.get ('tag') is not None:
            tags.append (g ['tag'])
        else:
            mx += 1
            tags.append (mx)
    return order, tags
# end def object_tags

def nodes_of (g):
    if g ['k'] == 'w':
        return wire_nodes (g ['p1'], g ['p2'], g ['n'])
    if g ['k'] == 'a':
        return arc_nodes (g ['n'], g ['radius'], g ['a1'], g ['a2'])
    return helix_nodes (g ['n'], g ['length'], g ['turn'], g ['rx1'], g ['ry1'], g.get ('rx2'), g.get ('ry2'))
# end def nodes_of

def transformed_objects (spec):
    """ list (in tag order) of dict (tag, kind, nodes, r) after applying the
        transformations of the spec as documented: rotations/translations in
        sort-key order on the tagged object or on everything, scaling
        (including the radius) after all of them. Tapered wires: only
        the end nodes are meaningful.
    """
    order, tags = object_tags (spec ['geo'])
    objs = []
    for g, t in zip (order, tags):
        objs.append (dict (tag = t, k = g ['k'], nodes = [np.array (x, float) for x in nodes_of (g)], r = float (g ['r']), g = g))
    tr = sorted (spec.get ('tr') or [], key = lambda x: x [1])
    # python's sort is stable: equal keys keep option order per kind; the
    # program sorts rotations before translations for equal keys (list
    # concatenation order) - generators never use equal keys.
    for kind, key, vec, tag in tr:
        for o in objs:
            if tag is not None and o ['tag'] != tag:
                continue
            if kind == 'rotate':
                R = rot_xyz (vec)
                o ['nodes'] = [R @ x for x in o ['nodes']]
            else:
                o ['nodes'] = [x + np.asarray (vec, float) for x in o ['nodes']]
    for factor, tag in spec.get ('sc') or []:
        for o in objs:
            if tag is not None and o ['tag'] != tag:
                continue
            o ['nodes'] = [x * factor for x in o ['nodes']]
            o ['r'] *= factor
    objs.sort (key = lambda o: o ['tag'])
    return objs
# end def transformed_objects

def clusters (ends, tol):
    """ union-find: ends = list of points; joined when closer than tol """
    par = list (range (len (ends)))
    def find (i):
        while par [i] != i:
            par [i] = par [par [i]]
            i = par [i]
        return i
    for i in range (len (ends)):
        for j in range (i):
            if np.linalg.norm (ends [i] - ends [j]) < tol:
                par [find (i)] = find (j)
    out = {}
    for i in range (len (ends)):
        out.setdefault (find (i), []).append (i)
    return list (out.values ())
# end def clusters
