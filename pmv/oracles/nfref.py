""" Near-field reference (DESIGN 1.5): E = -j omega A - grad Phi and
    H = curl A / mu of the solved pulse currents and their charges,
    evaluated from pulse points, far ends, radii and currents only.

    A from the piecewise-constant pulse currents on the two half-segments
    of every pulse; Phi from the MININEC charge pulses: the current I_n of
    pulse n (flowing ends [0] -> point -> ends [1]) deposits the line charge
    density +I_n / (j omega L0) on the segment ends [0]..point and
    -I_n / (j omega L1) on point..ends [1]. Kernel exp (-jkR) / R with
    R^2 = d^2 + a^2 for thick wires (a > 1e-4 lambda), images over ideal
    ground with J_img = -diag (1, 1, -1) J and opposite charge.
    Quadrature: Gauss-Legendre 48 points on n_sub sub-intervals; the
    caller checks convergence by doubling n_sub.
"""
import numpy as np
from numpy.polynomial.legendre import leggauss

XG, WG = leggauss (48)
ETA = 376.730313

def seg_int_vec (x, s0, s1, a, kw, thick, n_sub):
    """ int K ds' and int grad_x K ds' over the straight segment s0..s1 """
    d  = s1 - s0
    L  = np.linalg.norm (d)
    t  = ((np.arange (n_sub) [:, None] + (XG [None, :] + 1) / 2) / n_sub).ravel ()
    w  = np.tile (WG / 2 / n_sub, n_sub)
    pts = s0 [None, :] + d [None, :] * t [:, None]
    v  = x [None, :] - pts
    R  = np.sqrt ((v * v).sum (1) + (a * a if thick else 0.0))
    ex = np.exp (-1j * kw * R)
    K  = ex / R
    dK = -(1 + 1j * kw * R) * ex / R ** 3
    return (K * w).sum () * L, ((dK * w) [:, None] * v).sum (0) * L
# end def seg_int_vec

def fields (m, x, n_sub = 4):
    """ E, H (complex 3-vectors) at point x for the currents as solved
        (no power scaling)
    """
    kw  = m.w
    srm = m.srm
    x   = np.asarray (x, float)
    om4 = kw * ETA / (4 * np.pi)        # omega mu / 4 pi
    ie4 = ETA / (4 * np.pi * kw)        # 1 / (4 pi omega eps)
    E = np.zeros (3, complex)
    H = np.zeros (3, complex)
    imgs = [1] if m.media is None else [1, -1]
    for p, I in zip (m.pulses, m.current):
        for k in imgs:
            if k < 0 and p.ground.any ():
                continue
            mir = np.array ([1, 1, k], float)
            P  = np.asarray (p.point, float) * mir
            E0 = np.asarray (p.ends [0], float) * mir
            E1 = np.asarray (p.ends [1], float) * mir
            r0, r1 = p.geo [0].r, p.geo [1].r
            a_n = (P + E0) / 2
            b_n = (P + E1) / 2
            for (s0, s1, r) in ((a_n, P, r0), (P, b_n, r1)):
                tau = (s1 - s0) / np.linalg.norm (s1 - s0)
                Ki, gK = seg_int_vec (x, s0, s1, r, kw, r > srm, n_sub)
                E += k * (-1j * om4) * I * tau * Ki
                H += k * I * np.cross (gK, tau) / (4 * np.pi)
            L0 = np.linalg.norm (P - E0)
            L1 = np.linalg.norm (E1 - P)
            for (s0, s1, r, dens) in ((P, E1, r1, -I / L1), (E0, P, r0, I / L0)):
                Ki, gK = seg_int_vec (x, s0, s1, r, kw, r > srm, 2 * n_sub)
                E += k * ie4 / 1j * dens * gK
    return E, H
# end def fields

def vector_potential (m, x, n_sub = 8):
    """ A / mu at point x: (1 / 4 pi) sum I tau int K ds' over all half-segments and images """
    kw  = m.w
    srm = m.srm
    x   = np.asarray (x, float)
    A   = np.zeros (3, complex)
    imgs = [1] if m.media is None else [1, -1]
    for p, I in zip (m.pulses, m.current):
        for k in imgs:
            if k < 0 and p.ground.any ():
                continue
            mir = np.array ([1, 1, k], float)
            P  = np.asarray (p.point, float) * mir
            E0 = np.asarray (p.ends [0], float) * mir
            E1 = np.asarray (p.ends [1], float) * mir
            for (s0, s1, r) in (((P + E0) / 2, P, p.geo [0].r), (P, (P + E1) / 2, p.geo [1].r)):
                tau = (s1 - s0) / np.linalg.norm (s1 - s0)
                Ki, gK = seg_int_vec (x, s0, s1, r, kw, r > srm, n_sub)
                A += k * I * tau * Ki / (4 * np.pi)
    return A
# end def vector_potential

def h_central_difference (m, x, step):
    """ curl of the exact A / mu by central differences over `step` (the
        scheme of MININEC: differences of the vector potential over 0.001
        wavelengths). Used only to *classify* a deviation of the reported H
        from the exact curl: if the reported H equals this value, the
        deviation is the truncation error of that step.
    """
    x = np.asarray (x, float)
    J = np.zeros ((3, 3), complex)
    for j in range (3):
        e = np.zeros (3)
        e [j] = step / 2
        J [:, j] = (vector_potential (m, x + e) - vector_potential (m, x - e)) / step
    return np.array ([J [2, 1] - J [1, 2], J [0, 2] - J [2, 0], J [1, 0] - J [0, 1]])
# end def h_central_difference

def min_distance (m, x):
    """ distance of x from the nearest conductor (images included) in
        units of the longest segment
    """
    x = np.asarray (x, float)
    best = np.inf
    lmax = 0.0
    for g in m.geo:
        for s in g.segments:
            a = np.asarray (s.p1, float)
            b = np.asarray (s.p2, float)
            lmax = max (lmax, np.linalg.norm (b - a))
            for mir in ([1, 1, 1],) if m.media is None else ([1, 1, 1], [1, 1, -1]):
                a2, b2 = a * mir, b * mir
                d = b2 - a2
                t = np.clip ((x - a2) @ d / (d @ d), 0, 1)
                best = min (best, np.linalg.norm (x - (a2 + t * d)))
    return best / lmax
# end def min_distance

def e_parts (m, x, n_sub = 8):
    """ (E_A, Psi) at x: the vector-potential part -j omega A of E and the scalar Psi = -Phi whose gradient is
        the charge part of E, so that E = E_A + grad Psi (same sums as fields ()) """
    kw  = m.w
    srm = m.srm
    x   = np.asarray (x, float)
    om4 = kw * ETA / (4 * np.pi)
    ie4 = ETA / (4 * np.pi * kw)
    EA  = np.zeros (3, complex)
    Psi = 0j
    imgs = [1] if m.media is None else [1, -1]
    for p, I in zip (m.pulses, m.current):
        for k in imgs:
            if k < 0 and p.ground.any ():
                continue
            mir = np.array ([1, 1, k], float)
            P  = np.asarray (p.point, float) * mir
            E0 = np.asarray (p.ends [0], float) * mir
            E1 = np.asarray (p.ends [1], float) * mir
            r0, r1 = p.geo [0].r, p.geo [1].r
            for (s0, s1, r) in (((P + E0) / 2, P, r0), (P, (P + E1) / 2, r1)):
                tau = (s1 - s0) / np.linalg.norm (s1 - s0)
                Ki, gK = seg_int_vec (x, s0, s1, r, kw, r > srm, n_sub)
                EA += k * (-1j * om4) * I * tau * Ki
            L0 = np.linalg.norm (P - E0)
            L1 = np.linalg.norm (E1 - P)
            for (s0, s1, r, dens) in ((P, E1, r1, -I / L1), (E0, P, r0, I / L0)):
                Ki, gK = seg_int_vec (x, s0, s1, r, kw, r > srm, 2 * n_sub)
                Psi += k * ie4 / 1j * dens * Ki
    return EA, Psi
# end def e_parts

def e_virtual_dipole (m, x, half):
    """ E as MININEC forms it: the voltage across a virtual dipole from x - half to x + half along each axis
        (vector potential at the centre, scalar potential at the two ends) over its length. Used only to
        *classify* a deviation of the reported E from the exact field. """
    x  = np.asarray (x, float)
    EA, _ = e_parts (m, x)
    E  = np.array (EA)
    for i in range (3):
        e = np.zeros (3)
        e [i] = half
        E [i] += (e_parts (m, x + e) [1] - e_parts (m, x - e) [1]) / (2 * half)
    return E
# end def e_virtual_dipole
