""" Reference pulse geometry: for every pulse of the built model (same
    numbering) the point, the two far ends, the radii of the two halves
    and whether it sits on the ground plane - derived from the *spec*
    through the independent geometry reference (own segmentation, own
    arc / helix nodes, own transformations), not from the code's Pulse
    objects. What is taken from the code: which two objects a pulse joins
    (their tags) and its position (to find the node) - both are decided
    by C12 / C17 - and, for tapered wires only, the segment nodes (the
    taper rules are C13's).
"""
import numpy as np
from pmv.oracles import georef

class Mismatch (Exception):
    pass

def equivalent_radius (spec, tag, a):
    """ documented radius of an insulated wire (README, Insulated Wires):
        a_e = b (a / b) ** (1 / eps_r), b = radius including the insulation
        (given in the units of the final geometry); the last request for
        an object counts.
    """
    for l in spec.get ('loads') or []:
        if l ['k'] == 'ins' and (l.get ('tag') is None or l ['tag'] == tag):
            b = float (l ['radius'])
            a = b * (a / b) ** (1.0 / float (l ['eps']))
    return a
# end def equivalent_radius

def object_nodes (spec, m):
    objs = georef.transformed_objects (spec)
    by_tag = {g.tag: g for g in m.geo}
    out = {}
    for o in objs:
        g = o ['g']
        nodes = [np.asarray (x, float) for x in o ['nodes']]
        code  = by_tag.get (o ['tag'])
        if code is None:
            raise Mismatch ('object with tag %s missing' % o ['tag'])
        if g ['k'] == 'w' and g.get ('taper') and getattr (code, 'segtype', 0) != 0:
            nodes = [np.asarray (code.segments [0].p1, float)] + [np.asarray (s.p2, float) for s in code.segments]
        if len (nodes) != len (code.segments) + 1:
            raise Mismatch ('object %s: %d segments, reference has %d' % (o ['tag'], len (code.segments), len (nodes) - 1))
        out [o ['tag']] = dict (nodes = nodes, r = equivalent_radius (spec, o ['tag'], o ['r']), g = g)
    return out
# end def object_nodes

def reference_pulses (spec, m):
    """ list (indexed like m.pulses) of dict (point, ends, r, gnd) """
    objs   = object_nodes (spec, m)
    ground = m.media is not None
    L      = min (np.linalg.norm (b - a) for o in objs.values () for a, b in zip (o ['nodes'][:-1], o ['nodes'][1:]))
    tol    = 1.05e-3 * L
    mirror = np.array ([1, 1, -1.0])
    if ground:
        # documented ground detection: ends within 1e-3 of the shortest segment of z = 0 lie on it
        for o in objs.values ():
            for k in (0, -1):
                if o ['g']['k'] == 'w' and abs (o ['nodes'][k][2]) < 1e-3 * L:
                    q = o ['nodes'][k].copy ()
                    q [2] = 0.0
                    o ['nodes'][k] = q
                    if not o ['g'].get ('taper'):
                        o ['nodes'] = georef.wire_nodes (o ['nodes'][0], o ['nodes'][-1], o ['g']['n'])
    out = []
    for p in m.pulses:
        P  = np.asarray (p.point, float)
        tA, tB = p.geo [0].tag, p.geo [1].tag
        A, B = objs [tA], objs [tB]
        def end_at (o):
            hits = [e for e, k in ((0, 0), (1, -1)) if np.linalg.norm (o ['nodes'][k] - P) <= tol]
            return hits
        if tA == tB:
            nd = A ['nodes']
            k  = [i for i in range (1, len (nd) - 1) if np.linalg.norm (nd [i] - P) <= tol]
            if k:
                i = k [0]
                out.append (dict (point = nd [i], ends = [nd [i - 1], nd [i + 1]], r = [A ['r'], A ['r']], gnd = False, kind = 'I'))
                continue
            ea = end_at (A)
            if len (ea) == 2:
                out.append (dict (point = nd [-1], ends = [nd [-2], nd [1]], r = [A ['r'], A ['r']], gnd = False, kind = 'L'))
                continue
            if len (ea) == 1 and ground and abs (P [2]) <= tol:
                if ea [0] == 0:
                    out.append (dict (point = nd [0], ends = [nd [1] * mirror, nd [1]], r = [A ['r'], A ['r']], gnd = True, kind = 'G0'))
                else:
                    out.append (dict (point = nd [-1], ends = [nd [-2], nd [-2] * mirror], r = [A ['r'], A ['r']], gnd = True, kind = 'G1'))
                continue
            raise Mismatch ('pulse %d at %s: no node of object %s there' % (p.idx + 1, P, tA))
        ea, eb = end_at (A), end_at (B)
        if len (ea) != 1 or len (eb) != 1:
            raise Mismatch ('pulse %d at %s joins objects %s and %s which do not both end there' % (p.idx + 1, P, tA, tB))
        adjA = A ['nodes'][1] if ea [0] == 0 else A ['nodes'][-2]
        adjB = B ['nodes'][1] if eb [0] == 0 else B ['nodes'][-2]
        # the pulse point is the end of the object owning the pulse: the later one
        own  = B if tB > tA else A
        pt   = own ['nodes'][0] if (eb if own is B else ea) [0] == 0 else own ['nodes'][-1]
        out.append (dict ( point = pt, ends = [adjA, adjB], r = [A ['r'], B ['r']], gnd = False
                         , kind = 'J%d%d' % (ea [0] + 1, eb [0] + 1)))
    return out, tol
# end def reference_pulses

def compare_with_code (m, ref, tol):
    """ deviations between the code's Pulse geometry and the reference """
    bad = []
    for p, r in zip (m.pulses, ref):
        d = [ np.linalg.norm (np.asarray (p.point, float) - r ['point'])
            , np.linalg.norm (np.asarray (p.ends [0], float) - r ['ends'][0])
            , np.linalg.norm (np.asarray (p.ends [1], float) - r ['ends'][1])]
        if max (d) > 2.1 * tol:
            bad.append ('pulse %d (%s): point/end1/end2 off by %.3g / %.3g / %.3g tolerances' % (p.idx + 1, r ['kind'], d [0] / tol, d [1] / tol, d [2] / tol))
        rr = [p.geo [0].r, p.geo [1].r]
        if abs (rr [0] - r ['r'][0]) > 1e-9 * r ['r'][0] or abs (rr [1] - r ['r'][1]) > 1e-9 * r ['r'][1]:
            bad.append ('pulse %d (%s): radii %r, reference %r' % (p.idx + 1, r ['kind'], rr, r ['r']))
        if bool (p.ground.any ()) != r ['gnd']:
            bad.append ('pulse %d (%s): ground flag %r' % (p.idx + 1, r ['kind'], p.ground))
    return bad
# end def compare_with_code
