""" Reader of the MININEC-style report text (offline checker side of
    C07, C09, C12, C17, C19). Keyed on the fixed block headers of the
    original program; knows nothing about the code that wrote the text.
    Every numeric token is kept as the raw string (tok) so that C19 can
    decide by token kind; num () converts.
"""
import re

class Report_Error (Exception):
    pass

def num (tok):
    t = tok.strip ()
    if t in ('', '-'):
        raise Report_Error ('not a number: %r' % tok)
    return float (t)
# end def num

STAR = re.compile (r'^\*{20}(.*?)\*{20}$')

def parse (text, sweep = False):
    lines = text.split ('\n')
    r = dict ( objects = [], geometry = [], sources_short = [], loads = []
             , source_data = [], currents = [], far = None, far_abs = None
             , near_e = [], near_h = [], media = [], leftovers = [], blocks = []
             , near_hdr = []
             )
    i = 0
    n = len (lines)
    def peek ():
        return lines [i] if i < n else None
    state = None
    cur   = None
    while i < n:
        ln = lines [i]
        s  = ln.strip ()
        i += 1
        if not s:
            continue
        m = STAR.match (s)
        if m:
            title = m.group (1).strip ()
            if set (title) <= set ('*'):
                continue    # header frame
            r ['blocks'].append (title)
            if title == 'SOURCE DATA':
                state = 'srcdata'
            elif title == 'CURRENT DATA':
                state = 'currents'
            elif title == 'FAR FIELD':
                state = 'farhdr'
                ff = dict (rows = [], zen = None, azi = None, kind = None)
                cur = ff
            elif title == 'PATTERN DATA':
                state = 'pattern'
            elif title == 'NEAR FIELDS':
                state = 'nearhdr'
                r ['near_hdr'].append ({})
            elif title in ('NEAR ELECTRIC FIELDS', 'NEAR MAGNETIC FIELDS'):
                state = 'nearpt'
                cur = dict (comps = [], point = None, peak = None)
                (r ['near_e'] if 'ELECTRIC' in title else r ['near_h']).append (cur)
            else:
                r ['leftovers'].append (ln)
            continue
        if s.startswith ('MINI-NUMERICAL') or s == 'MININEC':
            continue
        if s.startswith ('FREQUENCY (MHZ):'):
            r ['freq'] = s.split (':') [1].strip ()
            continue
        if s.startswith ('WAVE LENGTH ='):
            r ['wavelen'] = s.split ('=') [1].replace ('METERS', '').strip ()
            continue
        if s.startswith ('ENVIRONMENT ('):
            r ['env'] = s.split (':') [1].strip ()
            state = 'env'
            continue
        if s.startswith ('NUMBER OF MEDIA'):
            r ['nmedia'] = s.split (':') [1].strip ()
            continue
        if s.startswith ('TYPE OF BOUNDARY'):
            r ['boundary'] = s.split (':') [1].strip ()
            continue
        if s.startswith ('RELATIVE DIELECTRIC CONSTANT, CONDUCTIVITY:'):
            a, b = s.split (':') [1].split (',')
            r ['media'].append (dict (eps = a.strip (), sigma = b.strip ()))
            continue
        if s.startswith ('NUMBER OF RADIAL WIRES IN GROUND SCREEN:'):
            r ['media'][-1]['nradials'] = s.split (':') [1].strip ()
            continue
        if s.startswith ('RADIUS OF RADIAL WIRES:'):
            r ['media'][-1]['radius'] = s.split (':') [1].strip ()
            continue
        if s.startswith ('X OR R COORDINATE OF NEXT MEDIA INTERFACE:'):
            r ['media'][-1]['coord'] = s.split (':') [1].strip ()
            continue
        if s.startswith ('HEIGHT OF MEDIA:'):
            r ['media'][-1]['height'] = s.split (':') [1].strip ()
            continue
        if s.startswith ('NO. OF GEO-OBJECTS:'):
            r ['nobjects'] = s.split (':') [1].strip ()
            state = 'objects'
            continue
        if s.startswith ('**** ANTENNA GEOMETRY ****'):
            state = 'geometry'
            continue
        if s.startswith ('NO. OF SOURCES :'):
            r ['nsources'] = s.split (':') [1].strip ()
            state = 'sources'
            continue
        if s.startswith ('NUMBER OF LOADS'):
            r ['nloads'] = s.replace ('NUMBER OF LOADS', '').strip ()
            state = 'loads'
            continue
        mo = re.match (r'^(WIRE|ARC|HELIX) NO\.\s*(\d+)\s*(.*)$', s)
        if mo:
            name, tag, rest = mo.group (1), mo.group (2), mo.group (3).strip ()
            if state == 'objects':
                cur = dict (name = name, tag = tag, lines = [])
                r ['objects'].append (cur)
            elif state == 'geometry':
                cur = dict (name = name, tag = tag, rows = [], empty = False)
                r ['geometry'].append (cur)
            elif state == 'currents':
                cur = dict (name = name, tag = tag, rows = [])
                r ['currents'].append (cur)
            else:
                r ['leftovers'].append (ln)
            continue
        if state == 'objects':
            if s.startswith ('COORDINATES') or s.startswith ('X  ') or s.startswith ('X '):
                continue
            t = s.split ()
            if cur is None:
                r ['leftovers'].append (ln)
                continue
            cur ['lines'].append (t)
            if len (cur ['lines']) == 2:
                a, b = cur ['lines']
                if len (a) != 4 or len (b) != 6:
                    r ['leftovers'].append (ln)
                else:
                    cur.update (p1 = a [:3], ltag = a [3], p2 = b [:3], r = b [3], rtag = b [4], nseg = b [5])
            continue
        if state == 'geometry':
            if s.startswith ('X ') and 'RADIUS' in s:
                continue
            t = s.split ()
            if len (t) == 7 and t [0] == '-':
                cur ['empty'] = True
                continue
            if len (t) != 7 or cur is None:
                r ['leftovers'].append (ln)
                continue
            cur ['rows'].append (dict (x = t [0], y = t [1], z = t [2], r = t [3], e1 = t [4], e2 = t [5], no = t [6]))
            continue
        if state == 'sources':
            if s.startswith ('PULSE NO., VOLTAGE MAGNITUDE, PHASE (DEGREES):'):
                t = [x.strip () for x in s.split (':', 1) [1].split (',')]
                if len (t) != 3:
                    r ['leftovers'].append (ln)
                else:
                    r ['sources_short'].append (dict (pulse = t [0], mag = t [1], phase = t [2]))
            else:
                r ['leftovers'].append (ln)
            continue
        if state == 'loads':
            if s.startswith ('PULSE NO.,RESISTANCE,REACTANCE:'):
                t = [x.strip () for x in s.split (':', 1) [1].split (',')]
                r ['loads'].append (dict (kind = 'z', pulse = t [0], r = t [1], x = t [2]))
            elif s.startswith ('PULSE NO., ORDER OF S-PARAMETER FUNCTION:'):
                t = [x.strip () for x in s.split (':', 1) [1].split (',')]
                r ['loads'].append (dict (kind = 's', pulse = t [0], order = t [1], coeff = []))
            elif s.startswith ('NUMERATOR, DENOMINATOR COEFFICIENTS OF S^'):
                t = [x.strip () for x in s.split (':', 1) [1].split (',')]
                r ['loads'][-1]['coeff'].append ((t [0], t [1]))
            else:
                r ['leftovers'].append (ln)
            continue
        if state == 'srcdata':
            mo = re.match (r'^PULSE\s+(\d+)\s+VOLTAGE = \(\s*(\S+)\s*,\s*(\S+)\s*J\)$', s)
            if mo:
                r ['source_data'].append (dict (pulse = mo.group (1), v = (mo.group (2), mo.group (3))))
                continue
            mo = re.match (r'^(CURRENT|IMPEDANCE) = \(\s*(\S+)\s*,\s*(\S+)\s*J\)$', s)
            if mo and r ['source_data']:
                r ['source_data'][-1]['i' if mo.group (1) == 'CURRENT' else 'z'] = (mo.group (2), mo.group (3))
                continue
            mo = re.match (r'^POWER =\s*(\S+)\s+WATTS$', s)
            if mo and r ['source_data']:
                r ['source_data'][-1]['p'] = mo.group (1)
                continue
            r ['leftovers'].append (ln)
            continue
        if state == 'currents':
            if s.startswith ('PULSE ') or s.startswith ('NO. '):
                continue
            t = s.split ()
            if cur is None or len (t) != 5:
                r ['leftovers'].append (ln)
                continue
            kind = t [0] if t [0] in ('E', 'J') else 'P'
            cur ['rows'].append (dict (kind = kind, no = t [0], re = t [1], im = t [2], mag = t [3], ph = t [4]))
            continue
        if state == 'farhdr':
            if s.startswith ('NEW POWER LEVEL ='):
                cur ['new_power'] = s.split ('=') [1].strip ()
            elif s.startswith ('ZENITH ANGLE : INITIAL,INCREMENT,NUMBER:'):
                cur ['zen'] = [x.strip () for x in s.split (':', 2) [2].split (',')]
            elif s.startswith ('AZIMUTH ANGLE: INITIAL,INCREMENT,NUMBER:'):
                cur ['azi'] = [x.strip () for x in s.split (':', 2) [2].split (',')]
            else:
                r ['leftovers'].append (ln)
            continue
        if state == 'pattern':
            if s.startswith ('RADIAL DISTANCE ='):
                cur ['dist'] = s.split ('=') [1].replace ('METERS', '').strip ()
                cur ['kind'] = 'abs'
                continue
            if s.startswith ('POWER LEVEL ='):
                cur ['power'] = s.split ('=') [1].replace ('WATTS', '').strip ()
                continue
            if s.startswith ('ZENITH') or s.startswith ('ANGLE'):
                if 'E(THETA)' in s:
                    cur ['kind'] = 'abs'
                elif 'VERTICAL' in s:
                    cur ['kind'] = 'db'
                continue
            t = s.split ()
            if cur ['kind'] == 'db' and len (t) == 5:
                cur ['rows'].append (t)
                r ['far'] = cur
            elif cur ['kind'] == 'abs' and len (t) == 6:
                cur ['rows'].append (t)
                r ['far_abs'] = cur
            else:
                r ['leftovers'].append (ln)
            continue
        if state == 'nearhdr':
            mo = re.match (r'^([XYZ])-COORDINATE \(M\): INITIAL,INCREMENT,NUMBER :\s*(.*)$', s)
            if mo:
                r ['near_hdr'][-1][mo.group (1)] = [x.strip () for x in mo.group (2).split (',')]
                continue
            if s.startswith ('NEW POWER LEVEL (WATTS) ='):
                r ['near_hdr'][-1]['power'] = s.split ('=') [1].strip ()
                continue
            r ['leftovers'].append (ln)
            continue
        if state == 'nearpt':
            mo = re.match (r'^FIELD POINT: X =\s*(\S+)\s+Y =\s*(\S+)\s+Z =\s*(\S+)$', s)
            if mo:
                cur ['point'] = [mo.group (1), mo.group (2), mo.group (3)]
                continue
            if s.startswith ('VECTOR') or s.startswith ('COMPONENT'):
                continue
            mo = re.match (r'^MAXIMUM OR PEAK FIELD =\s*(\S+)\s+(V/M|AMPS/M)$', s)
            if mo:
                cur ['peak'] = mo.group (1)
                continue
            t = s.split ()
            if len (t) == 5 and t [0] in 'XYZ':
                cur ['comps'].append (dict (axis = t [0], re = t [1], im = t [2], mag = t [3], ph = t [4]))
                continue
            r ['leftovers'].append (ln)
            continue
        r ['leftovers'].append (ln)
    return r
# end def parse
