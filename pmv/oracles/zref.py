""" Reference evaluation of the MININEC-3 impedance-matrix entry from
    nothing but pulse geometry, radii and frequency (DESIGN 1.5):

      Z_mn = k^2 (b_m - a_m) . [tau0 int_{a_n}^{P} K ds' + tau1 int_{P}^{b_n} K ds']
             + [Phi1 (a_m) - Phi1 (b_m)] / |E1 - P| + [Phi0 (b_m) - Phi0 (a_m)] / |P - E0|
      Phi1 (x) = int_{P}^{E1} K (x, s') ds',  Phi0 (x) = int_{E0}^{P} K (x, s') ds'
      K (R) = exp (-j k R) / R,  R^2 = |x - s'|^2 + a^2  (a > 1e-4 lambda)  or  |x - s'|^2

    minus the same for the z-mirrored source pulse over a ground plane
    unless the source pulse sits on the ground plane itself.
    Quadrature: Gauss-Legendre with a refinement self-check (32 points on
    2 sub-intervals vs 32 on 4); scipy's adaptive quad as fall-back.
"""
import numpy as np
from numpy.polynomial.legendre import leggauss

XG, WG = leggauss (32)

def _gl (x, s0, s1, a2, kw, nsub):
    """ int_{s0}^{s1} exp (-jkR) / R ds'  with nsub sub-intervals """
    d   = s1 - s0
    L   = np.linalg.norm (d)
    tot = 0j
    for q in range (nsub):
        t = (q + (XG + 1) / 2) / nsub
        w = WG / 2 / nsub
        pts = s0 [None, :] + d [None, :] * t [:, None]
        v   = x [None, :] - pts
        R   = np.sqrt ((v * v).sum (1) + a2)
        tot += (np.exp (-1j * kw * R) / R * w).sum ()
    return tot * L
# end def _gl

def seg_int (x, s0, s1, a, kw, thick):
    a2 = a * a if thick else 0.0
    v1 = _gl (x, s0, s1, a2, kw, 2)
    v2 = _gl (x, s0, s1, a2, kw, 4)
    if abs (v1 - v2) <= 1e-9 * abs (v2):
        return v2, True
    from scipy.integrate import quad
    d = s1 - s0
    L = np.linalg.norm (d)
    def R (t):
        v = s0 + d * t - x
        return np.sqrt (v @ v + a2)
    re, e1 = quad (lambda t: np.cos (kw * R (t)) / R (t), 0, 1, epsabs = 0, epsrel = 1e-10, limit = 200)
    im, e2 = quad (lambda t: -np.sin (kw * R (t)) / R (t), 0, 1, epsabs = 0, epsrel = 1e-10, limit = 200)
    ok = (e1 <= 1e-7 * abs (re) + 1e-300) and (e2 <= 1e-7 * abs (im) + 1e-300)
    return (re + 1j * im) * L, ok
# end def seg_int

def entry (pm, pn, kw, srm, image = False):
    """ pm, pn: dict (point, ends [2], r [2]); unit current of pn flows
        ends [0] -> point -> ends [1]. returns (value, scale, converged)
    """
    mir = np.array ([1, 1, -1.0]) if image else np.ones (3)
    P   = pn ['point'] * mir
    E0  = pn ['ends'][0] * mir
    E1  = pn ['ends'][1] * mir
    a_n = (P + E0) / 2
    b_n = (P + E1) / 2
    xm  = pm ['point']
    am  = (xm + pm ['ends'][0]) / 2
    bm  = (xm + pm ['ends'][1]) / 2
    r0, r1 = pn ['r']
    th0, th1 = r0 > srm, r1 > srm
    t0 = (P - a_n) / np.linalg.norm (P - a_n)
    t1 = (b_n - P) / np.linalg.norm (b_n - P)
    ok = True
    psi0, c = seg_int (xm, a_n, P, r0, kw, th0); ok &= c
    psi1, c = seg_int (xm, P, b_n, r1, kw, th1); ok &= c
    A  = psi0 * t0 + psi1 * t1
    vt = kw ** 2 * ((bm - am) @ A)
    L0 = np.linalg.norm (P - E0)
    L1 = np.linalg.norm (E1 - P)
    Fp_a, c = seg_int (am, P, E1, r1, kw, th1); ok &= c
    Fp_b, c = seg_int (bm, P, E1, r1, kw, th1); ok &= c
    Fm_a, c = seg_int (am, E0, P, r0, kw, th0); ok &= c
    Fm_b, c = seg_int (bm, E0, P, r0, kw, th0); ok &= c
    st = (Fp_a - Fp_b) / L1 + (Fm_b - Fm_a) / L0
    scale = kw ** 2 * np.linalg.norm (bm - am) * (abs (psi0) + abs (psi1)) \
          + (abs (Fp_a) + abs (Fp_b)) / L1 + (abs (Fm_a) + abs (Fm_b)) / L0
    sgn = -1 if image else 1
    return sgn * (vt + st), scale, bool (ok)
# end def entry

def zref_entry (pm, pn, kw, srm, ground):
    """ full entry incl. image term; pn ['gnd'] marks a source pulse on the ground plane """
    v, s, ok = entry (pm, pn, kw, srm)
    if ground and not pn ['gnd']:
        v2, s2, ok2 = entry (pm, pn, kw, srm, image = True)
        v  += v2
        s  += s2
        ok  = ok and ok2
    return v, s, ok
# end def zref_entry
