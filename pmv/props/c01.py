""" C01 - power balance: source power = load dissipation + integrated
    far-field gain (within 1.5 % of the apparent source power); over real
    ground radiated + dissipated never exceeds delivered by more than that.
    Independent power bookkeeping over generated structures inside the
    validity filter of the documented thin-wire modelling rules.
"""
import copy
import numpy as np
from pmv import common, gen, observe, corpus
from pmv.oracles import georef

ID   = 'C01'
RULE = ( 'full structure grammar (dipoles, V, L, zig-zag, T, 3- and 4-wire stars, polygons, parasitic arrays, tapered '
         'wires, arcs, helices, all ground families) in arbitrary 3-D rotation (free space) / azimuth (ground), radii '
         'on both sides of 1e-4 lambda, 1..3 complex sources, lumped R / RLC / trap / Laplace and skin-effect loads; '
         'free space, ideal ground, 1..3 real media (linear / circular), radials. Deciding class: validity filter passed '
         '(segments lambda/200..lambda/20, >= 8 radii, adjacent ratio <= 2.1, junction angles >= 40 deg, unconnected wires '
         '>= 2 segments apart, ground rules) and segment lengths within 10 % at junctions of >= 3 wires. The two excluded '
         'bands (lambda/20 < segment <= lambda/10; unequal lengths at >= 3-wire junctions) are sampled, measured and '
         'reported as known findings when they exceed the margin. non-trivial = not (single axis-aligned wire, single '
         '1 V source, no load); distinct = feature signature'
       )
MIN_EVAL = dict (quick = 120, thorough = 2500)
ANCHORS  = ['Excitation.power', 'Mininec.compute', 'Mininec.compute_far_field', 'Mininec.compute_impedance_matrix_loads', 'Medium.impedance']
ANCHORS_REQUIRED = ['Excitation.power', 'Mininec.compute_far_field', 'Mininec.compute_impedance_matrix_loads', 'Medium.impedance']
ANCHORS_MIN = {'Mininec.compute_far_field': 0.9}
ASSUMPTIONS = [ 'sphere integral by the midpoint rule on the reported dBi table (theta step 1.5, phi step 5 degrees); every 8th case re-integrated at half the step, a change > 2e-3 makes that case inconclusive'
              , 'the validity filter is computed geometrically from the built segments; it is part of the oracle\'s soundness'
              ]
MAX_DISCARD = 0.6
CASE_TIMEOUT = 300

def plan (tier, seed):
    n = 520 if tier == 'quick' else 6000
    return [dict (i = i, seed = seed, tier = tier) for i in range (n)] + corpus.plan_cases (seed, tier, 2, 6, skip = corpus.OUTSIDE_RULES)
# end def plan

def curve (rng):
    f, lam, segl, rad = gen.pick_scale (rng, 1 / 80., 1 / 25., thin = bool (rng.random () < 0.2))
    R = gen.rot_matrix (rng)
    if rng.random () < 0.5:
        # open arc (bent dipole) or closed ring
        closed = bool (rng.random () < 0.4)
        n   = int (rng.integers (8, 30))
        ang = 360.0 if closed else float (rng.uniform (90, 300))
        rr  = n * segl / np.radians (ang)
        geo = [dict (k = 'a', n = n, radius = rr, a1 = 0.0, a2 = ang, r = min (rad, segl / 9), tag = 1)]
        fam = 'ring' if closed else 'arc'
    else:
        # helix, pitch >= 3 segment lengths so that turns stay apart
        nt  = float (rng.uniform (1.5, 4))
        per = int (rng.integers (8, 13))
        n   = int (np.ceil (nt * per))
        rr  = segl * per / (2 * np.pi)
        turn = float (rng.uniform (3, 6)) * segl * float (rng.choice ([1, -1]))
        geo = [dict ( k = 'h', n = n, length = abs (turn) * nt * float (rng.choice ([1, -1])), turn = turn
                    , r = min (rad, segl / 12), rx1 = rr, ry1 = rr, tag = 1)]
        fam = 'helix'
    ang = [float (x) for x in rng.uniform (-180, 180, 3)]
    spec = dict ( f = f, geo = geo, fam = fam, media = None, loads = [], tr = [['rotate', 1.0, ang, None]]
                , src = [dict (p = [max (1, geo [0]['n'] // 2)], v = gen.rand_voltage (rng))], feeds = [])
    return spec
# end def curve

def make (c):
    if 'corpus' in c:
        # the repository's hand-made antennas, at the frequency of the file and moved by up to 8 %, other voltages
        spec = corpus.make (c, 1)
        spec ['band'] = 'decide'
        spec ['refine'] = False
        return spec
    rng  = np.random.default_rng ([c ['seed'], 1, c ['i']])
    band = 'decide'
    u    = rng.random ()
    if c.get ('tier') == 'thorough' and u < 0.08:
        band = 'coarse'
    elif c.get ('tier') == 'thorough' and u < 0.16:
        band = 'junction'
    seg_hi = 1 / 20.5 if band != 'coarse' else 1 / 10.5
    seg_lo = 1 / 100. if band != 'coarse' else 1 / 19.5
    env = str (rng.choice (['free', 'free', 'free', 'ideal', 'ideal', 'real1', 'real2', 'real3', 'radials']))
    v   = rng.random ()
    if env == 'free' and v < 0.18 and band == 'decide':
        spec = curve (rng)
    elif env == 'free':
        fam = None
        if c ['i'] % 12 == 5 and band == 'decide':
            fam = 'varray'          # parallel verticals at different places: the pattern is not a figure of revolution
        if c ['i'] % 10 == 7 and band == 'decide':
            fam = str (rng.choice (['vee', 'L', 'zig', 'T']))     # joined wires of different material (below)
        if band == 'junction':
            fam = str (rng.choice (['star3', 'star4', 'T']))
        spec = gen.fam_free (rng, fam = fam, seg_hi = seg_hi, seg_lo = seg_lo, equal_junction = (band != 'junction'))
        gen.add_sources (rng, spec, nmax = 3)
    else:
        med = 'ideal'
        if env == 'real1':
            med = [[float (rng.uniform (2, 80)), float (10 ** rng.uniform (-4, 1)), 0.0]]
        elif env in ('real2', 'real3', 'radials'):
            med = [[float (rng.uniform (2, 30)), float (10 ** rng.uniform (-3, 0)), 0.0, float (10 ** rng.uniform (0, 2.5))]]
            med.append ([float (rng.uniform (2, 80)), float (10 ** rng.uniform (-4, 0)), float (-rng.choice ([0, 0.5, 2]))])
            if env == 'real3':
                med [1].append (med [0][3] * float (rng.uniform (1.5, 10)))
                med.append ([float (rng.uniform (2, 80)), float (10 ** rng.uniform (-4, 0)), float (-rng.choice ([0, 1, 5]))])
        spec = gen.fam_ground (rng, fam = (str (rng.choice (['slope', 'lean', 'slope'])) if rng.random () < 0.25 else None), seg_hi = seg_hi, seg_lo = seg_lo, media = med)
        if env in ('real2', 'real3', 'radials'):
            spec ['boundary'] = 'circular' if env == 'radials' else str (rng.choice (['linear', 'circular']))
        if env == 'radials':
            spec ['radials'] = [int (rng.integers (4, 120)), float (10 ** rng.uniform (-4, -2.5))]
        gen.add_sources (rng, spec, nmax = 3)
    # loads
    loads = []
    if rng.random () < 0.45:
        kind = str (rng.choice (['z', 'rlc', 'trap', 'lap', 'skin', 'skin']))
        where = [['all']] if rng.random () < 0.3 else [[int (rng.integers (1, 4))]]
        if c ['i'] % 4 == 1:
            where = where + [[int (rng.integers (1, 4))]] + where [-1:]       # one load attached several times, twice to one pulse
        if kind == 'z':
            loads.append (dict (k = 'z', z = [float (10 ** rng.uniform (0, 3)), float (rng.uniform (-300, 300))], att = where))
        elif kind == 'rlc':
            loads.append (dict (k = 'rlc', R = float (10 ** rng.uniform (0, 2.5)), L = float (10 ** rng.uniform (-8, -5)), C = (None if rng.random () < 0.5 else float (10 ** rng.uniform (-12, -9))), att = where))
        elif kind == 'trap':
            loads.append (dict (k = 'trap', R = float (10 ** rng.uniform (-1, 1)), L = float (10 ** rng.uniform (-7, -5)), C = float (10 ** rng.uniform (-12, -10)), att = where))
        elif kind == 'lap':
            loads.append (dict (k = 'lap', a = [1.0, float (10 ** rng.uniform (-9, -7))], b = [float (10 ** rng.uniform (0, 2)), float (10 ** rng.uniform (-7, -5))], att = where))
        else:
            # from copper down to resistive wire (the loss is then a sizeable part of the balance)
            loads.append (dict (k = 'skin', cond = float (10 ** rng.uniform (2.5, 7.8)), tag = None))
            if rng.random () < 0.4 and len (spec ['geo']) > 1 and all (g ['k'] == 'w' for g in spec ['geo']):
                # every object of its own material (resistance wire next to copper)
                loads.pop ()
                for i, g in enumerate (spec ['geo']):
                    g ['tag'] = i + 1
                    loads.append (dict (k = 'skin', cond = float (10 ** rng.uniform (2.5, 7.8)), tag = i + 1))
    if c ['i'] % 10 == 7 and band == 'decide' and env == 'free' and spec.get ('fam') in ('vee', 'L', 'zig', 'T') and len (spec ['geo']) > 1:
        # a section of resistance wire joined to copper: the loss of the junction pulse is that of its two halves, each of
        # the material of the wire it lies on (a sizeable part of the balance)
        loads = []
        lossy = int (rng.integers (0, len (spec ['geo'])))
        for i, g in enumerate (spec ['geo']):
            g ['tag'] = i + 1
            loads.append (dict (k = 'skin', cond = float (10 ** rng.uniform (2.3, 3.3)) if i == lossy else 5.8e7, tag = i + 1))
    if spec.get ('media') is not None and rng.random () < 0.35:
        # resistive load in a feed location (for ground families the first feed is the grounded base)
        fd = [x for x in spec.get ('feeds') or [] if abs (x ['at'][2]) < 1e-12]
        if fd:
            loads.append (dict (k = 'z', z = [float (10 ** rng.uniform (0.5, 2.5)), float (rng.uniform (-50, 50))], at = fd [0]['at']))
    # conductors given by their resistivity (the other documented form), and lossy wires that are insulated as well,
    # handed to the classes of the library with the insulation first
    rr = np.random.default_rng ([c ['seed'], 14, c ['i']])
    for l in loads:
        if l ['k'] == 'skin' and rr.random () < 0.4:
            l ['res'] = 1.0 / l.pop ('cond')
    # (thin wires only: above 1e-4 wavelengths the program evaluates an insulated wire with two different radii - known
    # finding stale-i6-insulated-wire - and its books do not balance for that reason)
    lam14 = gen.C_MHZ / spec ['f']
    if c ['i'] % 10 == 3 and all (g ['k'] == 'w' for g in spec ['geo']) and band == 'decide' and not spec.get ('steps'):
        for g in spec ['geo']:
            g ['r'] = float (min (g ['r'], 0.9e-4 * lam14 / 2.6))
        if not any (l ['k'] == 'skin' for l in loads):
            loads = [l for l in loads if 'at' in l] + [dict (k = 'skin', cond = float (10 ** rr.uniform (2.5, 4.5)), tag = None)]
        rmax  = max (g ['r'] for g in spec ['geo'])
        loads = [dict (k = 'ins', radius = float (rmax * rr.uniform (1.5, 2.5)), eps = float (rr.uniform (2, 4)), tag = None)] + loads
        spec ['route'] = 'api'
    spec ['loads'] = loads
    if band == 'decide':
        gen.taper_some (np.random.default_rng ([c ['seed'], 11, c ['i']]), spec, 0.2, min_radii = 8.5)
    # stepped diameters: every wire of its own radius (tube continued by thinner tube or wire), a third of the structures
    rs = np.random.default_rng ([c ['seed'], 13, c ['i']])
    if rs.random () < 0.33 and band == 'decide':
        for g in spec ['geo']:
            if g ['k'] == 'w':
                sl = np.linalg.norm (np.array (g ['p1']) - np.array (g ['p2'])) / g ['n']
                g ['r'] = float (min (g ['r'] * float (rs.choice ([0.3, 0.5, 2.0, 3.0])), sl / 8.5))
        spec ['steps'] = True
    spec ['band'] = band
    spec ['refine'] = bool (c ['i'] % 8 == 0)
    # drive levels of microvolts (input powers down to 1e-15 W): the balance is a ratio
    rl = np.random.default_rng ([c ['seed'], 12, c ['i']])
    if rl.random () < 0.12:
        k = float (10 ** rl.uniform (-7.5, -4.5))
        for s in spec ['src']:
            s ['v'] = [s ['v'][0] * k, s ['v'][1] * k]
    return gen.clean (spec)
# end def make

def integrate (m, step_t, step_p):
    """ (1 / 4 pi) * integral of the linear gain (V, H, total) over the sphere / upper hemisphere """
    MM  = common.repo ()
    tmax = 90.0 if m.media is not None else 180.0
    nt  = int (round (tmax / step_t))
    nph = int (round (360.0 / step_p))
    zen = MM.Angle (step_t / 2, step_t, nt)
    azi = MM.Angle (step_p / 2, step_p, nph)
    # the dBi table must not depend on the power / distance requested for the V/m table
    common.guarded (lambda: m.compute_far_field (zen, azi, pwr = 3.7 * abs (float (m.power)) + 1e-9, dist = 12.0), 'compute_far_field')
    g   = np.asarray (m.far_field.gain)
    lin = np.where (g > -998, 10 ** (g / 10), 0.0)
    th  = np.radians (zen.angle_deg ())
    w   = np.sin (th) * np.radians (step_t) * np.radians (step_p)
    return (lin * w [:, None, None]).sum ((0, 1)) / (4 * np.pi)
# end def integrate

def check (c):
    spec = c if 'geo' in c else make (c)
    m    = gen.build (spec, route = 'api') if spec.get ('route') == 'api' else gen.build (spec)
    ok, why, facts = gen.validity (m, seg_max = 1 / 10., check_junction_ratio = None)
    if not ok:
        return dict (status = 'discard', reason = 'validity: ' + why [0])
    coarse   = facts ['seg_max'] > 1 / 20. * (1 + 1e-9)
    unequal  = facts ['jratio3'] > 1.1
    observe.solve (m)
    I = np.asarray (m.current)
    if not np.isfinite (I).all ():
        return dict (status = 'discard', reason = 'non-finite currents')
    cond = observe.cond_number (m)
    # ---- own bookkeeping
    S = sum (0.5 * abs (s.voltage) * abs (I [s.idx]) for s in m.sources)
    P_src = sum ((0.5 * complex (s.voltage) * np.conj (I [s.idx])).real for s in m.sources)
    P_load = 0.0
    for l in m.loads:
        if l.__class__.__name__ == 'Skin_Effect_Load':
            continue            # conductor loss is booked below from the conductor, not from what the load object reports
        for p in l.pulses:
            z = complex (l.impedance (m.f, p))
            P_load += 0.5 * abs (I [p.idx]) ** 2 * z.real
    # conductor loss of lossy wires: every real half segment with the surface resistance of the wire it lies on
    # (round-wire formula of the README with the conductivity given for that object)
    from pmv.props import c08 as _c08
    sig = {}
    for l in spec.get ('loads') or []:
        if l ['k'] == 'skin':
            s_ = l ['cond'] if 'cond' in l else 1.0 / l ['res']
            for g in m.geo:
                if l.get ('tag') is None or l ['tag'] == g.tag:
                    sig [g.tag] = s_
    if sig:
        for p in m.pulses:
            for k in (0, 1):
                g = p.segs [k].geobj
                if p.ground [k] or g.tag not in sig:
                    continue
                z, ka = _c08.z_int (m.f, g.r_orig, sig [g.tag])
                P_load += 0.5 * abs (I [p.idx]) ** 2 * (z * p.segs [k].seg_len / 2).real
    if P_src <= 0 or S <= 0:
        return dict (status = 'discard', reason = 'sources absorb net power')
    viol = []
    mon  = {}
    if abs (m.power - P_src) > 1e-9 * S:
        viol.append (dict (monitor = 'power', key = 'model-power', msg = 'Mininec.power %r, sum 1/2 Re (V I*) = %r' % (m.power, P_src)))
    eff = integrate (m, 1.5, 5.0)
    mon ['sphere-integral'] = 1
    if spec.get ('refine'):
        eff2 = integrate (m, 0.75, 2.5)
        mon ['refinement'] = 1
        if abs (eff2 [2] - eff [2]) > 2e-3 * max (eff2 [2], 1e-12):
            return dict (status = 'inconclusive', reason = 'sphere integral not converged')
        eff = eff2
    if abs (eff [0] + eff [1] - eff [2]) > 1e-6 * max (eff [2], 1e-300):
        viol.append (dict (monitor = 'V+H', key = 'vertical+horizontal', msg = 'integrated V + H columns %r differ from the total column %r' % (eff [0] + eff [1], eff [2])))
    P_rad = float (eff [2]) * float (m.power)
    real_ground = m.media is not None and not m.media [0].is_ideal
    err = (P_rad + P_load - P_src) / S
    mon ['balance'] = 1
    measured = err if real_ground else abs (err)
    band = 'coarse' if coarse else ('junction' if unequal else 'decide')
    # lowest point of any conductor that is not (nearly) vertical, in wavelengths
    lam   = gen.C_MHZ / m.f
    low_h = np.inf
    for g in m.geo:
        for sg in g.segments:
            if abs (sg.dirvec [2]) < 0.94:
                low_h = min (low_h, min (sg.p1 [2], sg.p2 [2]) / lam)
    if real_ground and band == 'decide' and low_h < 0.2:
        band = 'lowhoriz'
    if real_ground and band == 'decide' and any (float (x.height) != 0 for x in m.media):
        band = 'stepped'
    if real_ground and band == 'decide' and m.media [0].nradials and low_h < 0.4:
        band = 'radialscreen'
    if measured > 0.015:
        msg = ( 'P_src %.6g, P_load %.6g, P_rad %.6g: (P_rad + P_load - P_src) / S = %+.4f (segments up to lambda/%.1f, '
                'junction segment ratio %.2f, cond %.3g)' % (P_src, P_load, P_rad, err, 1 / facts ['seg_max'], facts ['jratio3'], cond))
        key = dict ( coarse = 'coarse-segmentation', junction = 'unequal-junction-segments', decide = 'power-balance'
                   , lowhoriz = 'low-horizontal-wire-over-real-ground', stepped = 'stepped-media-heights'
                   , radialscreen = 'radial-screen-under-horizontal-wire') [band]
        viol.append (dict (monitor = 'balance', key = key, msg = msg, measured = measured, allowed = 0.015))
    # ---- solving again on the same object must not change the books
    observe.solve (m)
    I2 = np.asarray (m.current)
    P2 = sum ((0.5 * complex (s.voltage) * np.conj (I2 [s.idx])).real for s in m.sources)
    mon ['re-solve'] = 1
    if abs (P2 - P_src) > 1e-9 * S:
        viol.append (dict ( monitor = 're-solve', key = 're-solve-power'
                          , msg = 'second compute () on the same object: source power %r, first solve %r' % (P2, P_src)))
    # ---- the feed taken away and put somewhere else on the same object (one source, another pulse): the books of the
    # new solution balance as well (every fourth case in the deciding band, ideal environments)
    if band == 'decide' and not real_ground and not viol and len (I) >= 4 and int (common.sha (spec), 16) % 4 == 0:
        MM  = common.repo ()
        old = [s.idx for s in m.sources]
        new = [k for k in [(old [0] + len (I) // 2) % len (I), (old [0] + 1) % len (I)] if k not in old]
        if new:
            m.sources = []
            common.guarded (lambda: m.register_source (MM.Excitation (0.8 - 0.3j), new [0]), 'register_source')
            observe.solve (m)
            I3 = np.asarray (m.current)
            S3 = 0.5 * abs (0.8 - 0.3j) * abs (I3 [new [0]])
            P3 = (0.5 * (0.8 - 0.3j) * np.conj (I3 [new [0]])).real
            L3 = sum (0.5 * abs (I3 [p.idx]) ** 2 * complex (l.impedance (m.f, p)).real for l in m.loads for p in l.pulses)
            if P3 > 0 and np.isfinite (I3).all ():
                e3 = integrate (m, 3.0, 10.0)
                r3 = (float (e3 [2]) * float (m.power) + L3 - P3) / S3
                mon ['balance.feed-moved'] = 1
                if abs (r3) > 0.02:
                    viol.append (dict (monitor = 'balance.feed-moved', key = 'power-balance-after-moving-the-feed'
                                      , msg = 'sources %s removed, one source on pulse %d, same object solved again: (P_rad + P_load - P_src) / S = %+.4f (first solution %+.4f)' % ([k + 1 for k in old], new [0] + 1, r3, err)
                                      , measured = abs (r3), allowed = 0.02))
    MMm = m
    g0  = MMm.geo [0]
    trivial = ( len (m.geo) == 1 and len (m.sources) == 1 and not m.loads and abs (m.sources [0].voltage - 1) < 1e-12
              and g0.__class__.__name__ == 'Wire' and (np.abs (np.asarray (g0.p2, float) - np.asarray (g0.p1, float)) > 1e-9).sum () == 1)
    bal = [v for v in viol if v ['key'] in ('power-balance', 'power-balance-after-moving-the-feed')]
    if bal and spec.get ('steps'):
        # conductors of different thickness on a junction of three or more: classified as the known finding only if
        # such a junction exists (radii more than a factor of 1.5 apart) and the same structure with one radius
        # throughout balances in every monitor
        ends_ = [(np.asarray (g.segments [0].p1 if e == 0 else g.segments [-1].p2, float), float (g.r_orig)) for g in m.geo for e in (0, 1)]
        tol_  = 1e-3 * min (float (sg.seg_len) for g in m.geo for sg in g.segments)
        multi = False
        for P_, r_ in ends_:
            rr_ = [r for Q, r in ends_ if np.linalg.norm (P_ - Q) <= tol_]
            if len (rr_) >= 3 and max (rr_) > 1.5 * min (rr_):
                multi = True
        if multi:
            s2 = copy.deepcopy ({k: v for k, v in spec.items () if k != 'steps'})
            rmin = min (g ['r'] for g in s2 ['geo'])
            for g in s2 ['geo']:
                g ['r'] = rmin
            r2 = check (s2)
            if r2.get ('status') == 'held':
                for v in bal:
                    v ['key'] = 'radius-step-at-junction-of-three'
                    v ['msg'] += ' [with one radius throughout: margin %.3g]' % (r2.get ('margin') or 0.0)
    sig = gen.signature (spec, m, extra = [band])
    return dict ( status = 'violation' if viol else 'held', sig = sig, nontrivial = not trivial
                , margin = max (measured, 0.0) / 0.015 if band == 'decide' else None
                , monitors = mon, violations = viol
                , info = dict ( err = err, band = band, seg_max = 1 / facts ['seg_max'], jratio3 = facts ['jratio3'], eff = float (eff [2])
                              , load_fraction = P_load / P_src, cond = cond))
# end def check

def evidence_extra (cases):
    out = {}
    for c in cases:
        info = c ['res'].get ('info') or {}
        b = info.get ('band')
        if b is None:
            continue
        e = out.setdefault (b, dict (cases = 0, max_abs_error = 0.0))
        e ['cases'] += 1
        e ['max_abs_error'] = max (e ['max_abs_error'], abs (info.get ('err', 0.0)))
    return dict (error_by_band = out)
# end def evidence_extra
