""" C02 - impedance-matrix terms equal the MININEC-3 potential-integral
    formulation. Executable reference model (pmv.oracles.zref) evaluated
    on the reference pulse geometry (pmv.oracles.pulseref), compared
    entry-wise with the matrix the real code filled (before loads).
"""
import numpy as np
from pmv import common, gen, observe, instrument, corpus
from pmv.oracles import georef, zref, pulseref

ID   = 'C02'
RULE = ( 'structures with every junction end combination (wires reversed at random), different radii and segment '
         'lengths at junctions, wires grounded at end 1 or end 2 (vertical and sloping), tapered wires, arcs and '
         'helices with wires on their ends, thin (a < 1e-4 lambda) and thick wires, free space and ground plane. Per '
         'model the matrix is filled by the real code and up to 240 (quick) / 400 (thorough) entries with pulse '
         'separation >= 2.5 segment lengths are re-evaluated (all junction / grounded pulses first, then random), '
         'plus a comparison of every pulse (point, far ends, radii, ground flag) with the reference geometry. '
         'non-trivial = junction, grounded, tapered or curved structure; distinct = feature signature'
       )
MIN_EVAL = dict (quick = 200, thorough = 2500)
ANCHORS  = ['Mininec.compute_impedance_matrix', 'Mininec.vector_potential', 'Mininec.scalar_potential', 'Mininec.psi'
           , 'Mininec.integral_i2_i3', 'Mininec.fast_quad', 'Pulse.endseg', 'Pulse.dvecs', 'Geobj.compute_connections']
ANCHORS_REQUIRED = ['Mininec.compute_impedance_matrix', 'Mininec.psi', 'Mininec.integral_i2_i3']
ANCHORS_MIN = {'Mininec.compute_impedance_matrix': 0.95, 'Mininec.scalar_potential': 0.95, 'Mininec.vector_potential': 0.95}
ASSUMPTIONS = [ 'Gauss-Legendre 32 x 2 vs 32 x 4 agreement 1e-9 (else scipy quad epsrel 1e-10) as quadrature self-check'
              , 'which two objects a pulse joins is taken from the model (decided by C12/C17); all coordinates come from the reference geometry'
              ]

def plan (tier, seed):
    n = 480 if tier == 'quick' else 4000
    return [dict (i = i, seed = seed) for i in range (n)] + corpus.plan_cases (seed, tier, 1, 3)
# end def plan

def curve_family (rng):
    f, lam, segl, rad = gen.pick_scale (rng, 1 / 60., 1 / 22.)
    geo = []
    if rng.random () < 0.5:
        n   = int (rng.integers (4, 12))
        ang = float (rng.uniform (60, 300))
        R   = n * segl / np.radians (ang)
        a1  = float (rng.uniform (0, 360))
        c   = dict (k = 'a', n = n, radius = R, a1 = a1, a2 = a1 + ang * float (rng.choice ([1, -1])), r = rad, tag = None)
    else:
        n    = int (rng.integers (6, 16))
        turn = segl * 6 * float (rng.choice ([1, -1]))
        R    = segl * 5 / (2 * np.pi)
        c    = dict ( k = 'h', n = n, length = abs (turn) * n / 7.0 * float (rng.choice ([1, -1])), turn = turn, r = rad
                    , rx1 = R, ry1 = R * float (rng.uniform (0.7, 1.3)), tag = None)
        # cross sections: elliptic / circular, the same at both ends / conical / general
        shape = int (rng.integers (0, 5))
        if shape in (1, 2):
            c ['ry1'] = R
        if shape == 2:
            c ['rx2'] = c ['ry2'] = R * float (rng.choice ([1.5, 0.6]))
        elif shape == 3:
            c ['rx2'], c ['ry2'] = R * 1.5, R * 1.2
        elif shape == 4:
            c ['rx2'], c ['ry2'] = c ['rx1'] * 1.4, c ['ry1'] * 1.4
    nd = georef.nodes_of (c)
    geo.append (c)
    for e, p, q in ((0, nd [0], nd [1]), (1, nd [-1], nd [-2])):
        if rng.random () < 0.75:
            d = (p - q) / np.linalg.norm (p - q) + 0.4 * rng.normal (size = 3)
            d /= np.linalg.norm (d)
            nn  = int (rng.integers (2, 7))
            sl  = segl * float (rng.uniform (0.7, 1.4))
            far = p + d * nn * sl
            r2  = min (rad * float (rng.choice ([1, 0.5, 2])), sl / 8.5)
            if rng.random () < 0.5:
                geo.append (gen.wire (nn, p, far, r2))
            else:
                geo.append (gen.wire (nn, far, p, r2))
    return dict (f = f, geo = geo, fam = 'curve-' + c ['k'], media = None, src = [], loads = [])
# end def curve_family

def ground_curve_family (rng):
    """ an arc standing on the ground plane (half circle on both feet, or a quarter circle with a wire on its
        top), turned about the vertical axis and shifted horizontally: out of the plane y = 0 it is defined in
    """
    f, lam, segl, rad = gen.pick_scale (rng, 1 / 60., 1 / 22.)
    n   = int (rng.integers (5, 14))
    geo = []
    if rng.random () < 0.6:
        R = n * segl / np.pi
        a = (0.0, 180.0) if rng.random () < 0.5 else (180.0, 0.0)
        geo.append (dict (k = 'a', n = n, radius = R, a1 = a [0], a2 = a [1], r = rad, tag = None))
    else:
        R = n * segl / (np.pi / 2)
        a = [(0.0, 90.0), (90.0, 0.0), (180.0, 90.0), (90.0, 180.0)][int (rng.integers (0, 4))]
        geo.append (dict (k = 'a', n = n, radius = R, a1 = a [0], a2 = a [1], r = rad, tag = None))
        nn  = int (rng.integers (2, 7))
        top = np.array ([0.0, 0.0, R])
        far = top + np.array ([0.0, 1.0, 0.0]) * nn * segl
        geo.append (gen.wire (nn, top, far, rad) if rng.random () < 0.5 else gen.wire (nn, far, top, rad))
    spec = dict (f = f, geo = geo, fam = 'gcurve', media = [[0, 0, 0]], src = [], loads = [])
    ang  = float (np.round (rng.uniform (-180, 180), 2))
    sh   = [float (x) for x in rng.uniform (-1, 1, 2) * lam * float (rng.choice ([0.3, 2]))] + [0.0]
    u    = rng.random ()
    spec ['tr'] = [['rotate', 1.0, [0.0, 0.0, ang], None]] if u < 0.4 else ([['translate', 1.0, sh, None]] if u < 0.6 else
                  [['rotate', 1.0, [0.0, 0.0, ang], None], ['translate', 2.0, sh, None]])
    return spec
# end def ground_curve_family

def gap_family (rng):
    """ a finely and a coarsely segmented wire whose ends face each other across a gap wider than the matching
        tolerance of the structure (1e-3 of its shortest segment) and narrower than 1e-3 of the coarse segments:
        two separate conductors, no pulse across the gap """
    f, lam, segl, rad = gen.pick_scale (rng, 1 / 80., 1 / 40.)
    s   = segl / 2
    n1, n2 = int (rng.integers (4, 10)), int (rng.integers (2, 5))
    k   = float (rng.choice ([3.0, 4.0, 5.0]))
    a   = np.zeros (3)
    b   = np.array ([n1 * s, 0, 0.])
    u   = gen.rot_matrix (rng) @ np.array ([1.0, 0, 0])
    g   = s * 1e-3 * float (rng.uniform (1.4, 0.8 * k))
    st  = b + u * g
    d   = np.array ([np.cos (1.1), np.sin (1.1), 0.3]); d /= np.linalg.norm (d)
    en  = st + d * n2 * k * s
    r   = min (rad, s / 10)
    fine, coarse = gen.wire (n1, a, b, r), (gen.wire (n2, st, en, r) if rng.random () < 0.5 else gen.wire (n2, en, st, r))
    geo = [fine, coarse] if rng.random () < 0.7 else [coarse, fine]
    R   = gen.rot_matrix (rng)
    for w in geo:
        w ['p1'] = (R @ np.array (w ['p1'])).tolist ()
        w ['p2'] = (R @ np.array (w ['p2'])).tolist ()
    return dict (f = f, geo = geo, fam = 'gap%g' % k, media = None, src = [], loads = [])
# end def gap_family

def make (c):
    if 'corpus' in c:
        spec = corpus.make (c, 2)
        spec ['budget'] = 120
        return spec
    rng = np.random.default_rng ([c ['seed'], 2, c ['i']])
    u   = rng.random ()
    if c ['i'] % 16 == 9:
        spec = gap_family (np.random.default_rng ([c ['seed'], 21, c ['i']]))
        for i, g in enumerate (spec ['geo']):
            g ['tag'] = i + 1
        return spec
    if u < 0.15:
        spec = curve_family (rng) if rng.random () < 0.6 else ground_curve_family (rng)
    elif u < 0.6:
        spec = gen.fam_free (rng, equal_junction = bool (rng.random () < 0.3), seg_hi = 1 / 18.)
        spec.pop ('feeds')
    else:
        spec = gen.fam_ground (rng, seg_hi = 1 / 18.)
        spec.pop ('feeds')
    for g in spec ['geo']:
        if g ['k'] == 'w':
            if rng.random () < 0.5:
                g ['p1'], g ['p2'] = g ['p2'], g ['p1']
            if rng.random () < 0.5:
                sl = np.linalg.norm (np.array (g ['p1']) - np.array (g ['p2'])) / g ['n']
                g ['r'] = float (min (g ['r'] * float (rng.choice ([0.3, 0.5, 2.0, 3.0])), sl / 8.5))
            if rng.random () < 0.15 and g ['n'] >= 3 and not g.get ('taper'):
                g ['taper'] = [int (rng.integers (1, 4)), None, None]
                if rng.random () < 0.4:
                    # with a longest segment only (0.8 .. 1.6 equal segment lengths), handed to the classes of the library
                    g ['taper'][2] = float (np.linalg.norm (np.array (g ['p1']) - np.array (g ['p2'])) / g ['n'] * rng.uniform (0.8, 1.6))
                    spec ['route'] = 'api'
    for i, g in enumerate (spec ['geo']):
        g ['tag'] = i + 1
    return spec
# end def make

def check (c):
    spec = c if 'geo' in c else make (c)
    m    = gen.build (spec, route = 'api') if spec.get ('route') == 'api' else gen.build (spec)
    lam  = gen.C_MHZ / m.f
    common.guarded (m.compute_impedance_matrix, 'compute_impedance_matrix')
    Z    = np.array (m.Z)
    viol = []
    mon  = {}
    try:
        ref, tol = pulseref.reference_pulses (spec, m)
    except pulseref.Mismatch as e:
        return dict ( status = 'violation', sig = 'geometry', nontrivial = True
                    , violations = [dict (monitor = 'pulse-geometry', key = 'pulse-geometry', msg = str (e))])
    mon ['pulse-geometry'] = len (ref)
    bad = pulseref.compare_with_code (m, ref, tol)
    if bad:
        viol.append (dict (monitor = 'pulse-geometry', key = 'pulse-geometry', msg = '; '.join (bad [:3])))
    if spec.get ('route') == 'api':
        # the model handed to the classes of the library has its pulses where the same description on the command line
        # puts them (a tapered wire's interior pulses are taken from the program: from both routes the same)
        mc = gen.build (spec)
        mon ['route-geometry'] = 1
        pa, pc = [np.asarray (p.point, float) for p in m.pulses], [np.asarray (p.point, float) for p in mc.pulses]
        dev = max ([np.linalg.norm (a - b) for a, b in zip (pa, pc)] + [0.0])
        if len (pa) != len (pc) or dev > 2.1 * tol:
            viol.append (dict (monitor = 'route-geometry', key = 'pulse-geometry', msg = 'pulses of the model built with the classes of the library (%d) and from the command line (%d) differ by up to %.3g tolerances' % (len (pa), len (pc), dev / tol)))
    N   = len (ref)
    seg = [max (np.linalg.norm (r ['point'] - r ['ends'][0]), np.linalg.norm (r ['point'] - r ['ends'][1])) for r in ref]
    rng = np.random.default_rng ([7, N, int (m.f * 1000)])
    special = [i for i, r in enumerate (ref) if r ['kind'] != 'I']
    pairs = []
    allp  = [(i, j) for i in range (N) for j in range (N) if i != j
             and np.linalg.norm (ref [i]['point'] - ref [j]['point']) >= 2.5 * max (seg [i], seg [j])]
    sp    = [p for p in allp if p [0] in special or p [1] in special]
    rng.shuffle (sp)
    budget = spec.get ('budget', c.get ('budget', 240))
    pairs  = sp [: budget * 2 // 3]
    rest   = [p for p in allp if p not in set (pairs)]
    rng.shuffle (rest)
    pairs += rest [: budget - len (pairs)]
    worst  = 0.0
    refs   = []
    ninc   = 0
    kinds  = set ()
    for (i, j) in pairs:
        v, s, ok = zref.zref_entry (ref [i], ref [j], 2 * np.pi * m.f / gen.C_MHZ, 1e-4 * gen.C_MHZ / m.f, m.media is not None)
        if not ok:
            ninc += 1
            continue
        dev = abs (Z [i, j] - v) / s
        refs.append ((i, j, v, s))
        mon ['entries'] = mon.get ('entries', 0) + 1
        kinds.add (ref [i]['kind'] + '<' + ref [j]['kind'])
        worst = max (worst, dev / 1e-4)
        if dev > 1e-4 and len (viol) < 6:
            viol.append (dict ( monitor = 'entries', key = 'entry-deviation'
                              , msg = 'Z[%d,%d] (%s <- %s) = %r, reference %r, deviation %.3g of the term scale (allowed 1e-4)'
                                    % (i + 1, j + 1, ref [i]['kind'], ref [j]['kind'], Z [i, j], v, dev)
                              , measured = dev, allowed = 1e-4))
    # ---- an object created at another frequency and then set to this one must give the same matrix: created
    # where every radius is on the other side of the small-radius condition (1e-4 wavelengths) when the model
    # has thick wires (all thin at creation) or only thin ones (all thick at creation)
    f0   = m.f
    rl   = [float (g.r) * f0 / gen.C_MHZ for g in m.geo]
    if mon.get ('entries') and not viol:
        if max (rl) > 1e-4:
            f1 = f0 * 0.5e-4 / max (rl)
        else:
            f1 = f0 * 2e-4 / min (rl)
        m2 = gen.build (dict (spec, f = f1), route = 'api') if spec.get ('route') == 'api' else gen.build (dict (spec, f = f1))
        m2.f = f0
        common.guarded (m2.compute_impedance_matrix, 'compute_impedance_matrix')
        Z2 = np.array (m2.Z)
        for (i, j, v, sc) in refs:
            dev = abs (Z2 [i, j] - v) / sc
            mon ['entries.f-set'] = mon.get ('entries.f-set', 0) + 1
            worst = max (worst, dev / 1e-4)
            if dev > 1e-4 and len (viol) < 6:
                viol.append (dict ( monitor = 'entries.f-set', key = 'entry-deviation-after-frequency-change'
                                  , msg = 'object created at %.6g MHz and set to %.6g MHz: Z[%d,%d] = %r, reference %r, deviation %.3g of the term scale (allowed 1e-4)'
                                        % (f1, f0, i + 1, j + 1, Z2 [i, j], v, dev)
                                  , measured = dev, allowed = 1e-4))
    # ---- field requests in between leave the data of the matrix fill alone: the same object fills the same matrix
    if mon.get ('entries') and not viol:
        MM = common.repo ()
        if len (m.sources):
            try:
                observe.solve (m)
                common.guarded (lambda: m.compute_far_field (MM.Angle (10, 35, 3), MM.Angle (0, 60, 3)), 'compute_far_field')
                x = np.asarray (m.pulses [0].point, float) + lam * np.array ([0.7, 0.4, 0.9])
                common.guarded (lambda: m.compute_near_field (list (x), [1., 1., 1.], [1, 1, 1]), 'compute_near_field')
            except common.Repo_Crash as e:
                if 'LinAlgError' not in e.key:
                    raise
            common.guarded (m.compute_impedance_matrix, 'compute_impedance_matrix')
            Z3 = np.array (m.Z)
            mon ['refill'] = 1
            d = np.abs (Z3 - Z).max () / np.abs (Z).max ()
            if d > 1e-13:
                viol.append (dict ( monitor = 'refill', key = 'matrix-after-field-requests'
                                  , msg = 'the matrix filled again after a far-field and a near-field request on the same object differs by %.3g of its largest element from the first fill' % d
                                  , measured = d, allowed = 1e-13))
    if not mon.get ('entries'):
        return dict (status = 'inconclusive', reason = 'no qualifying pair' if not pairs else 'quadrature self-check failed')
    sig = gen.signature (spec, m, extra = [','.join (sorted (set (r ['kind'] for r in ref)))])
    nontrivial = any (r ['kind'] != 'I' for r in ref) or any (g ['k'] != 'w' or g.get ('taper') for g in spec ['geo'])
    return dict ( status = 'violation' if viol else 'held', sig = sig, nontrivial = bool (nontrivial), margin = worst
                , monitors = mon, violations = viol
                , info = dict (N = N, pairs = len (pairs), quad_inconclusive = ninc, pair_kinds = sorted (kinds) [:12]))
# end def check
