""" C03 - image theory: an antenna over ideal ground equals the same
    antenna in free space together with its mirror image. The free-space
    run of the same code on the harness-built mirrored model is the
    executable model; comparison through description-invariant
    observables (current field by position, feed impedance by location,
    gain - 3.0103 dB).
"""
import copy
import numpy as np
from pmv import common, gen, observe, corpus

ID   = 'C03'
RULE = ( 'all ground families (vertical, sloping, inverted L, T, two grounded wires, elevated horizontal and bent '
         'wires, ground-plane antenna), wires reversed at random (grounding at either end), 1..3 complex sources at '
         'base, interior and junction pulses; the mirrored free-space model continues grounded wires into their image, '
         'feeds image sources in mirror sense and a base source with 2 V at the middle of wire + image. Compared: current '
         'field of the upper half space, feed impedances (base source: half), total / vertical / horizontal gain minus '
         '3.0103 dB. Tolerance 5e-4 up to cond 1e3, 5e-7 * cond up to 1e5, beyond skipped. non-trivial = not a single '
         'vertical wire fed at the base; distinct = feature signature'
       )
MIN_EVAL = dict (quick = 150, thorough = 3000)
ANCHORS  = ['Mininec.image_iter', 'Mininec.compute_rhs', 'Geobj.compute_ground', 'Geobj.compute_connections', 'Mininec.compute_far_field']
ANCHORS_REQUIRED = ['Mininec.image_iter', 'Mininec.compute_rhs', 'Geobj.compute_ground']
ASSUMPTIONS = ['the free-space solve of the same code is the reference (free-space matrix fill is decided by C02)']
MAX_DISCARD = 0.5

def plan (tier, seed):
    n = 260 if tier == 'quick' else 5000
    return [dict (i = i, seed = seed) for i in range (n)] \
         + corpus.plan_cases (seed, tier, 1, 4, only = lambda s: s ['media'] is not None and all (g ['k'] == 'w' for g in s ['geo']))
# end def plan

MIR = np.array ([1, 1, -1.0])

def make (c):
    if 'corpus' in c:
        # the repository's antennas over ground (wires only), currents over the ideal plane
        spec = corpus.located (corpus.make (c, 3))
        spec ['media'] = [[0.0, 0.0, 0.0, None]]
        spec.pop ('boundary', None)
        spec.pop ('radials', None)
        for g in spec ['geo']:
            # ends within the documented tolerance of the plane are on it: the mirrored model needs the exact zero
            for k in ('p1', 'p2'):
                if abs (g [k][2]) < 1e-9:
                    g [k][2] = 0.0
        return gen.clean (spec)
    rng  = np.random.default_rng ([c ['seed'], 3, c ['i']])
    if c ['i'] % 10 == 4:
        return make_half_loop (c)
    if c ['i'] % 10 == 7:
        return make_row (c)
    if c ['i'] % 10 == 2:
        return make_stub (c)
    # every tenth case: separately grounded wires whose feet are a fraction of a segment apart (image theory does
    # not rest on the spacing rule of the guidelines; the statement lists "several grounded wires")
    close = c ['i'] % 10 == 9
    spec = gen.fam_ground (rng, fam = 'close' if close else None, seg_hi = 1 / 20.5, shift = bool (rng.random () < 0.5))
    gen.add_sources (rng, spec, nmax = 3)
    # tapered wires (floor of 8.5 radii): the ground pulse of a wire tapered towards the other end has halves of
    # the first, not the last, segment
    gen.taper_some (np.random.default_rng ([c ['seed'], 32, c ['i']]), spec, 0.4, min_radii = 8.5)
    rl = np.random.default_rng ([c ['seed'], 31, c ['i']])
    if rl.random () < 0.25:
        # lossy conductors: the wire and its image carry the same series impedance per length
        spec ['loads'] = [dict (k = 'skin', cond = float (10 ** rl.uniform (3, 7.8)), tag = None)]
    return gen.clean (spec)
# end def make

def make_stub (c):
    """ a grounded feed stub of a single segment with wires on its top (inverted L, T, top-loaded vertical), the stub
        written before or after the wires it carries, upwards or downwards """
    rng = np.random.default_rng ([c ['seed'], 35, c ['i']])
    f, lam, segl, rad = gen.pick_scale (rng)
    top = np.array ([0.0, 0.0, segl])
    stub = gen.wire (1, [0, 0, 0], top, rad) if rng.random () < 0.6 else gen.wire (1, top, [0, 0, 0], rad)
    tops = []
    R = gen.rot_z (rng.uniform (0, 2 * np.pi))
    for d in ([[1, 0, 0]], [[1, 0, 0], [-1, 0, 0]], [[1, 0, 0.4]]) [int (rng.integers (0, 3))]:
        n = int (rng.integers (3, 10))
        v = R @ (np.array (d, float) / np.linalg.norm (d))
        far = top + v * n * segl
        tops.append (gen.wire (n, top, far, rad) if rng.random () < 0.5 else gen.wire (n, far, top, rad))
    geo = [stub] + tops if rng.random () < 0.6 else tops + [stub]
    feeds = [dict (at = [0, 0, 0], dir = [0, 0, 1.0])]
    spec = dict (f = f, geo = geo, fam = 'stub%d' % len (tops), media = [[0, 0, 0]], feeds = feeds, src = [], loads = [])
    gen.add_sources (rng, spec, nmax = 1)
    return gen.clean (spec)
# end def make_stub

def make_row (c):
    """ a row of exactly vertical monopoles (or elevated vertical dipoles) along a coordinate axis: all feet share
        their x (or their y) coordinate; phased sources, a parasitic element now and then """
    rng = np.random.default_rng ([c ['seed'], 34, c ['i']])
    f, lam, segl, rad = gen.pick_scale (rng)
    axis = int (rng.integers (0, 2))
    x0  = float (rng.choice ([0.0, 0.0, 1.0, -2.5])) * lam * 0.1
    k   = int (rng.integers (2, 4))
    geo, feeds = [], []
    pos = 0.0
    for j in range (k):
        n  = int (rng.integers (3, 10))
        z0 = 0.0 if rng.random () < 0.75 else segl * float (rng.uniform (1.2, 3))
        p  = [x0, pos] if axis == 0 else [pos, x0]
        a, b = np.array (p + [z0]), np.array (p + [z0 + n * segl])
        geo.append (gen.wire (n, a, b, rad) if rng.random () < 0.6 or z0 == 0 else gen.wire (n, b, a, rad))
        kk = 0 if z0 == 0 else int (rng.integers (1, n))
        feeds.append (dict (at = (a + (b - a) * kk / n).tolist (), dir = [0, 0, 1.0]))
        pos += lam * float (rng.uniform (0.1, 0.4))
    spec = dict (f = f, geo = geo, fam = 'row%d' % axis, media = [[0, 0, 0]], feeds = feeds, src = [], loads = [])
    gen.add_sources (rng, spec, nmax = k)
    return gen.clean (spec)
# end def make_row

def make_half_loop (c):
    """ an arc standing on the plane with both feet (half loop), fed at a foot or up the arc; turned about the
        vertical axis and shifted by options. Its image model is the closed circle of twice the segments. """
    from pmv.oracles import georef
    rng = np.random.default_rng ([c ['seed'], 33, c ['i']])
    f, lam, segl, rad = gen.pick_scale (rng, 1 / 60., 1 / 22.)
    n   = int (rng.integers (5, 16))
    R   = n * segl / np.pi
    a   = (0.0, 180.0) if rng.random () < 0.5 else (180.0, 0.0)
    arc = dict (k = 'a', n = n, radius = R, a1 = a [0], a2 = a [1], r = rad, tag = None)
    ang = float (np.round (rng.uniform (-180, 180), 2))
    sh  = [float (x) for x in rng.uniform (-1, 1, 2) * lam * float (rng.choice ([0, 0.3, 2]))] + [0.0]
    tr  = [['rotate', 1.0, [0.0, 0.0, ang], None], ['translate', 2.0, sh, None]] [: int (rng.integers (0, 3))]
    spec = dict (f = f, geo = [arc], fam = 'halfloop', media = [[0, 0, 0]], src = [], loads = [], tr = tr)
    nodes = georef.transformed_objects (spec) [0]['nodes']
    k   = int (rng.choice ([0, 0, n, int (rng.integers (1, n))]))
    d   = (nodes [min (k + 1, n)] - nodes [max (k - 1, 0)])
    at  = np.array (nodes [k], float)
    if k in (0, n):
        at [2] = 0.0
    spec ['src'] = [dict (at = at.tolist (), dir = d.tolist (), v = gen.rand_voltage (rng))]
    if rng.random () < 0.4 and n >= 6:
        k2 = (k + n // 2) % (n + 1)
        if k2 not in (k, 0, n):
            d2 = nodes [k2 + 1] - nodes [k2 - 1]
            spec ['src'].append (dict (at = [float (x) for x in nodes [k2]], dir = d2.tolist (), v = gen.rand_voltage (rng)))
    return spec
# end def make_half_loop

def mirrored (spec):
    """ free-space model: every elevated wire plus its mirror image, every
        grounded wire continued through the ground point into its image
    """
    geo = []
    swap = {1: 2, 2: 1, 3: 3}
    def w (n, a, b, r, taper, rev):
        x = gen.wire (n, a, b, r)
        if taper:
            # the image of a tapered wire is tapered towards the image of the same end
            x ['taper'] = [swap [taper [0]] if rev else taper [0]] + list (taper [1:])
        geo.append (x)
    for g in spec ['geo']:
        if g ['k'] == 'a':
            # half loop on both feet -> the closed circle (starting in the image of the first foot's opposite side)
            a1 = -180.0 if g ['a2'] > g ['a1'] else 180.0
            geo.append (dict (g, n = 2 * g ['n'], a1 = a1, a2 = -a1))
            continue
        p1, p2 = np.array (g ['p1']), np.array (g ['p2'])
        tp = g.get ('taper')
        if p1 [2] == 0:
            # image part and real part meet in the ground point (a bend unless the wire is vertical)
            w (g ['n'], p2 * MIR, p1, g ['r'], tp, True)
            w (g ['n'], p1, p2, g ['r'], tp, False)
        elif p2 [2] == 0:
            w (g ['n'], p1, p2, g ['r'], tp, False)
            w (g ['n'], p2, p1 * MIR, g ['r'], tp, True)
        else:
            w (g ['n'], p1, p2, g ['r'], tp, False)
            w (g ['n'], p1 * MIR, p2 * MIR, g ['r'], tp, False)
    if any (x.get ('taper') for x in geo):
        for i, x in enumerate (geo):
            x ['tag'] = i + 1
    src = []
    for s in spec ['src']:
        at, d, v = np.array (s ['at']), np.array (s ['dir']), s ['v']
        if at [2] == 0:
            src.append (dict (at = at.tolist (), dir = d.tolist (), v = [2 * v [0], 2 * v [1]]))
        else:
            src.append (dict (at = at.tolist (), dir = d.tolist (), v = list (v)))
            src.append (dict (at = (at * MIR).tolist (), dir = (d * MIR).tolist (), v = [-v [0], -v [1]]))
    loads = []
    for l in spec.get ('loads') or []:
        if 'at' not in l:
            if l.get ('tag') is not None:
                raise corpus.Not_Convertible ('distributed load on one object')
            loads.append (dict (l))
            continue
        at = np.array (l ['at'])
        if at [2] != 0:
            # a load above ground and its image
            loads.append (dict (l))
            loads.append (dict (l, at = (at * MIR).tolist ()))
        elif l ['k'] == 'z':
            # a load in the ground point is in series with its image: twice the impedance
            loads.append (dict (l, z = [2 * l ['z'][0], 2 * l ['z'][1]]))
        elif l ['k'] == 'rlc':
            loads.append (dict (l, R = None if l ['R'] is None else 2 * l ['R'], L = None if l ['L'] is None else 2 * l ['L']
                               , C = None if l ['C'] is None else l ['C'] / 2))
        else:
            raise corpus.Not_Convertible ('load kind %s in the ground point' % l ['k'])
    return dict (f = spec ['f'], geo = geo, media = None, src = src, loads = loads, fam = spec.get ('fam'), tr = copy.deepcopy (spec.get ('tr') or []))
# end def mirrored

def check (c):
    spec = c if 'geo' in c else make (c)
    MM   = common.repo ()
    mg   = gen.build (spec)
    tapered = any (g.get ('taper') for g in spec ['geo'])
    # (a taper that runs into a junction of three wires with its short end leaves the modelling rules like one
    # that runs into a junction of two: segment ratio)
    ok, why, facts = gen.validity (mg, seg_max = 1 / 10., check_junction_ratio = 2.1 if tapered else None)
    if tapered:
        why = [w for w in why if w != 'segment < lambda/200']      # short segments are what tapering is for
        ok  = not why
    if str (spec.get ('fam', '')).startswith ('close'):
        why = [w for w in why if w not in ('unconnected wires < 2 segment lengths apart', 'more than one wire on a ground point')]
        ok  = not why
    if not ok:
        return dict (status = 'discard', reason = 'validity: ' + why [0])
    mf   = gen.build (mirrored (spec))
    byt  = int (common.sha ([spec ['geo'], spec ['src']]), 16) % 3
    if byt == 0:
        # the sources of the model over ground named object by object (k-th pulse of the object with that tag)
        gen.readdress_by_tag (mg)
        if [s.idx for s in mg.sources] != [s.idx for s in gen.build (spec).sources]:
            return dict (status = 'violation', sig = 'by-tag', nontrivial = True, monitors = dict (addressing = 1)
                        , violations = [dict (monitor = 'addressing', key = 'by-tag-source-pulse', msg = 'sources named object by object land on other pulses')])
    observe.solve (mg)
    observe.solve (mf)
    if not (mg.power > 0 and mf.power > 0):
        return dict (status = 'discard', reason = 'sources absorb net power')
    cond = max (observe.cond_number (mg), observe.cond_number (mf))
    tol  = observe.tol_cond (cond)
    if tol is None:
        return dict (status = 'discard', reason = 'cond > 1e5')
    viol = []
    mon  = {}
    worst = 0.0
    margins = {}
    famp = observe.feed_amp (mg)
    def judge (name, measured, allowed, msg, key = None):
        nonlocal worst
        mon [name] = mon.get (name, 0) + 1
        if key != observe.IMP_KEY:
            worst = max (worst, measured / allowed)
            margins [name.split (':') [0]] = max (margins.get (name.split (':') [0], 0.0), measured / allowed)
        if not (measured <= allowed):
            viol.append (dict (monitor = name, key = key or name, msg = msg, measured = measured, allowed = allowed))
    unit = observe.min_seg (mg)
    fg = observe.current_field (mg, unit = unit)
    ff = observe.current_field (mf, unit = unit, upper_only = True)
    d  = observe.cmp_fields (fg, ff)
    if d is None:
        viol.append (dict (monitor = 'currents', key = 'current-support', msg = 'current fields of ground model and mirrored model live on different supports'))
    else:
        judge ('currents', d, tol, 'currents over ideal ground differ %.3g (relative to max) from free space + image (cond %.3g)' % (d, cond))
    # impedances by location: first source of each original source in mirrored model
    k = 0
    kinds = []
    for s, sg in zip (spec ['src'], mg.sources):
        base = np.array (s ['at']) [2] == 0
        sf = mf.sources [k]
        k += 1 if base else 2
        zg, zf = complex (sg.impedance), complex (sf.impedance)
        want = zf / 2 if base else zf
        kinds.append ('b' if base else 'e')
        rel = abs (zg - want) / abs (want)
        judge ('impedance', rel, tol, 'feed impedance %r over ground, %r from the mirrored model (%s source; largest current / feed current = %.3g)' % (zg, want, 'base' if base else 'elevated', famp)
              , key = observe.imp_key (rel, tol, famp))
    # (the gain does not depend on the power level or distance a field strength is asked for with it)
    kwp = [dict (), dict (pwr = 100.0), dict (pwr = 0.5, dist = 1000.0)] [int (common.sha ([spec ['geo'], 'pwr']), 16) % 3]
    pg = np.array (observe.pattern (mg, nth = 9, nph = 8, th0 = 3.0, th1 = 87.0, **kwp).gain)
    pf = np.array (observe.pattern (mf, nth = 9, nph = 8, th0 = 3.0, th1 = 87.0, **kwp).gain)
    mxg = pg [..., 2].max ()
    for col, nm in ((2, 'total'), (0, 'vertical'), (1, 'horizontal')):
        # on the scale of the main beam (total gain): in a null the allowed current deviation is a large factor of a small field
        dd, dcur = observe.gain_dev_beam_db (np.append (pg [..., col].ravel (), mxg), np.append (pf [..., col].ravel () + 3.0103, mxg), d)
        judge ('gain.' + nm, dd + 1e-300, 0.01 + dcur + observe.gain_slack_db (mg, d), '%s gain over ground minus 3.0103 dB differs %.4f dB from the free-space pair' % (nm, dd))
    g0 = mg.geo [0]
    trivial = len (mg.geo) == 1 and kinds == ['b'] and abs (g0.p1 [0] - g0.p2 [0]) < 1e-12 and abs (g0.p1 [1] - g0.p2 [1]) < 1e-12
    sig = gen.signature (spec, mg, extra = ['feeds' + ''.join (sorted (kinds)), 'bytag' if byt == 0 else '', ','.join (sorted (kwp))])
    return dict ( status = 'violation' if viol else 'held', sig = sig, nontrivial = not trivial, margin = worst, margins = margins
                , monitors = mon, violations = viol [:6], info = dict (cond = cond, N = len (mg.pulses)))
# end def check
