""" C04 - the near field equals the field of the solved currents and
    merges into the far field. Executable reference (pmv.oracles.nfref)
    evaluated at the grid points compute_near_field just produced; far
    shells against the reported far field.
"""
import numpy as np
from pmv import common, gen, observe, corpus
from pmv.oracles import nfref, ffref

ID   = 'C04'
RULE = ( 'random structures (straight, bent, branched, unequal radii / segment lengths at junctions, wires reversed at '
         'random so that 1-1, 1-2, 2-1, 2-2 junctions and grounding at either end occur; free space and ideal ground; '
         '1..2 sources; requested power 1e-3..1e4 W or source power). Observation points on shells at 1.0..1.5 segments '
         'from the nearest conductor, at 0.1..1 lambda, and on far shells (150..400 lambda, structures <= 1.5 lambda): '
         'E and H vs the reference (1 %), far shell vs reported far field (complex, 1 %), E/H = 376.7 ohm +- 1 %, radial '
         'part <= 2 %. non-trivial = junction of non-collinear segments, 1-1 / 2-2 junction or grounded wire; distinct = '
         'feature signature + shell classes'
       )
MIN_EVAL = dict (quick = 120, thorough = 2500)
ANCHORS  = ['Mininec.nf_helper', 'Mininec.compute_near_field', 'Mininec.psi_near_field_56']
ANCHORS_REQUIRED = ['Mininec.nf_helper', 'Mininec.compute_near_field', 'Mininec.psi_near_field_56']
ANCHORS_MIN = {'Mininec.compute_near_field': 0.9, 'Mininec.nf_helper': 0.95}
ASSUMPTIONS = [ 'reference quadrature Gauss-Legendre 48 x 4, convergence checked against 48 x 8 on every point (1e-6)'
              , 'the code uses 4.77783352 for eta / 8 pi^2 (= 4.7713...): constant 0.136 % offset in E, inside the 1 % budget'
              ]
CASE_TIMEOUT = 300

def plan (tier, seed):
    n = 180 if tier == 'quick' else 4000
    return [dict (i = i, seed = seed) for i in range (n)] + corpus.plan_cases (seed, tier, 1, 3)
# end def plan

def make (c):
    rng = np.random.default_rng ([c ['seed'], 4, c ['i']])
    if 'corpus' in c:
        spec = corpus.make (c, 4)
        rng  = corpus.rng_of (c, 4)
        if spec ['media'] is not None:
            spec ['media'] = [[0.0, 0.0, 0.0, None]]
            spec.pop ('boundary', None)
            spec.pop ('radials', None)
        return add_points (rng, spec)
    if rng.random () < 0.5:
        spec = gen.fam_free (rng, equal_junction = bool (rng.random () < 0.4), shift = False, nmax = 24)
    else:
        spec = gen.fam_ground (rng, shift = False)
    gen.add_sources (rng, spec, nmax = 2)
    for g in spec ['geo']:
        if g ['k'] == 'w' and rng.random () < 0.5:
            g ['p1'], g ['p2'] = g ['p2'], g ['p1']
            if g.get ('taper'):
                g ['taper'] = None
    for g in spec ['geo']:
        g ['taper'] = None
        g ['tag'] = None
    spec ['src'] = [s for s in spec ['src'] if 'at' in s] or spec ['src']
    if any ('p' in s for s in spec ['src']):
        spec ['src'] = [dict (p = [2], v = [1.0, 0.0])]
    rp = np.random.default_rng ([c ['seed'], 41, c ['i']])
    if rp.random () < 0.15 and all ('at' in s for s in spec ['src']):
        # a short passive conductor some wavelengths away (mast, guy section): its current is a thousandth of the
        # driven element's and less, the field next to it is as much its own scattered field as the incident one
        lam = gen.C_MHZ / spec ['f']
        sl  = min (np.linalg.norm (np.array (g ['p1']) - np.array (g ['p2'])) / g ['n'] for g in spec ['geo'])
        n   = int (rp.integers (3, 6))
        L   = float (rp.uniform (0.06, 0.12)) * lam
        d   = float (rp.uniform (2.5, 4.0)) * lam
        az  = float (rp.uniform (0, 2 * np.pi))
        c0  = np.array ([d * np.cos (az), d * np.sin (az), 0.3 * lam + L])
        ax  = np.array ([0.0, 0.0, 1.0]) if spec ['media'] is not None else rp.normal (size = 3)
        ax  = ax / np.linalg.norm (ax)
        spec ['geo'].append (gen.wire (n, c0 - ax * L / 2, c0 + ax * L / 2, min (g ['r'] for g in spec ['geo']), tag = None))
        spec ['passive'] = True
    return add_points (rng, spec)
# end def make

def add_points (rng, spec):
    spec ['nf'] = dict ( pwr = (None if rng.random () < 0.3 else float (10 ** rng.uniform (-3, 4)))
                       , dirs = rng.normal (size = (6, 3)).tolist ()
                       , shell = [float (rng.uniform (1.0, 1.5)), float (rng.uniform (1.0, 1.5))]
                       , mid = [float (rng.uniform (0.1, 1.0)), float (rng.uniform (0.1, 1.0))]
                       , far = [float (rng.uniform (150, 400)), float (rng.uniform (150, 400))]
                       , pick = rng.random (6).tolist ())
    return gen.clean (spec)
# end def add_points

def near_point (m, rng_pick, d, direction, obj = None):
    """ a point at distance d (in longest-segment units) from a randomly picked segment (of the object obj, if given),
        pushed out along `direction` until it really is that far from every conductor (images included)
    """
    segs = [s for g in m.geo for s in g.segments]
    pick = segs if obj is None else list (obj.segments)
    s    = pick [int (rng_pick * len (pick)) % len (pick)]
    lmax = max (x.seg_len for x in segs)
    mid  = (np.asarray (s.p1, float) + np.asarray (s.p2, float)) / 2
    u    = np.asarray (direction, float)
    t    = np.asarray (s.dirvec, float)
    u    = u - (u @ t) * t
    if np.linalg.norm (u) < 1e-6:
        u = np.cross (t, [1, 0, 0.3])
    u   /= np.linalg.norm (u)
    if m.media is not None and u [2] < 0:
        u [2] = -u [2]
    x = mid + u * d * lmax
    for k in range (60):
        dist = nfref.min_distance (m, x)
        if dist >= d * 0.999:
            return x, dist
        x = x + u * (d - dist + 0.02) * lmax
    return None, None
# end def near_point

FD_KEY = 'near-field-finite-difference-step'

def h_key (m, x, Hc, H, scale = 1.0):
    """ mechanism key of a deviation of the reported H (Hc) from the exact curl H of the solved currents. Known
        finding: the program forms H from differences of the vector potential over 0.001 wavelengths; close to short
        segments the truncation error of that step, of order (0.001 lambda / distance) ** 2, exceeds 1 %. A deviation
        is that finding only if the reported H *equals* (1e-3) the central difference over that step of the exact vector
        potential (computed here) - any other error in H does not.
    """
    if np.linalg.norm (Hc - H) <= 0.01 * np.linalg.norm (H):
        return 'near-H'
    Hf = nfref.h_central_difference (m, x, 0.001 * gen.C_MHZ / m.f) * scale
    if np.linalg.norm (Hc - Hf) <= 1e-3 * np.linalg.norm (H):
        return FD_KEY
    return 'near-H'
# end def h_key

def e_key (m, x, Ec, E, scale = 1.0):
    """ the same for E: the program reports the voltage across a virtual dipole of 0.001 wavelengths centred on the
        point (vector potential at the centre, scalar potential at its two ends) over its length; a deviation above
        1 % is the known finding only if the reported E equals that quantity formed from the exact potentials
        (2.5e-3: the program's constant 4.77783352 is 0.14 % off eta / 8 pi^2) """
    if np.linalg.norm (Ec - E) <= 0.01 * np.linalg.norm (E):
        return 'near-E'
    Ef = nfref.e_virtual_dipole (m, x, 0.0005 * gen.C_MHZ / m.f) * scale
    if np.linalg.norm (Ec - Ef) <= 2.5e-3 * np.linalg.norm (E):
        return FD_KEY
    return 'near-E'
# end def e_key

def check (c):
    spec = c if 'geo' in c else make (c)
    MM   = common.repo ()
    m    = gen.build (spec)
    ok, why, facts = gen.validity (m, seg_max = 1 / 10., check_junction_ratio = None)
    observe.solve (m)
    if not np.isfinite (m.current).all () or m.power <= 0:
        return dict (status = 'discard', reason = 'non-finite currents or net power <= 0')
    nf   = spec ['nf']
    lam  = gen.C_MHZ / m.f
    pwr  = nf ['pwr']
    scale = 1.0 if pwr is None else np.sqrt (pwr / m.power)
    viol = []
    mon  = {}
    worst = 0.0
    margins = {}
    ninc = 0
    def judge (name, measured, allowed, msg, key = None):
        nonlocal worst
        mon [name] = mon.get (name, 0) + 1
        worst = max (worst, measured / allowed)
        margins [name.split (':') [0]] = max (margins.get (name.split (':') [0], 0.0), measured / allowed)
        if not (measured <= allowed) and len (viol) < 8:
            viol.append (dict (monitor = name, key = key or name, msg = msg, measured = measured, allowed = allowed))
    pts = []
    for j in range (2):
        x, d = near_point (m, nf ['pick'][j], nf ['shell'][j], nf ['dirs'][j])
        if x is not None:
            pts.append (('shell', x))
    for j in range (2):
        u = np.asarray (nf ['dirs'][2 + j], float)
        u /= np.linalg.norm (u)
        if m.media is not None:
            u [2] = abs (u [2]) + 0.05
        x = np.asarray (m.pulses [int (nf ['pick'][2 + j] * len (m.pulses)) % len (m.pulses)].point, float) + u * nf ['mid'][j] * lam
        if nfref.min_distance (m, x) >= 1.0:
            pts.append (('mid', x))
    if spec.get ('passive'):
        # next to the passive conductor (the object defined last)
        for j in range (2):
            x, d = near_point (m, nf ['pick'][4 + j], 1.2 + 1.5 * nf ['pick'][j], nf ['dirs'][4 + j], obj = m.geo [-1])
            if x is not None:
                pts.append (('passive', x))
    classes = set ()
    refs = []
    for kind, x in pts:
        kw = {} if pwr is None else dict (pwr = pwr)
        common.guarded (lambda: m.compute_near_field (list (x), [1.0, 1.0, 1.0], [1, 1, 1], **kw), 'compute_near_field')
        Ec, Hc = np.asarray (m.e_field [0]), np.asarray (m.h_field [0])
        E, H   = nfref.fields (m, x, 4)
        E2, H2 = nfref.fields (m, x, 8)
        if np.linalg.norm (E - E2) > 1e-6 * np.linalg.norm (E2) or np.linalg.norm (H - H2) > 1e-6 * np.linalg.norm (H2):
            ninc += 1
            continue
        E, H = E2 * scale, H2 * scale
        refs.append ((kind, x, E, H))
        classes.add (kind)
        dE = np.linalg.norm (Ec - E) / np.linalg.norm (E)
        dH = np.linalg.norm (Hc - H) / np.linalg.norm (H)
        judge ('E.' + kind, dE, 0.01, 'E at %s (%.2f segments from the nearest conductor) deviates %.3g from the field of the solved currents' % (np.round (x, 4), nfref.min_distance (m, x), dE), key = e_key (m, x, Ec, E, scale))
        dist = nfref.min_distance (m, x)
        # close to short segments the finite-difference step of the magnetic field exceeds the 1 % (known finding,
        # classified by h_key with a central difference of the exact vector potential); any other error is a violation
        hkey = h_key (m, x, Hc, H, scale)
        judge ('H.' + kind, dH, 0.01, 'H at %s (%.2f segments from the nearest conductor) deviates %.3g from the field of the solved currents' % (np.round (x, 4), dist, dH), key = hkey)
    # ---- far shells: the near field converges to the reported far field (deviation ~ 1 / r)
    size = max (np.linalg.norm (np.asarray (p.point, float)) for p in m.pulses) / lam
    if size <= 0.75:
        gmax = np.asarray (observe.pattern (m).gain) [..., 2].max ()
        for j in range (2):
            u = np.asarray (nf ['dirs'][4 + j], float)
            u /= np.linalg.norm (u)
            if m.media is not None:
                u [2] = abs (u [2])
                if u [2] < 0.1:
                    u [2] = 0.1
                    u /= np.linalg.norm (u)
            th = np.degrees (np.arccos (u [2]))
            ph = np.degrees (np.arctan2 (u [1], u [0]))
            P  = pwr if pwr is not None else float (m.power)
            rh, tv, pv = ffref.unit_vectors (th, ph)
            # the near field is the field of the piecewise-constant currents, i. e. it converges to the exact
            # radiation integral; the reported far field places each half-segment moment at the pulse point
            # (C10). The reference gives the size of that method difference for this direction.
            pt, pp = ffref.far_field (m, np.array (th), np.array (ph), 'point')
            xt, xp = ffref.far_field (m, np.array (th), np.array (ph), 'exact')
            slack  = float (np.sqrt (abs (pt - xt) ** 2 + abs (pp - xp) ** 2) / np.sqrt (abs (pt) ** 2 + abs (pp) ** 2))
            devs = []
            skip = False
            for mult in (1.0, 4.0):
                r  = nf ['far'][j] * mult * lam
                x  = u * r
                common.guarded (lambda: m.compute_near_field (list (x), [1.0, 1.0, 1.0], [1, 1, 1], pwr = P), 'compute_near_field')
                Ec, Hc = np.asarray (m.e_field [0]), np.asarray (m.h_field [0])
                common.guarded (lambda: m.compute_far_field (MM.Angle (th, 1.0, 1), MM.Angle (ph, 1.0, 1), pwr = P, dist = r), 'compute_far_field')
                g = np.asarray (m.far_field.gain).ravel ()
                if g [2] < gmax - 15:
                    skip = True      # deep in a null of the pattern the 1 / r^2 terms dominate
                    break
                et = complex (np.asarray (m.far_field.e_theta).ravel () [0]) * np.exp (-1j * m.w * r)
                ep = complex (np.asarray (m.far_field.e_phi).ravel () [0]) * np.exp (-1j * m.w * r)
                mag = np.sqrt (abs (et) ** 2 + abs (ep) ** 2)
                devs.append (float (np.sqrt (abs (Ec @ tv - et) ** 2 + abs (Ec @ pv - ep) ** 2) / mag))
            if skip:
                continue
            classes.add ('far')
            rr = nf ['far'][j] * 4
            judge ('far-shell.converges', devs [1], max (devs [0] / 2, 0.005 + slack), 'near / far mismatch %.4f at %.0f lambda, %.4f at %.0f lambda: does not fall with distance' % (devs [0], nf ['far'][j], devs [1], rr), key = 'far-shell')
            judge ('far-shell.E', devs [1], 0.01 + slack, 'near field at %.0f lambda differs %.3g from the reported far field of that direction, power and distance' % (rr, devs [1]), key = 'far-shell')
            zw = np.linalg.norm (Ec) / np.linalg.norm (Hc)
            judge ('far-shell.E/H', abs (zw - 376.73) / 376.73, 0.01, '|E| / |H| = %.2f ohm at %.0f lambda' % (zw, rr), key = 'far-shell-impedance')
            # radial parts relative to the field in the direction of the pattern maximum at this distance:
            # close to the axis of a linear antenna the transverse field itself vanishes while the staggered
            # current / charge pulses of the method leave a radial residual of order (k * segment)^2
            tr = np.sqrt (abs (Ec @ tv) ** 2 + abs (Ec @ pv) ** 2) * 10 ** ((gmax - g [2]) / 20)
            judge ('far-shell.radial', abs (Ec @ rh) / tr, 0.02, 'radial E component is %.3g of the main-beam field at %.0f lambda' % (abs (Ec @ rh) / tr, rr), key = 'far-shell-radial')
            trh = np.sqrt (abs (Hc @ tv) ** 2 + abs (Hc @ pv) ** 2) * 10 ** ((gmax - g [2]) / 20)
            judge ('far-shell.radial', abs (Hc @ rh) / trh, 0.02, 'radial H component is %.3g of the main-beam field' % (abs (Hc @ rh) / trh), key = 'far-shell-radial')
    # ---- the power level of a request holds for that request only: ask for another level, then repeat
    # the first request (with its own level, or none) and compare with the same reference
    if refs:
        kind, x, E, H = refs [0]
        other = 7.5 * (pwr if pwr is not None else float (m.power))
        common.guarded (lambda: m.compute_near_field (list (x), [1.0, 1.0, 1.0], [1, 1, 1], pwr = other), 'compute_near_field')
        Ec = np.asarray (m.e_field [0])
        s2 = np.sqrt (other / (pwr if pwr is not None else float (m.power)))
        judge ('E.level', np.linalg.norm (Ec - E * s2) / np.linalg.norm (E * s2), 0.01, 'E at %s for %.3g W deviates from the field of the solved currents scaled to that level' % (np.round (x, 4), other), key = e_key (m, x, Ec, E * s2, scale * s2))
        kw = {} if pwr is None else dict (pwr = pwr)
        common.guarded (lambda: m.compute_near_field (list (x), [1.0, 1.0, 1.0], [1, 1, 1], **kw), 'compute_near_field')
        Ec, Hc = np.asarray (m.e_field [0]), np.asarray (m.h_field [0])
        judge ('E.repeat', np.linalg.norm (Ec - E) / np.linalg.norm (E), 0.01, 'E at %s, asked again after a request with another power level, deviates from the field of the solved currents' % (np.round (x, 4),), key = e_key (m, x, Ec, E, scale))
        judge ('H.repeat', np.linalg.norm (Hc - H) / np.linalg.norm (H), 0.01, 'H at %s, asked again after a request with another power level, deviates from the field of the solved currents' % (np.round (x, 4),)
              , key = h_key (m, x, Hc, H, scale))
    # ---- a request written with whole numbers only (API: python ints for start, increment and count) is the
    # same request as with floats: the field of the solved currents at those points
    for kind, x, E, H in refs [:2]:
        xi = [int (v) for v in np.round (x)]
        if nfref.min_distance (m, np.array (xi, float)) < 1.0:
            continue
        Ei, Hi = nfref.fields (m, np.array (xi, float), 8)
        common.guarded (lambda: m.compute_near_field (xi, [2, 1, 1], [1, 1, 1]), 'compute_near_field')
        Ec, Hc = np.asarray (m.e_field [0]), np.asarray (m.h_field [0])
        dist = nfref.min_distance (m, np.array (xi, float))
        # (on the axis of a straight antenna the magnetic field vanishes: compared on the scale of E / 376.7 ohm)
        dH = np.linalg.norm (Hc - Hi) / max (np.linalg.norm (Hi), 1e-3 * np.linalg.norm (Ei) / 376.73)
        # (whole-number points fall on symmetry planes and on the ground plane, where a field can vanish identically:
        # then compared on the scale of 376.7 ohm x |H|)
        judge ('E.int', np.linalg.norm (Ec - Ei) / max (np.linalg.norm (Ei), 1e-3 * 376.73 * np.linalg.norm (Hi)), 0.01, 'E at %s (request in whole numbers) deviates from the field of the solved currents' % (xi,), key = e_key (m, np.array (xi, float), Ec, Ei))
        judge ('H.int', dH, 0.01, 'H at %s (request in whole numbers) deviates %.3g from the field of the solved currents' % (xi, dH)
              , key = h_key (m, np.array (xi, float), Hc, Hi))
        break
    # ---- the same object at another frequency: the field of the new currents at the new wavelength
    if refs and not viol:
        kind, x, E, H = refs [0]
        f0  = m.f
        m.f = f0 * (1.23 if spec.get ('f', 1) * 1000 % 2 < 1 else 0.81)
        observe.solve (m)
        if nfref.min_distance (m, x) >= 1.0 and np.isfinite (np.asarray (m.current)).all ():
            common.guarded (lambda: m.compute_near_field (list (x), [1.0, 1.0, 1.0], [1, 1, 1]), 'compute_near_field')
            Ec, Hc = np.asarray (m.e_field [0]), np.asarray (m.h_field [0])
            E2, H2 = nfref.fields (m, x, 8)
            judge ('E.f2', np.linalg.norm (Ec - E2) / np.linalg.norm (E2), 0.01, 'E at %s after the frequency of the object was changed from %.6g to %.6g MHz deviates from the field of the solved currents' % (np.round (x, 4), f0, m.f), key = FD_KEY if e_key (m, x, Ec, E2) == FD_KEY else 'near-E-after-frequency-change')
            judge ('H.f2', np.linalg.norm (Hc - H2) / np.linalg.norm (H2), 0.01, 'H at %s after the frequency of the object was changed from %.6g to %.6g MHz deviates from the field of the solved currents' % (np.round (x, 4), f0, m.f), key = FD_KEY if h_key (m, x, Hc, H2) == FD_KEY else 'near-H-after-frequency-change')
        m.f = f0
    if not any (k.startswith ('E.') for k in mon):
        return dict (status = 'inconclusive', reason = 'no admissible observation point / quadrature self-check failed')
    sig = gen.signature (spec, m, extra = ['+'.join (sorted (classes)), 'pwr%d' % (pwr is not None)])
    jt = [c for c in gen.junction_clusters (m) if len (c) > 1]
    nontrivial = bool (jt) or (m.media is not None and any (g.is_ground [0] or g.is_ground [1] for g in m.geo))
    return dict ( status = 'violation' if viol else 'held', sig = sig, nontrivial = nontrivial, margin = worst, margins = margins
                , monitors = mon, violations = viol, info = dict (N = len (m.pulses), quad_inconclusive = ninc))
# end def check
