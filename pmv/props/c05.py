""" C05 - rigid-motion and electromagnetic-scaling invariance; option
    route (--geo-rotate / --geo-translate / --geo-scale) equals the
    coordinate route. Metamorphic oracle over fresh runs.
"""
import copy
import numpy as np
from pmv import common, gen, observe, corpus
from pmv.oracles import georef

ID   = 'C05'
RULE = ( 'base structures from all free-space and ground families (plus arcs / helices with a wire attached), sources '
         'and frequency-independent lumped loads placed by location; random sequences of up to 4 keyed transformations '
         '(rotations about three axes in free space, about z over ground; translations up to 200 lambda, horizontal over '
         'ground; whole structure or the same motion given tag by tag; option order shuffled; distinct keys) and a scale '
         'factor 0.01..100 with the frequency divided by it. Three models per case: untransformed A, B1 through the options, '
         'B2 with the motion written into the coordinates. Compared: segment end points B1 vs B2 (1e-9 of the size), current '
         'field (mapped back), feed impedances, total gain on rotated directions (0.01 dB). non-trivial = at least one '
         'rotation or scaling and a bent / branched structure or ground; distinct = (feature signature, transform kinds)'
       )
MIN_EVAL = dict (quick = 150, thorough = 3000)
ANCHORS  = ['Rotation_Matrix.__init__', 'Geo_Container.rotate', 'Geo_Container.scale', 'Geo_Container.translate'
           , 'Wire.rotate', 'Wire.scale', 'Wire.translate', 'Curve.rotate', 'Curve.scale', 'Curve.translate']
ANCHORS_REQUIRED = ['Rotation_Matrix.__init__', 'Geo_Container.scale', 'Wire.rotate', 'Wire.translate', 'Curve.rotate']
ASSUMPTIONS = ['tolerance by condition number as stated in the property; total gain only for general rotations (V/H are not invariant)']
MAX_DISCARD = 0.5

def plan (tier, seed):
    n = 240 if tier == 'quick' else 5000
    return [dict (i = i, seed = seed) for i in range (n)] \
         + corpus.plan_cases (seed, tier, 1, 4, only = lambda s: all (g ['k'] == 'w' for g in s ['geo']))
# end def plan

def curve_base (rng, short = False):
    f, lam, segl, rad = gen.pick_scale (rng, 1 / 60., 1 / 22.)
    if rng.random () < 0.5 and not short:
        n   = int (rng.integers (5, 12))
        ang = float (rng.uniform (90, 270))
        c   = dict (k = 'a', n = n, radius = n * segl / np.radians (ang), a1 = 20.0, a2 = 20.0 + ang, r = rad, tag = None)
    else:
        n    = int (rng.integers (8, 16)) if rng.random () < 0.7 and not short else int (rng.integers (2, 4))
        c    = dict ( k = 'h', n = n, length = 5 * segl * n / 9.0, turn = 5 * segl * float (rng.choice ([1, -1]))
                    , r = min (rad, segl / 12), rx1 = segl * 9 / (2 * np.pi), ry1 = segl * 9 / (2 * np.pi), tag = None)
    nd  = georef.nodes_of (c)
    d   = nd [-1] - nd [-2]
    d   = d / np.linalg.norm (d) + np.array ([0.2, 0.3, 0.5])
    d  /= np.linalg.norm (d)
    nn  = int (rng.integers (3, 7))
    w   = gen.wire (nn, nd [-1], nd [-1] + d * nn * segl, rad)
    feeds = [dict (at = (nd [-1] + d * segl).tolist (), dir = d.tolist ())]
    return dict (f = f, geo = [c, w], fam = 'curve-' + c ['k'], media = None, feeds = feeds, src = [], loads = [])
# end def curve_base

def lattice_base (rng):
    """ wires between points with whole-number coordinates (metres), as one writes them by hand - and as python
        ints through the library """
    f    = float (rng.choice ([7.1, 10.1, 14.2]))
    gnd  = bool (rng.random () < 0.4)
    z0   = 0 if gnd else int (rng.integers (-3, 4))
    o    = np.array ([int (rng.integers (-4, 5)), int (rng.integers (-4, 5)), z0])
    n1   = int (rng.integers (2, 6))
    up   = np.array ([0, 0, 1])
    top  = o + up * n1
    geo  = [gen.wire (n1, o, top, 0.01)]
    feeds = [dict (at = (o + up).tolist () if n1 > 1 else top.tolist (), dir = up.tolist ())]
    for d in rng.permutation ([[1, 0, 0], [0, 1, 0], [-1, 0, 0], [0, -1, 0]]) [: int (rng.integers (1, 3))]:
        n2 = int (rng.integers (2, 5))
        far = top + np.array (d) * n2
        geo.append (gen.wire (n2, top, far, 0.01) if rng.random () < 0.5 else gen.wire (n2, far, top, 0.01))
    return dict (f = f, geo = geo, fam = 'lattice', media = ([[0, 0, 0]] if gnd else None), feeds = feeds, src = [], loads = [])
# end def lattice_base

def nearmiss_base (rng):
    """ a fed wire and a second wire in line with it that begins a little beyond its end: a gap of 1.3 .. 1.7 matching
        distances (1/1000 of the segment length) or of 0.03 .. 0.3 segment lengths - never joined, however the pair is
        turned or scaled """
    f, lam, segl, rad = gen.pick_scale (rng, 1 / 60., 1 / 22.)
    n1, n2 = int (rng.integers (4, 12)), int (rng.integers (3, 9))
    gap = float (rng.choice ([1.3e-3, 1.5e-3, 1.7e-3, 0.03, 0.1, 0.3])) * segl
    ax  = np.eye (3) [int (rng.integers (0, 3))]
    a   = ax * n1 * segl
    geo = [gen.wire (n1, [0, 0, 0], a, rad), gen.wire (n2, a + ax * gap, a + ax * (gap + n2 * segl), rad)]
    if rng.random () < 0.5:
        geo [1]['p1'], geo [1]['p2'] = geo [1]['p2'], geo [1]['p1']
    k = int (rng.integers (1, n1))
    return dict (f = f, geo = geo, fam = 'nearmiss%g' % (gap / segl), media = None, feeds = [dict (at = (ax * k * segl).tolist (), dir = ax.tolist ())], src = [], loads = [])
# end def nearmiss_base

def make (c):
    rng = np.random.default_rng ([c ['seed'], 5, c ['i']])
    if 'corpus' in c:
        # the repository's antennas (wires only, sources and loads by location), moved as a whole
        spec = corpus.located (corpus.make (c, 5))
        rng  = corpus.rng_of (c, 5)
        if spec ['media'] is not None:
            spec ['media'] = [[0.0, 0.0, 0.0, None]]
            spec.pop ('boundary', None)
            spec.pop ('radials', None)
        return add_motion (c, rng, spec, scale = all (l ['k'] == 'z' for l in spec ['loads'])
                                                   # explicit taper limits are absolute lengths, they do not follow the scale
                                                   and not any (g.get ('taper') and (g ['taper'][1] or g ['taper'][2]) for g in spec ['geo'])
                          , taper = False)
    u = rng.random ()
    if c ['i'] % 9 == 4:
        spec = lattice_base (np.random.default_rng ([c ['seed'], 58, c ['i']]))
    elif c ['i'] % 9 == 7:
        spec = nearmiss_base (np.random.default_rng ([c ['seed'], 57, c ['i']]))
    elif c ['i'] % 18 == 6:
        spec = curve_base (np.random.default_rng ([c ['seed'], 59, c ['i']]), short = True)     # helix of two or three segments
    elif u < 0.12:
        spec = curve_base (rng)
    elif u < 0.6:
        spec = gen.fam_free (rng, equal_junction = bool (rng.random () < 0.5), shift = False)
    else:
        # (grounded wires that are not vertical twice as often: their ground pulse is bent, its matrix terms depend
        # on the azimuth the wire leaves the ground point in)
        spec = gen.fam_ground (rng, fam = (str (rng.choice (['slope', 'lean', 'slope'])) if rng.random () < 0.3 else None), shift = False)
    gen.add_sources (rng, spec, nmax = 2)
    if any ('p' in s for s in spec ['src']):
        return None
    feeds = [fd for fd in spec.get ('feeds') or [] if not any (np.allclose (fd ['at'], s ['at']) for s in spec ['src'])]
    if feeds and rng.random () < 0.5:
        fd = feeds [0]
        spec ['loads'] = [dict (k = 'z', z = [float (10 ** rng.uniform (0, 2.5)), float (rng.uniform (-100, 100))], at = fd ['at'])]
    for i, g in enumerate (spec ['geo']):
        g ['tag'] = i + 1
    return add_motion (c, rng, spec)
# end def make

def add_motion (c, rng, spec, scale = True, taper = True):
    gnd = spec ['media'] is not None
    lam = gen.C_MHZ / spec ['f']
    keys = [float (k) for k in rng.permutation ([-20, -3, -1.5, 0, 1, 2, 2.5, 9, 10, 11, 20, 100]) [: int (rng.integers (1, 5))]]
    per_tag = bool (rng.random () < 0.3)
    tr = []
    for key in keys:
        if rng.random () < 0.55:
            if gnd:
                ang = [0.0, 0.0, float (np.round (rng.uniform (-180, 180), 2))]
            else:
                ang = [float (np.round (rng.uniform (-180, 180), 2)) if rng.random () < 0.75 else 0.0 for k in range (3)]
            if rng.random () < 0.25:
                # quarter, half and whole turns in either sense, more than one turn
                ang [2 if gnd else int (rng.integers (0, 3))] = float (rng.choice ([180, -180, 360, -360, 90, -90, 270, 540, 720]))
            tr.append (['rotate', key, ang])
        else:
            v = rng.uniform (-1, 1, 3) * lam * float (rng.choice ([0.3, 3, 50, 200, 3e4]))
            if gnd:
                v [2] = 0.0
            tr.append (['translate', key, [float (x) for x in v]])
    if str (spec.get ('fam', '')).startswith ('nearmiss') and (c ['i'] % 2 or float (spec ['fam'][8:]) < 0.01):
        # a single turn that brings the axis of the pair (a coordinate axis) onto a space diagonal, more or less: the gap
        # then has three components of about equal size
        rd = np.random.default_rng ([c ['seed'], 571, c ['i']])
        axis = np.asarray (spec ['feeds'][0]['dir'], float)
        for k in range (5000):
            ang = [float (np.round (rd.uniform (-180, 180), 2)) for j in range (3)]
            if np.abs (georef.rot_xyz (ang) @ axis).max () <= 0.585:
                break
        tr, per_tag = [['rotate', 1.0, ang]], False
    sc = float (10 ** rng.uniform (-2, 2)) if rng.random () < 0.6 and scale else None
    spec ['motion'] = dict (tr = tr, sc = sc, per_tag = per_tag, order = [int (x) for x in rng.permutation (len (tr))])
    if sc and np.random.default_rng ([c ['seed'], 56, c ['i']]).random () < 0.4:
        spec ['motion']['split'] = float (np.random.default_rng ([c ['seed'], 57, c ['i']]).choice ([0.25, 0.5, 3.0, 10.0]))
    spec ['dirs'] = rng.normal (size = (8, 3)).tolist ()
    spec = gen.clean (spec)
    if not taper:
        return spec
    # tapered wires (default limits, which follow the radius): none that carries a source or load, those are
    # placed by location on the equal segmentation
    marks = [np.array (x ['at']) for x in spec ['src'] + spec ['loads'] if 'at' in x]
    rng2  = np.random.default_rng ([c ['seed'], 55, c ['i']])
    for g in spec ['geo']:
        if g ['k'] == 'w' and g ['n'] >= 3 and rng2.random () < (0.75 if spec ['motion']['sc'] else 0.3):
            p1, p2 = np.array (g ['p1']), np.array (g ['p2'])
            on = any (np.linalg.norm (np.cross (p2 - p1, x - p1)) < 1e-9 * np.linalg.norm (p2 - p1) ** 2 and -1e-9 <= (x - p1) @ (p2 - p1) / ((p2 - p1) @ (p2 - p1)) <= 1 + 1e-9 for x in marks)
            if not on:
                g ['taper'] = [int (rng2.integers (1, 4)), None, None]
    return spec
# end def add_motion

def transform (tr, sc):
    """ point map and vector map of the motion (keys ascending, scaling last) """
    seq = sorted (tr, key = lambda x: x [1])
    def T (x):
        x = np.asarray (x, float)
        for kind, key, v in seq:
            if kind == 'rotate':
                x = georef.rot_xyz (v) @ x
            else:
                x = x + np.asarray (v, float)
        return x * (sc or 1.0)
    def Tv (v):
        v = np.asarray (v, float)
        for kind, key, a in seq:
            if kind == 'rotate':
                v = georef.rot_xyz (a) @ v
        return v
    return T, Tv
# end def transform

def variants (spec):
    mo = spec ['motion']
    T, Tv = transform (mo ['tr'], mo ['sc'])
    tags = [g ['tag'] for g in spec ['geo']]
    def moved_src (s):
        return dict (at = T (s ['at']).tolist (), dir = Tv (s ['dir']).tolist (), v = s ['v'])
    def moved_load (l):
        return dict (l, at = T (l ['at']).tolist ()) if 'at' in l else dict (l)
    # B1: options
    b1 = copy.deepcopy ({k: v for k, v in spec.items () if k not in ('motion', 'dirs')})
    opts = []
    for j in mo ['order']:
        kind, key, v = mo ['tr'][j]
        if mo ['per_tag']:
            for t in tags:
                opts.append ([kind, key, v, t])
        else:
            opts.append ([kind, key, v, None])
    b1 ['tr'] = opts
    if mo ['sc']:
        b1 ['sc'] = [[mo ['sc'], t] for t in tags] if mo ['per_tag'] else [[mo ['sc'], None]]
        if mo.get ('split'):
            # the same factor asked for in two requests (one object first, then everything; or twice everything)
            s1 = mo ['split']
            b1 ['sc'] = [[s1, t] for t in tags] + [[mo ['sc'] / s1, None]] if mo ['per_tag'] else [[s1, None], [mo ['sc'] / s1, None]]
        b1 ['f'] = spec ['f'] / mo ['sc']
    b1 ['src']   = [moved_src (s) for s in spec ['src']]
    b1 ['loads'] = [moved_load (l) for l in spec ['loads']]
    # B2: coordinates (wires only)
    b2 = None
    if all (g ['k'] == 'w' for g in spec ['geo']):
        b2 = copy.deepcopy ({k: v for k, v in spec.items () if k not in ('motion', 'dirs')})
        for g in b2 ['geo']:
            g ['p1'] = T (g ['p1']).tolist ()
            g ['p2'] = T (g ['p2']).tolist ()
            g ['r']  = g ['r'] * (mo ['sc'] or 1.0)
        b2 ['f']     = b1 ['f']
        b2 ['src']   = b1 ['src']
        b2 ['loads'] = b1 ['loads']
    return b1, b2, T, Tv
# end def variants

def gain_at (m, dirs):
    MM = common.repo ()
    out = []
    for d in dirs:
        d  = np.asarray (d, float) / np.linalg.norm (d)
        th = float (np.degrees (np.arccos (np.clip (d [2], -1, 1))))
        ph = float (np.degrees (np.arctan2 (d [1], d [0])))
        common.guarded (lambda: m.compute_far_field (MM.Angle (th, 1.0, 1), MM.Angle (ph, 1.0, 1)), 'compute_far_field')
        out.append (np.asarray (m.far_field.gain) [0, 0])
    return np.array (out)
# end def gain_at

def make_indep (c):
    """ every object with a motion of its own, the requests of different objects under the same keys """
    rng  = np.random.default_rng ([c ['seed'], 52, c ['i']])
    spec = gen.fam_free (rng, fam = str (rng.choice (['yagi', 'vee', 'L', 'zig', 'star3', 'T'])), shift = False)
    spec = gen.clean (spec)
    lam  = gen.C_MHZ / spec ['f']
    for i, g in enumerate (spec ['geo']):
        g ['tag'] = int ((i + 1) * int (rng.choice ([1, 3])))
    keys = [float (k) for k in rng.choice ([1, 2, 10, -1], size = 2, replace = False)]
    per  = {}
    for g in spec ['geo']:
        lst = []
        for key in keys [: int (rng.integers (1, 3))]:
            if rng.random () < 0.65:
                lst.append (['rotate', key, [float (np.round (rng.uniform (-180, 180), 2)) if rng.random () < 0.8 else 0.0 for k in range (3)]])
                if rng.random () < 0.25:
                    lst [-1][2][int (rng.integers (0, 3))] = float (rng.choice ([180, -180, 360, -360, 90, 270, 540]))
            else:
                lst.append (['translate', key, [float (x) for x in rng.uniform (-1, 1, 3) * lam]])
        per [g ['tag']] = lst
    glob = []
    if rng.random () < 0.6:
        # requests for the whole structure among the per-object ones (on the command line after one of them)
        for key in [float (k) for k in rng.choice ([0, 3, 5, 11], size = int (rng.integers (1, 3)), replace = False)]:
            if rng.random () < 0.5:
                glob.append (['rotate', key, [float (np.round (rng.uniform (-180, 180), 2)) for k in range (3)]])
            else:
                glob.append (['translate', key, [float (x) for x in rng.uniform (-1, 1, 3) * lam]])
    spec ['indep'] = dict (per = {str (k): v for k, v in per.items ()}, order = int (rng.integers (0, 1000)), glob = glob)
    return spec
# end def make_indep

def check_indep (spec):
    per  = {int (k): v for k, v in spec ['indep']['per'].items ()}
    base = {k: v for k, v in spec.items () if k != 'indep'}
    glob = spec ['indep'].get ('glob') or []
    def T (tag, x):
        x = np.asarray (x, float)
        for kind, key, v in sorted (per [tag] + glob, key = lambda t: t [1]):
            x = georef.rot_xyz (v) @ x if kind == 'rotate' else x + np.asarray (v, float)
        return x
    opts = [[kind, key, v, tag] for tag, lst in per.items () for kind, key, v in lst]
    rng  = np.random.default_rng (spec ['indep']['order'])
    opts = [opts [i] for i in rng.permutation (len (opts))]
    for kind, key, v in glob:
        opts.insert (int (rng.integers (1, len (opts) + 1)), [kind, key, v, None])
    b1 = copy.deepcopy (base)
    b1 ['tr'] = opts
    b2 = copy.deepcopy (base)
    for g in b2 ['geo']:
        g ['p1'] = T (g ['tag'], g ['p1']).tolist ()
        g ['p2'] = T (g ['tag'], g ['p2']).tolist ()
    mA, mB, mC = gen.build (base), gen.build (b1), gen.build (b2)
    viol, mon = [], {}
    size = max (np.linalg.norm (np.asarray (p, float)) for g in mC.geo for s in g.segments for p in (s.p1, s.p2)) + 1e-300
    worst = 0.0
    for name, ma, mb, f in (('geometry.options', mA, mB, T), ('geometry.routes', mC, mB, lambda tag, x: x)):
        d = 0.0
        for ga, gb in zip (ma.geo, mb.geo):
            if ga.tag != gb.tag or len (ga.segments) != len (gb.segments):
                d = np.inf
                break
            for sa, sb in zip (ga.segments, gb.segments):
                for pa, pb in ((sa.p1, sb.p1), (sa.p2, sb.p2)):
                    d = max (d, np.linalg.norm (f (ga.tag, np.asarray (pa, float)) - np.asarray (pb, float)) / size)
        mon [name] = 1
        worst = max (worst, d / 1e-9)
        if not (d <= 1e-9):
            viol.append (dict (monitor = name, key = name, msg = 'objects moved one by one (%d requests under keys %s): segment end points deviate %.3g of the size from %s'
                               % (len (opts), sorted (set (o [1] for o in opts)), d, 'the documented motion' if name.endswith ('options') else 'the coordinate route'), measured = d, allowed = 1e-9))
    sig = 'indep|%s|n%d|%s' % (spec.get ('fam'), len (spec ['geo']), '+'.join (sorted (set (o [0] for o in opts))))
    return dict (status = 'violation' if viol else 'held', sig = sig, nontrivial = True, margin = worst, monitors = mon, violations = viol)
# end def check_indep

def check (c):
    if 'geo' not in c and 'corpus' not in c and c ['i'] % 8 == 7:
        c = make_indep (c)
    if 'indep' in c:
        return check_indep (c)
    spec = c if 'geo' in c else make (c)
    if spec is None:
        return dict (status = 'discard', reason = 'no feed by location')
    base = {k: v for k, v in spec.items () if k not in ('motion', 'dirs')}
    mA = gen.build (base)
    ok, why, facts = gen.validity (mA, seg_max = 1 / 10., check_junction_ratio = None)
    if any (g.get ('taper') for g in spec ['geo']):
        # the short end segments of a tapered wire are what tapering is for; the invariance does not rest on them
        why = [w for w in why if w not in ('adjacent segment ratio > 2.1', 'segment < 8 radii', 'segment < lambda/200')]
        ok  = not why
    if str (spec.get ('fam', '')).startswith ('nearmiss'):
        why = [w for w in why if w != 'unconnected wires < 2 segment lengths apart']     # (that is what this family is)
        ok  = not why
    if not ok:
        return dict (status = 'discard', reason = 'validity: ' + why [0])
    b1, b2, T, Tv = variants (spec)
    try:
        mB = gen.build (b1)
    except common.Rejected as e:
        return dict ( status = 'violation', sig = 'moved-rejected', nontrivial = True
                    , violations = [dict (monitor = 'geometry.options', key = 'moved-model-rejected', msg = 'the antenna is accepted, the same antenna moved by %s is rejected: %s' % ([t [0] for t in spec ['motion']['tr']], str (e) [:120]))])
    observe.solve (mA)
    observe.solve (mB)
    # the same requests made through the classes of the library (whole numbers as python ints; the container's
    # tags computed before, after, or in the middle of filling it when every request is for the whole structure)
    akw = [dict (), dict (ints = True)] + ([dict (tags = 'late', ints = True), dict (tags = 'split'), dict (tags = 'split', ints = True), dict (tags = 'late')] if not spec ['motion']['per_tag'] else [])
    akw = akw [int (common.sha (spec ['motion']), 16) % len (akw)]
    try:
        mP = gen.build (b1, route = 'api', **akw)
    except common.Rejected as e:
        return dict ( status = 'violation', sig = 'moved-rejected', nontrivial = True
                    , violations = [dict (monitor = 'geometry.api', key = 'moved-model-rejected', msg = 'the moved antenna is accepted through the command line and rejected through the library (%s): %s' % (akw, str (e) [:120]))])
    observe.solve (mP)
    cond = max (observe.cond_number (mA), observe.cond_number (mB))
    tol  = observe.tol_cond (cond)
    if tol is None:
        return dict (status = 'discard', reason = 'cond > 1e5')
    if not (mA.power > 0):
        return dict (status = 'discard', reason = 'sources absorb net power')
    viol = []
    mon  = {}
    worst = 0.0
    margins = {}
    famp = observe.feed_amp (mA)
    def judge (name, measured, allowed, msg, key = None):
        nonlocal worst
        mon [name] = mon.get (name, 0) + 1
        if key != observe.IMP_KEY:
            worst = max (worst, measured / allowed)
            margins [name.split (':') [0]] = max (margins.get (name.split (':') [0], 0.0), measured / allowed)
        if not (measured <= allowed):
            viol.append (dict (monitor = name, key = key or name, msg = msg, measured = measured, allowed = allowed))
    sc   = spec ['motion']['sc'] or 1.0
    unit = observe.min_seg (mA)
    # geometry of the two routes
    nodesA = [np.asarray (p, float) for g in mA.geo for s in g.segments for p in (s.p1, s.p2)]
    nodesB = [np.asarray (p, float) for g in mB.geo for s in g.segments for p in (s.p1, s.p2)]
    size   = max (np.linalg.norm (x) for x in nodesB) + 1e-300
    if len (nodesA) == len (nodesB):
        d = max (np.linalg.norm (T (a) - b) for a, b in zip (nodesA, nodesB)) / size
        judge ('geometry.options', d, 1e-9, 'segment end points produced by the options deviate %.3g of the size from the documented motion' % d)
        rr = max (abs (gb.r - ga.r * sc) / (ga.r * sc) for ga, gb in zip (mA.geo, mB.geo))
        judge ('geometry.radius', rr + 1e-300, 1e-12, 'radius not scaled with the structure: relative deviation %.3g' % rr)
    else:
        viol.append (dict (monitor = 'geometry.options', key = 'geometry.options', msg = 'different number of segments'))
    nodesP = [np.asarray (p, float) for g in mP.geo for s in g.segments for p in (s.p1, s.p2)]
    if len (nodesP) == len (nodesB):
        d = max (np.linalg.norm (a - b) for a, b in zip (nodesP, nodesB)) / size
        judge ('geometry.api', d, 1e-9, 'segment end points of the model moved through the library (%s) deviate %.3g of the size from the model moved through the command line' % (akw, d))
        for sa, sb in zip (mB.sources, mP.sources):
            rel = abs (sa.impedance - sb.impedance) / abs (sb.impedance)
            judge ('impedance.api', rel, tol, 'feed impedance %r through the command line, %r through the library (%s)' % (sa.impedance, sb.impedance, akw), key = None if rel <= tol else 'impedance.api')
    else:
        viol.append (dict (monitor = 'geometry.api', key = 'geometry.api', msg = 'moved through the library (%s): %d segment ends, through the command line %d' % (akw, len (nodesP), len (nodesB))))
    if b2 is not None:
        mC = gen.build (b2)
        nodesC = [np.asarray (p, float) for g in mC.geo for s in g.segments for p in (s.p1, s.p2)]
        d = max (np.linalg.norm (a - b) for a, b in zip (nodesB, nodesC)) / size
        judge ('geometry.routes', d, 1e-9, 'option route and coordinate route differ by %.3g of the size' % d)
        observe.solve (mC)
        for sa, sb in zip (mB.sources, mC.sources):
            rel = abs (sa.impedance - sb.impedance) / abs (sb.impedance)
            judge ('impedance.routes', rel, tol, 'feed impedance differs between option route and coordinate route: %r / %r' % (sa.impedance, sb.impedance), key = observe.imp_key (rel, tol, famp) and observe.imp_key (rel, tol, famp).replace ('impedance', 'impedance.routes', 1) if observe.imp_key (rel, tol, famp) == 'impedance' else observe.imp_key (rel, tol, famp))
    # results: map B back into the frame of A
    Rt = lambda v: v
    def back (x):
        x = np.asarray (x, float) / sc
        for kind, key, v in sorted (spec ['motion']['tr'], key = lambda t: -t [1]):
            if kind == 'rotate':
                x = georef.rot_xyz (v).T @ x
            else:
                x = x - np.asarray (v, float)
        return x
    def backv (v):
        v = np.asarray (v, float)
        for kind, key, a in sorted (spec ['motion']['tr'], key = lambda t: -t [1]):
            if kind == 'rotate':
                v = georef.rot_xyz (a).T @ v
        return v
    fA = observe.current_field (mA, unit = unit)
    fB = observe.current_field (mB, T = back, Tv = backv, unit = unit)
    d  = observe.cmp_fields (fA, fB)
    if d is None:
        viol.append (dict (monitor = 'currents', key = 'current-support', msg = 'current field of the moved model does not map back onto the original support'))
    else:
        judge ('currents', d, tol, 'currents changed by %.3g (relative to max) under %s (cond %.3g)' % (d, [t [0] for t in spec ['motion']['tr']] + (['scale'] if spec ['motion']['sc'] else []), cond))
    for sa, sb in zip (mA.sources, mB.sources):
        rel = abs (sa.impedance - sb.impedance) / abs (sa.impedance)
        judge ('impedance', rel, tol, 'feed impedance %r became %r (largest current / feed current = %.3g)' % (sa.impedance, sb.impedance, famp), key = observe.imp_key (rel, tol, famp))
    dirs = [np.asarray (d, float) for d in spec ['dirs']]
    if mA.media is not None:
        dirs = [np.array ([d [0], d [1], abs (d [2]) + 0.15]) for d in dirs]
    gA = gain_at (mA, dirs)
    gB = gain_at (mB, [Tv (d) for d in dirs])
    cols = (0, 1, 2) if mA.media is not None else (2,)
    mx = gA [:, 2].max ()
    for col in cols:
        dd, dcur = observe.gain_dev_beam_db (np.append (gA [:, col], mx), np.append (gB [:, col], mx), d)
        judge ('gain', dd + 1e-300, 0.01 + dcur + observe.gain_slack_db (mA, d), 'gain in rotated directions differs by %.4f dB (column %d)' % (dd, col))
    # the original asked for a whole table at once (several azimuth angles per zenith angle), the moved antenna for
    # the images of these directions one by one
    MMg = common.repo ()
    zen = MMg.Angle (12.0, 19.0, 4) if mA.media is not None else MMg.Angle (15.0, 38.0, 5)
    azi = MMg.Angle (10.0, 90.0, 4)
    common.guarded (lambda: mA.compute_far_field (zen, azi), 'compute_far_field')
    gT  = np.asarray (mA.far_field.gain)
    shp = gT.shape [:2]
    tz, ta = np.radians (np.asarray (zen.angle_deg (), float)), np.radians (np.asarray (azi.angle_deg (), float))
    axis_z = 0 if shp [0] == len (tz) else 1
    gdir, gtab = [], []
    for iz, t in enumerate (tz):
        for ia, a in enumerate (ta):
            gdir.append (np.array ([np.sin (t) * np.cos (a), np.sin (t) * np.sin (a), np.cos (t)]))
            gtab.append (gT [iz, ia] if axis_z == 0 else gT [ia, iz])
    gtab = np.array (gtab)
    gBt  = gain_at (mB, [Tv (x) for x in gdir])
    for col in cols:
        dd, dcur = observe.gain_dev_beam_db (np.append (gtab [:, col], mx), np.append (gBt [:, col], mx), d)
        judge ('gain.table', dd + 1e-300, 0.01 + dcur + observe.gain_slack_db (mA, d), 'gain table of the original (4 azimuth angles per zenith angle) differs by %.4f dB from the moved antenna in the moved directions (column %d)' % (dd, col), key = 'gain')
    res_keys = ('currents', 'impedance', 'impedance.routes', 'gain')
    if viol and all (v ['key'] in res_keys for v in viol) and all (v.get ('measured', np.inf) <= 4 * v.get ('allowed', 0) for v in viol):
        # known finding: the order of the Gauss rule is chosen by t = (d0 + d3) / segment length against 6 and 10; on a
        # straight, equally segmented wire pairs of pulses sit exactly on a threshold and the last bit of the
        # coordinates decides between the 8- and the 4-point rule for a whole band of the matrix. Classified as that
        # finding only if such pairs exist in the fill of either model, the excess is small, and the two models agree
        # within the stated tolerance once every integral uses the 8-point rule (experiment made on the spot).
        if observe.threshold_pairs (mA) + observe.threshold_pairs (mB) > 0:
            with observe.gauss_order_fixed ():
                xA, xB = gen.build (base), gen.build (b1)
                observe.solve (xA)
                observe.solve (xB)
                d2 = observe.cmp_fields (observe.current_field (xA, unit = unit), observe.current_field (xB, T = back, Tv = backv, unit = unit))
                z2 = max (abs (sa.impedance - sb.impedance) / abs (sa.impedance) for sa, sb in zip (xA.sources, xB.sources))
                g2 = float (np.abs (gain_at (xA, dirs) - gain_at (xB, [Tv (d) for d in dirs])) [:, 2].max ())
            mon ['experiment.gauss-order-fixed'] = 1
            if d2 is not None and d2 <= tol and z2 <= tol and g2 <= 0.01:
                for v in viol:
                    v ['key'] = 'quadrature-order-on-threshold'
                    v ['msg'] += ' [with the 8-point rule everywhere: currents %.3g, impedance %.3g, gain %.2g dB]' % (d2, z2, g2)
    kinds = sorted (set (t [0] for t in spec ['motion']['tr'])) + (['scale'] if spec ['motion']['sc'] else []) \
          + (['per-tag'] if spec ['motion']['per_tag'] else [])
    sig = gen.signature (base, mA, extra = ['+'.join (kinds)])
    bent = len (mA.geo) > 1 or any (g ['k'] != 'w' for g in spec ['geo'])
    nontrivial = (('rotate' in kinds) or ('scale' in kinds)) and (bent or mA.media is not None)
    return dict ( status = 'violation' if viol else 'held', sig = sig, nontrivial = bool (nontrivial), margin = worst, margins = margins
                , monitors = mon, violations = viol [:6], info = dict (cond = cond, motion = spec ['motion']))
# end def check
