""" C06 - results do not depend on how the same conductor structure is
    described (wire reversal, order / tags, collinear splitting on segment
    boundaries); mirror-symmetric structure + symmetric feed gives
    mirror-symmetric currents. Metamorphic oracle over fresh runs with
    description-invariant observables.
"""
import copy
import numpy as np
from pmv import common, gen, observe, corpus
from pmv.oracles import nfref

ID   = 'C06'
RULE = ( 'base structures from all free-space and ground families inside the stated domain (validity filter: unconnected '
         'wires >= 2 segments apart, one wire per ground point, ...), sources by location (1..2, complex). Variants per '
         'case: two random direction masks (all 2^n reachable), a random permutation of the wire order (automatic tags) or '
         'of explicit tags, a collinear split of one or two wires on segment boundaries, and all three combined. Compared '
         'with the base description: current field by position, feed impedance by location, E and H at two fixed points, '
         'gain table. Plus: mirror-symmetric structures with symmetric feed must give mirror-symmetric current fields. '
         'Tolerance 5e-4 by the condition-number rule. non-trivial = junction or grounded structure; distinct = (feature '
         'signature, variant kinds)'
       )
MIN_EVAL = dict (quick = 120, thorough = 2500)
ANCHORS  = ['Geobj._add_conn', 'Geobj.compute_connections', 'Connected_Geobj.add', 'Geo_Container.compute_tags', 'Mininec.nf_helper', 'Pulse.__init__']
ANCHORS_REQUIRED = ['Geobj._add_conn', 'Geobj.compute_connections', 'Mininec.nf_helper']
ASSUMPTIONS = ['near-field points are kept >= 1.5 segments away from all conductors', 'tolerance by condition number as stated']
MAX_DISCARD = 0.5
CASE_TIMEOUT = 300

def plan (tier, seed):
    n = 420 if tier == 'quick' else 4000
    return [dict (i = i, seed = seed) for i in range (n)] \
         + corpus.plan_cases (seed, tier, 1, 4, only = lambda s: all (g ['k'] == 'w' for g in s ['geo']), skip = corpus.OUTSIDE_RULES)
# end def plan

def ratio_family (rng):
    """ two or three thick wires joined end to end whose segment lengths differ by a large factor at the junction """
    f    = float (rng.choice (gen.FREQS))
    lam  = gen.C_MHZ / f
    segl = lam / float (rng.uniform (25, 45))
    ratio = float (rng.choice ([3, 5, 7, 9.5, 12, 20]))
    short = segl / ratio
    rad  = min (lam * float (rng.uniform (1.3e-4, 4e-4)), short / 3.2)
    n1, n2 = int (rng.integers (3, 8)), int (rng.integers (2, 6))
    R    = gen.rot_matrix (rng)
    ang  = np.radians (float (rng.uniform (60, 180)))
    a    = R @ np.array ([-n1 * segl, 0, 0.])
    o    = np.zeros (3)
    b    = R @ (np.array ([np.cos (np.pi - ang), np.sin (np.pi - ang), 0.]) * n2 * short)
    geo  = [gen.wire (n1, a, o, rad), gen.wire (n2, o, b, rad)]
    if rng.random () < 0.5:
        d = (b - o) / np.linalg.norm (b - o)
        geo.append (gen.wire (int (rng.integers (2, 5)), b, b + d * segl * 3, rad))
    for g in geo:
        if rng.random () < 0.5:
            g ['p1'], g ['p2'] = g ['p2'], g ['p1']
    k  = int (rng.integers (1, n1))
    at = a + (o - a) * k / n1
    return dict (f = f, geo = geo, fam = 'ratio%g' % ratio, media = None, loads = [], ratio = ratio
                , feeds = [dict (at = at.tolist (), dir = (o - a).tolist ()), dict (at = o.tolist (), dir = (o - a).tolist ())])
# end def ratio_family

def collinear_family (rng):
    """ a straight wire along a coordinate axis written as two (or three) objects whose segment lengths and
        direction vectors are bitwise equal (segment length a multiple of 2 ** -10 m, pieces start on multiples of it),
        with or without a radius step, plus a bent-off or a parasitic wire; the objects in random order
    """
    f    = float (rng.choice (gen.FREQS))
    lam  = gen.C_MHZ / f
    L    = max (1, round (lam / float (rng.uniform (25, 60)) * 1024)) / 1024.0
    rad  = min (lam * float (10 ** rng.uniform (-5, -3.6)), L / 9)
    ax   = int (rng.integers (0, 3))
    e    = np.eye (3) [ax]
    e2   = np.eye (3) [(ax + 1) % 3]
    ns   = [int (rng.integers (2, 7)) for k in range (int (rng.integers (2, 4)))]
    geo  = []
    x0   = 0
    for k, n in enumerate (ns):
        r = rad * (float (rng.choice ([1, 1, 0.5, 2])) if k else 1)
        geo.append (gen.wire (n, e * x0 * L, e * (x0 + n) * L, min (r, L / 9)))
        x0 += n
    kind = str (rng.choice (['bent', 'parasitic', 'none']))
    nx = int (rng.integers (2, 5))
    if kind == 'bent':
        geo.append (gen.wire (nx, e * x0 * L, e * x0 * L + e2 * nx * L, rad))
    elif kind == 'parasitic':
        geo.append (gen.wire (nx, e2 * 3 * L, e2 * 3 * L + e * nx * L, rad))
    k   = int (rng.integers (1, ns [0]))
    feeds = [dict (at = (e * k * L).tolist (), dir = e.tolist ())]
    order = [int (x) for x in rng.permutation (len (geo))]
    return dict (f = f, geo = [geo [i] for i in order], fam = 'collinear-' + kind, media = None, loads = [], feeds = feeds)
# end def collinear_family

def make (c):
    rng = np.random.default_rng ([c ['seed'], 6, c ['i']])
    if 'corpus' in c:
        # the repository's antennas (wires only; sources and loads by location): coordinates with few digits,
        # axis-parallel wires, so that the pieces of a split wire have bitwise equal segment lengths
        spec = corpus.located (corpus.make (c, 6))
        rng  = corpus.rng_of (c, 6)
        if spec ['media'] is not None:
            spec ['media'] = [[0.0, 0.0, 0.0, None]]
            spec.pop ('boundary', None)
            spec.pop ('radials', None)
        spec ['loads'] = [l for l in spec ['loads'] if l.get ('tag') is None]
        for g in spec ['geo']:
            g ['tag'] = None
            if g.get ('taper'):
                g ['taper'] = [g ['taper'][0], g ['taper'][1] or None, g ['taper'][2]]
        return add_var (c, rng, spec)
    sym = bool (rng.random () < 0.2)
    if c ['i'] % 12 == 11:
        sym  = False
        spec = ratio_family (np.random.default_rng ([c ['seed'], 62, c ['i']]))
        gen.add_sources (rng, spec, nmax = 1)
    elif c ['i'] % 12 == 5:
        sym  = False
        spec = collinear_family (np.random.default_rng ([c ['seed'], 63, c ['i']]))
        gen.add_sources (rng, spec, nmax = 1)
    elif sym:
        spec = symmetric (rng)
    elif rng.random () < 0.15:
        # arc / helix with wires on its ends (first and last segment of the curve differ in direction)
        from pmv.props import c02
        spec = c02.curve_family (rng)
        spec ['feeds'] = []
        for g in spec ['geo']:
            if g ['k'] == 'w' and g ['n'] >= 2:
                p1, p2 = np.array (g ['p1']), np.array (g ['p2'])
                spec ['feeds'].append (dict (at = (p1 + (p2 - p1) / g ['n']).tolist (), dir = (p2 - p1).tolist ()))
        if not spec ['feeds']:
            return None
        gen.add_sources (rng, spec, nmax = 1)
    elif rng.random () < 0.55:
        spec = gen.fam_free (rng, equal_junction = bool (rng.random () < 0.5), shift = bool (rng.random () < 0.3))
        gen.add_sources (rng, spec, nmax = 2)
    else:
        spec = gen.fam_ground (rng, shift = bool (rng.random () < 0.3))
        gen.add_sources (rng, spec, nmax = 2)
    if any ('p' in s for s in spec ['src']):
        return None
    for g in spec ['geo']:
        g ['taper'] = None
        g ['tag'] = None
    # some wires tapered (a tapered wire can be reversed - taper end 1 <-> 2 - but not split)
    srcpts = [np.array (x ['at']) for x in spec ['src'] if 'at' in x]
    for g in spec ['geo']:
        if not sym and g ['k'] == 'w' and g ['n'] >= 3 and rng.random () < 0.2:
            p1, p2 = np.array (g ['p1']), np.array (g ['p2'])
            on = any (np.linalg.norm (np.cross (p2 - p1, x - p1)) < 1e-9 * np.linalg.norm (p2 - p1) ** 2 and -1e-9 <= (x - p1) @ (p2 - p1) / ((p2 - p1) @ (p2 - p1)) <= 1 + 1e-9 for x in srcpts)
            if not on:      # sources are placed by location on the equal segmentation
                g ['taper'] = [int (rng.integers (1, 4)), float (8.5 * g ['r']), None]
                if c ['i'] % 2:
                    # with a maximum that binds (1.2 .. 2.5 equal segment lengths)
                    g ['taper'][2] = float (np.linalg.norm (p2 - p1) / g ['n'] * (1.2 + 1.3 * ((c ['i'] * 7919) % 100) / 100.0))
    n = len (spec ['geo'])
    rd = np.random.default_rng ([c ['seed'], 61, c ['i']])
    def multi_junction ():
        ends = [np.array (g [e], float) for g in spec ['geo'] if g ['k'] == 'w' for e in ('p1', 'p2')]
        unit_ = min (np.linalg.norm (np.array (g ['p2'], float) - np.array (g ['p1'], float)) / g ['n'] for g in spec ['geo'] if g ['k'] == 'w')
        return any (sum (1 for q in ends if np.linalg.norm (p - q) <= 1e-3 * unit_) >= 3 for p in ends)
    # (not on junctions of three and more wires: there the order of the wires matters for any distributed load - known
    # finding distributed-load-on-junction-of-three - and a taper running into such a junction has a finding of its own)
    if any (g.get ('taper') for g in spec ['geo']) and rd.random () < 0.6 and not sym and all (g ['k'] == 'w' for g in spec ['geo']) and not multi_junction ():
        # lossy wire throughout (skin effect for all wires), on tapered wires: the loss of a pulse is that of its two
        # unequal half segments, from whichever end the wire is written
        spec ['loads'] = list (spec.get ('loads') or []) + [dict (k = 'skin', cond = float (10 ** rd.uniform (2.8, 5)), tag = None)]
    if n >= 2 and not sym and rd.random () < 0.35 and not any (g.get ('taper') for g in spec ['geo']):
        # one object (or two) of lossy or insulated conductor, the others bare: which wire carries the load must
        # not depend on order or direction (explicit tags then realise the order of the objects)
        objs = [int (x) for x in rd.permutation (n) [: int (rd.integers (1, min (n, 3)))]]
        kind = str (rd.choice (['skin', 'skin', 'ins']))
        spec ['dist'] = dict (objs = objs, kind = kind, cond = float (10 ** rd.uniform (3, 6)), eps = float (rd.uniform (1.5, 4)), rfac = float (rd.uniform (1.3, 3)))
        if kind == 'skin' and rd.random () < 0.65:
            # every wire of its own material (copper arms on a resistance-wire section): the loss of a junction pulse is
            # that of its two halves, each of the material of the wire it lies on
            spec ['dist']['objs']  = list (range (n))
            spec ['dist']['conds'] = {str (i): float (10 ** rd.uniform (2.5, 7.8)) for i in range (n)}
    return add_var (c, rng, spec)
# end def make

def add_var (c, rng, spec):
    n = len (spec ['geo'])
    # junction points written differently by every wire that ends there (coordinates that come out of different
    # computations: 0.3, 0.1 + 0.2, 0.7 - 0.4): each wire end moved by up to a fifth of the matching tolerance
    rf = np.random.default_rng ([c ['seed'], 64, c ['i']])
    if rf.random () < 0.35 and not spec.get ('sym') and not spec.get ('dist') and all (g ['k'] == 'w' and not g.get ('taper') for g in spec ['geo']) and not str (spec.get ('fam')).startswith (('ratio', 'collinear')):
        L    = min (np.linalg.norm (np.array (g ['p2']) - np.array (g ['p1'])) / g ['n'] for g in spec ['geo'])
        keep = [np.array (x ['at']) for x in (spec.get ('src') or []) + (spec.get ('loads') or []) if 'at' in x]
        spec ['exact_ends'] = [[list (g ['p1']), list (g ['p2'])] for g in spec ['geo']]
        for g in spec ['geo']:
            a, b = np.array (g ['p1'], float), np.array (g ['p2'], float)
            # (a wire that carries a source or load placed by location keeps its coordinates: its nodes are where they are looked for)
            if any (np.linalg.norm (np.cross (b - a, q - a)) < 1e-9 * np.linalg.norm (b - a) ** 2 and -1e-9 <= (q - a) @ (b - a) / ((b - a) @ (b - a)) <= 1 + 1e-9 for q in keep):
                continue
            for e in ('p1', 'p2'):
                p = np.array (g [e], float)
                if spec.get ('media') is not None and p [2] == 0:
                    continue
                d = rf.normal (size = 3)
                # (up to 0.2 of the tolerance, or - every third structure - up to 0.45: two ends then up to 0.9 apart,
                # the difference spread over all three coordinates)
                g [e] = [float (x) for x in p + d / np.linalg.norm (d) * (4.5e-4 if c ['i'] % 3 == 0 else 2e-4) * L * rf.random ()]
        spec ['fuzzy'] = True
    spec ['var'] = dict ( masks = [[int (x) for x in rng.integers (0, 2, n)] for k in range (2)]
                        , perm = [int (x) for x in rng.permutation (n)]
                        , tags = [int (x) for x in rng.permutation (n) + 1], explicit = bool (rng.random () < 0.5)
                        , split = [[int (rng.integers (0, n)), float (rng.random ())] for k in range (int (rng.integers (1, 3)))]
                        , pts = rng.normal (size = (2, 3)).tolist (), pdist = [float (rng.uniform (1.5, 4)), float (rng.uniform (4, 30))])
    # a tapered wire is reversed in the first reversal variant (taper end 1 <-> 2)
    for k, g in enumerate (spec ['geo']):
        if g.get ('taper') or g ['k'] == 'a':
            spec ['var']['masks'][0][k] = 1     # (and an arc is given from its other end)
    return gen.clean (spec)
# end def add_var

def symmetric (rng):
    """ structure symmetric about the plane x = 0 of a local frame, rotated at random """
    f, lam, segl, rad = gen.pick_scale (rng)
    R = gen.rot_matrix (rng)
    kind = str (rng.choice (['vee', 'T', 'H', 'tri']))
    geo, src = [], []
    P = lambda v: (R @ np.asarray (v, float)).tolist ()
    Mx = np.array ([-1, 1, 1.0])
    def pair (n, a, b):
        geo.append (gen.wire (n, R @ np.asarray (a, float), R @ np.asarray (b, float), rad))
        geo.append (gen.wire (n, R @ (np.asarray (a, float) * Mx), R @ (np.asarray (b, float) * Mx), rad))
    if kind == 'vee':
        n = int (rng.integers (3, 9))
        ang = np.radians (rng.uniform (25, 80))
        pair (n, [0, 0, 0], [n * segl * np.sin (ang), n * segl * np.cos (ang), 0])
        # feed: on the mirror plane in a wire that crosses it is not available here; feed both arms symmetrically
        k = int (rng.integers (1, n))
        at = np.array ([k * segl * np.sin (ang), k * segl * np.cos (ang), 0])
        d  = np.array ([np.sin (ang), np.cos (ang), 0])
        src = [dict (at = P (at), dir = P (d), v = [1.0, 0.3]), dict (at = P (at * Mx), dir = P (d * Mx), v = [1.0, 0.3])]
    elif kind == 'T':
        n, k = int (rng.integers (3, 8)), int (rng.integers (3, 8))
        pair (n, [0, 0, 0], [n * segl, 0, 0])
        geo.append (gen.wire (k, R @ np.zeros (3), R @ np.array ([0, 0, -k * segl]), rad))
        j = int (rng.integers (1, k))
        src = [dict (at = P ([0, 0, -j * segl]), dir = P ([0, 0, -1]), v = [0.7, -0.4])]
    elif kind == 'H':
        n = int (rng.integers (4, 10))
        d = max (0.15 * lam, 3 * segl)
        pair (n, [d / 2, -n * segl / 2, 0], [d / 2, n * segl / 2, 0])
        j = int (rng.integers (1, n))
        at = np.array ([d / 2, -n * segl / 2 + j * segl, 0])
        src = [dict (at = P (at), dir = P ([0, 1, 0]), v = [1.0, 0.0]), dict (at = P (at * Mx), dir = P ([0, 1, 0]), v = [1.0, 0.0])]
    else:
        n = int (rng.integers (2, 6))
        h = n * segl
        pair (n, [0, h, 0], [h * 0.8, 0, 0])
        geo.append (gen.wire (2 * n, R @ np.array ([-h * 0.8, 0, 0]), R @ np.array ([h * 0.8, 0, 0]), rad))
        src = [dict (at = P ([0, 0, 0]), dir = P ([1, 0, 0]), v = [1.0, 0.0])]
    spec = dict (f = f, geo = geo, fam = 'sym-' + kind, media = None, src = src, loads = [], feeds = [], sym = dict (R = R.tolist (), kind = kind))
    return spec
# end def symmetric

def variant (spec, mask = None, perm = None, tags = None, split = None):
    s = copy.deepcopy ({k: v for k, v in spec.items () if k not in ('var', 'sym')})
    geo = s ['geo']
    for i, g in enumerate (geo):
        g ['_id'] = i
    if split:
        for wi, frac in split:
            g = geo [wi]
            if g ['k'] != 'w' or g ['n'] < 2 or g.get ('done') or g.get ('taper'):
                continue
            n1 = 1 + int (frac * (g ['n'] - 1))
            n1 = min (max (n1, 1), g ['n'] - 1)
            p1, p2 = np.array (g ['p1']), np.array (g ['p2'])
            q  = p1 + (p2 - p1) * n1 / g ['n']
            a  = gen.wire (n1, p1, q, g ['r'])
            b  = gen.wire (g ['n'] - n1, q, p2, g ['r'])
            a ['done'] = b ['done'] = True
            a ['_id'] = b ['_id'] = g ['_id']
            geo [wi] = a
            geo.append (b)
        for g in geo:
            g.pop ('done', None)
    if mask:
        for g, r in zip (geo, mask + [0] * len (geo)):
            if r and g ['k'] == 'w':
                g ['p1'], g ['p2'] = g ['p2'], g ['p1']
                if g.get ('taper'):
                    g ['taper'] = [{1: 2, 2: 1, 3: 3} [g ['taper'][0]]] + g ['taper'][1:]
            elif r and g ['k'] == 'a':
                # an arc given from its other end: the same conductor
                g ['a1'], g ['a2'] = g ['a2'], g ['a1']
    if perm and len (perm) == len (geo):
        s ['geo'] = [geo [i] for i in perm]
    if tags and len (tags) == len (s ['geo']):
        for g, t in zip (s ['geo'], tags):
            g ['tag'] = t
    d = s.pop ('dist', None)
    if d:
        if tags and len (tags) == len (s ['geo']):
            # objects are ordered by tag: put the list into that order first
            s ['geo'] = [g for t, g in sorted (zip (tags, s ['geo']), key = lambda x: x [0])]
        # curves are collected before wires on the command line
        s ['geo'] = [g for g in s ['geo'] if g ['k'] != 'w'] + [g for g in s ['geo'] if g ['k'] == 'w']
        s ['loads'] = list (s.get ('loads') or [])
        for i, g in enumerate (s ['geo']):
            g ['tag'] = i + 1
            if g ['_id'] in d ['objs']:
                if d ['kind'] == 'skin':
                    s ['loads'].append (dict (k = 'skin', cond = (d.get ('conds') or {}).get (str (g ['_id']), d ['cond']), tag = i + 1))
                else:
                    s ['loads'].append (dict (k = 'ins', radius = d ['rfac'] * max (x ['r'] for x in s ['geo']), eps = d ['eps'], tag = i + 1))
    for g in s ['geo']:
        g.pop ('_id', None)
    if any (g.get ('taper') for g in s ['geo']):
        # --taper-wire names a tag: keep the order that the automatic tags would give (curves first)
        from pmv.oracles import georef
        order, tg = georef.object_tags (s ['geo'])
        for g, t in zip (order, tg):
            g ['tag'] = t
    return s
# end def variant

import contextlib

@contextlib.contextmanager
def own_terms_only ():
    """ experiment: Mininec.psi with the exact-kernel criterion confined to own terms (the observation point lies
        on the source (half) segment: d0 + d3 equals its length) """
    MM   = common.repo ()
    orig = MM.Mininec.psi
    def psi (self, vec2, vecv, k, scale, pidx, exact = False, fvs = 0):
        v2, vv = np.asarray (vec2, float), np.asarray (vecv, float)
        d0 = np.linalg.norm (v2, axis = -1)
        d3 = np.linalg.norm (vv, axis = -1)
        L  = np.linalg.norm (vv - v2, axis = -1)
        own = np.atleast_1d (d0 + d3 <= L * (1 + 1e-9))
        ex  = np.logical_and (np.atleast_1d (exact), own)
        return orig (self, vec2, vecv, k, scale, pidx, exact = ex, fvs = fvs)
    MM.Mininec.psi = psi
    try:
        yield
    finally:
        MM.Mininec.psi = orig
# end def own_terms_only

def exact_on_neighbour (m):
    """ True if an observation point of the matrix fill (a segment end = pulse point, or a segment midpoint) that
        does not lie on segment S itself satisfies the program's criterion for the on-wire (exact) kernel of S,
        (d0 + d3) / length (S) <= 1.1 with d0, d3 the distances to the ends of S or of one of its halves, on the
        same or a connected object. The criterion is meant for a segment's own term; where it catches a
        neighbour the result depends on the direction of the wires (thick wires: half of S integrated and
        doubled) or on which objects count as connected (thin wires: own-term formula or quadrature).
    """
    segs = [(g, sg) for g in m.geo for sg in g.segments]
    pts  = []
    for g, sg in segs:
        a, b = np.asarray (sg.p1, float), np.asarray (sg.p2, float)
        pts += [(g, a), (g, b), (g, (a + b) / 2)]
    for ga, sa in segs:
        a, b = np.asarray (sa.p1, float), np.asarray (sa.p2, float)
        L    = sa.seg_len
        mid  = (a + b) / 2
        d    = (b - a) / L
        for gb, x in pts:
            if not (gb is ga or ga.is_connected (gb) or gb.is_connected (ga)):
                continue
            u = (x - a) @ d
            if -1e-9 * L <= u <= (1 + 1e-9) * L and np.linalg.norm ((x - a) - u * d) <= 1e-9 * L:
                continue        # on S itself
            for s1, s2 in ((a, b), (a, mid), (mid, b)):
                if (np.linalg.norm (x - s1) + np.linalg.norm (x - s2)) / L <= 1.1:
                    return True
    return False
# end def exact_on_neighbour

def observe_all (m, pts):
    observe.solve (m)
    out = dict (field = observe.current_field (m), Z = [complex (s.impedance) for s in m.sources], cond = observe.cond_number (m))
    E, H = [], []
    for x in pts:
        common.guarded (lambda: m.compute_near_field (list (x), [1., 1., 1.], [1, 1, 1]), 'compute_near_field')
        E.append (np.asarray (m.e_field [0]))
        H.append (np.asarray (m.h_field [0]))
    out ['E'], out ['H'] = E, H
    out ['gain'] = np.array (observe.pattern (m).gain)
    return out
# end def observe_all

def check (c):
    spec = c if 'geo' in c else make (c)
    if spec is None:
        return dict (status = 'discard', reason = 'no feed by location')
    base = variant (spec)
    m0   = gen.build (base)
    ok, why, facts = gen.validity (m0, seg_max = 1 / 10., check_junction_ratio = None)
    if spec.get ('ratio'):
        # inside the domain the property states (joined wires), outside the modelling rules on segment ratio / radius
        why = [w for w in why if w not in ('adjacent segment ratio > 2.1', 'segment < 8 radii', 'segment < lambda/200')]
        ok  = not why
    elif any (g.get ('taper') for g in spec ['geo']):
        # short segments are what tapering is for (the floor of 8.5 radii and the ratio rule at the junctions stay)
        why = [w for w in why if w != 'segment < lambda/200']
        ok  = not why
    if not ok:
        return dict (status = 'discard', reason = 'validity: ' + why [0])
    var  = spec ['var']
    lmax = max (s.seg_len for g in m0.geo for s in g.segments)
    pts  = []
    ctr  = np.mean ([np.asarray (p.point, float) for p in m0.pulses], axis = 0)
    for u, d in zip (var ['pts'], var ['pdist']):
        u = np.asarray (u, float) / np.linalg.norm (u)
        if m0.media is not None:
            u [2] = abs (u [2]) + 0.1
        x = ctr + u * d * lmax
        for k in range (40):
            if nfref.min_distance (m0, x) >= 1.5:
                break
            x = x + u * lmax
        pts.append (x)
    o0 = observe_all (m0, pts)
    if not np.isfinite (o0 ['cond']) or o0 ['cond'] > 1e5:
        return dict (status = 'discard', reason = 'cond > 1e5')
    if not (m0.power > 0):
        return dict (status = 'discard', reason = 'sources absorb net power')
    viol = []
    mon  = {}
    worst = 0.0
    margins = {}
    famp = observe.feed_amp (m0)
    def judge (name, measured, allowed, msg, key = None):
        nonlocal worst
        mon [name] = mon.get (name, 0) + 1
        if key != observe.IMP_KEY:
            worst = max (worst, measured / allowed)
            margins [name.split (':') [0]] = max (margins.get (name.split (':') [0], 0.0), measured / allowed)
        if not (measured <= allowed) and len (viol) < 8:
            viol.append (dict (monitor = name, key = key or name.split (':') [0], msg = msg, measured = measured, allowed = allowed))
    n = len (base ['geo'])
    variants = [ ('reverse',  dict (mask = var ['masks'][0]))
               , ('reverse2', dict (mask = var ['masks'][1]))
               , ('permute',  dict (perm = var ['perm']) if not var ['explicit'] else dict (tags = var ['tags']))
               , ('split',    dict (split = var ['split']))
               , ('all',      dict (mask = var ['masks'][0], split = var ['split'], tags = None))
               ]
    kinds = set ()
    npulses = set ([len (m0.pulses)])
    for name, kw in variants:
        if name.startswith ('reverse') and not any (kw ['mask']):
            continue
        sv = variant (spec, **kw)
        if name == 'all':
            # permute the (now longer) object list as well
            k = len (sv ['geo'])
            rngp = np.random.default_rng ([k, n, 77])
            sv ['geo'] = [sv ['geo'][i] for i in rngp.permutation (k)]
        mv = gen.build (sv)
        npulses.add (len (mv.pulses))       # (a cut on a segment boundary turns an interior pulse into a junction pulse)
        ov = observe_all (mv, pts)
        tol = observe.tol_cond (max (o0 ['cond'], ov ['cond']))
        if tol is None:
            continue
        kinds.add (name.rstrip ('2'))
        d = observe.cmp_fields (o0 ['field'], ov ['field'])
        if d is None:
            viol.append (dict (monitor = 'currents:' + name, key = 'current-support', msg = 'variant %s: current field lives on a different support' % name))
            continue
        judge ('currents:' + name, d, tol, 'variant %s: currents differ %.3g (relative to max), cond %.3g' % (name, d, ov ['cond']))
        for za, zb in zip (o0 ['Z'], ov ['Z']):
            rel = abs (za - zb) / abs (za)
            judge ('impedance:' + name, rel, tol, 'variant %s: feed impedance %r vs %r (largest current / feed current = %.3g)' % (name, za, zb, famp)
                  , key = observe.imp_key (rel, tol, famp))
        for k in range (len (pts)):
            for nm, a, b in (('E', o0 ['E'][k], ov ['E'][k]), ('H', o0 ['H'][k], ov ['H'][k])):
                judge ('near-%s:%s' % (nm, name), np.linalg.norm (a - b) / np.linalg.norm (a), tol, 'variant %s: %s at %s differs by %.3g' % (name, nm, np.round (pts [k], 4), np.linalg.norm (a - b) / np.linalg.norm (a)))
        # field amplitudes relative to the main beam: in a null a current error of the size of the tolerance is a
        # large factor of a small number
        ga, gb = o0 ['gain'][..., 2], ov ['gain'][..., 2]
        fa, fb = 10 ** (np.maximum (ga, -300) / 20), 10 ** (np.maximum (gb, -300) / 20)
        lin = float (np.abs (fa - fb).max () / fa.max ())
        judge ('gain:' + name, lin, 2 * tol + d * observe.power_ratio (mv), 'variant %s: field pattern differs by %.3g of the main beam' % (name, lin))
    # ---- a wire cut into two objects whose facing ends coincide only within the matching tolerance (the second piece
    # starts 0.75 tolerances away from the cut, the difference spread over all three coordinates): the pieces are
    # joined (documented rule: closer than 1e-3 of the shortest segment) - same number of pulses, same currents up to
    # the coarse level of 5 % (the fine comparison of approximately joined ends is the fuzzy stratum's business)
    cut = [wi for wi, g in enumerate (spec ['geo']) if g ['k'] == 'w' and g ['n'] >= 2 and not g.get ('taper')]
    if cut and not spec.get ('sym') and not spec.get ('dist'):
        wi  = cut [int (common.sha ([g ['n'] for g in spec ['geo']]), 16) % len (cut)]
        sv  = variant (spec, split = [[wi, 0.5]])
        tl  = 1e-3 * min (float (s.seg_len) for g in m0.geo for s in g.segments)
        pc  = sv ['geo'][-1]
        srcp = [np.array (x ['at']) for x in (spec.get ('src') or []) + (spec.get ('loads') or []) if 'at' in x]
        a_, b_ = np.array (pc ['p1']), np.array (pc ['p2'])
        carries = any (np.linalg.norm (np.cross (b_ - a_, q - a_)) < 1e-9 * np.linalg.norm (b_ - a_) ** 2 and 1e-9 < (q - a_) @ (b_ - a_) / ((b_ - a_) @ (b_ - a_)) <= 1 + 1e-9 for q in srcp)
        if not carries:
            pc ['p1'] = [float (x) for x in np.array (pc ['p1']) + 0.75 * tl * np.array ([1.0, -1.0, 1.0 if m0.media is None else 0.0]) / np.sqrt (3.0 if m0.media is None else 2.0)]
            try:
                mv = gen.build (sv)
                mon ['approximate-cut'] = 1
                if len (mv.pulses) != len (m0.pulses):
                    viol.append (dict (monitor = 'approximate-cut', key = 'approximate-cut-not-joined', msg = 'wire %d cut into two objects whose facing ends are 0.75 matching tolerances apart: %d pulses, the uncut structure has %d' % (wi + 1, len (mv.pulses), len (m0.pulses))))
                else:
                    observe.solve (mv)
                    d = observe.cmp_fields (o0 ['field'], observe.current_field (mv, unit = observe.min_seg (m0)))
                    if d is None or d > 0.05:
                        viol.append (dict (monitor = 'approximate-cut', key = 'approximate-cut-currents', msg = 'wire %d cut into two objects whose facing ends are 0.75 matching tolerances apart: currents differ by %r of the largest' % (wi + 1, d), measured = (np.inf if d is None else float (d)), allowed = 0.05))
            except gen.Locate_Error:
                pass
    # ---- mirror symmetry
    if spec.get ('sym'):
        R  = np.array (spec ['sym']['R'])
        M  = R @ np.diag ([-1, 1, 1.0]) @ R.T
        f0 = o0 ['field']
        # a feed lying in the mirror plane and pointing across it maps onto itself with reversed
        # reference direction: the current field is then odd under the mirror map (J (M x) = -M J (x))
        par = -1.0 if spec ['sym']['kind'] == 'tri' else 1.0
        fm = observe.current_field (m0, T = lambda x: M @ x, Tv = lambda v: par * (M @ v))
        d  = observe.cmp_fields (f0, fm)
        tol = observe.tol_cond (o0 ['cond'])
        kinds.add ('mirror')
        if d is None:
            viol.append (dict (monitor = 'mirror', key = 'mirror-support', msg = 'mirrored current field lives on a different support'))
        else:
            judge ('mirror', d, tol, 'mirror-symmetric structure with symmetric feed: currents deviate %.3g from their mirror image' % d)
    if not kinds:
        return dict (status = 'discard', reason = 'no variant')
    sig = gen.signature (base, m0, extra = ['+'.join (sorted (kinds))] + (['dist-' + spec ['dist']['kind']] if spec.get ('dist') else []))
    jt = [x for x in gen.junction_clusters (m0) if len (x) > 1]
    if viol and not spec.get ('sym') and exact_on_neighbour (m0):
        # known finding: the on-wire (exact) kernel, meant for a segment's own term, is switched on by
        # (d0 + d3) / length <= 1.1, which points of neighbouring segments also satisfy. Classified as that finding
        # only if the same descriptions agree once the criterion is confined to own terms (observation point on
        # the source segment) - the experiment is made on the spot with a wrapped Mininec.psi
        with own_terms_only ():
            f0 = None
            agree = True
            for name, kw in [('base', {})] + variants:
                if name.startswith ('reverse') and not any (kw ['mask']):
                    continue
                sv = variant (spec, **kw)
                if name == 'all':
                    k = len (sv ['geo'])
                    sv ['geo'] = [sv ['geo'][i] for i in np.random.default_rng ([k, n, 77]).permutation (k)]
                mv = gen.build (sv)
                observe.solve (mv)
                fv = observe.current_field (mv)
                if f0 is None:
                    f0, c0 = fv, observe.cond_number (mv)
                    continue
                d = observe.cmp_fields (f0, fv)
                t = observe.tol_cond (max (c0, observe.cond_number (mv)))
                if d is None or t is None or d > t:
                    agree = False
                    break
        if agree:
            for v in viol:
                if v ['key'] != observe.IMP_KEY:
                    v ['key'] = 'exact-kernel-on-short-neighbour'
    if viol and spec.get ('fuzzy') and spec.get ('exact_ends') and all (v ['key'] != 'current-support' for v in viol) \
       and all (v.get ('measured', np.inf) <= (1e4 if str (v ['key']).startswith ('near') else 1000) * v.get ('allowed', 0) for v in viol if v ['key'] != observe.IMP_KEY):
        # known finding: wire ends that meet only within the matching tolerance (every wire writes the junction point
        # a little differently). For thick wires (radius above 1e-4 wavelengths, exact kernel) the result then depends
        # on the direction of the wires at the level of 1e-3 .. 2e-1 of the largest current (thorough tier: 0.23 at condition
        # number 2.4e3); thin wires show it at the level of 1e-3 in near fields only (the junction pulse sits on the end of
        # the object that owns it, the other wires are bent to that point); junctions written with identical coordinates do
        # not show it. Classified as that finding only if the model has the number of pulses of the same structure with exactly coinciding ends, the excess is moderate
        # and the same descriptions agree once the ends coincide exactly (experiment made on the spot).
        lam0 = gen.C_MHZ / m0.f
        if True:
            s_ex = copy.deepcopy ({k: v for k, v in spec.items () if k not in ('fuzzy', 'exact_ends')})
            for g, (a, b) in zip (s_ex ['geo'], spec ['exact_ends']):
                g ['p1'], g ['p2'] = list (a), list (b)
            m_ex = gen.build (variant (s_ex))
            if npulses == set ([len (m_ex.pulses)]):
                ex = check (s_ex)
                if ex.get ('status') == 'held':
                    for v in viol:
                        if v ['key'] != observe.IMP_KEY:
                            v ['key'] = 'approximate-junction-thick-wire'
                            v ['msg'] += ' [ends written with identical coordinates: worst margin %.3g]' % (ex.get ('margin') or 0.0)
    if viol and not spec.get ('_g8') and all (str (v ['key']).split (':') [0] in ('currents', 'impedance', 'near-E', 'near-H', 'gain', observe.IMP_KEY) for v in viol) \
       and all (v.get ('measured', np.inf) <= 4 * v.get ('allowed', 0) for v in viol if v ['key'] != observe.IMP_KEY):
        # known finding (as in C05): on a straight, equally segmented wire pairs of pulses sit exactly on a threshold of
        # the rule that chooses the order of the Gauss quadrature, and the last bit of the coordinates - which differs
        # between two descriptions - decides between the 8- and the 4-point rule for a band of the matrix. Classified as
        # that finding only if such pairs exist, the excess is small and the same descriptions agree within the stated
        # tolerance once every integral uses the 8-point rule (experiment made on the spot)
        if observe.threshold_pairs (gen.build (variant (spec))) > 0:
            with observe.gauss_order_fixed ():
                r8 = check (dict (spec, _g8 = True))
            mon ['experiment.gauss-order-fixed'] = 1
            if r8.get ('status') == 'held':
                for v in viol:
                    if v ['key'] != observe.IMP_KEY:
                        v ['key'] = 'quadrature-order-on-threshold'
                        v ['msg'] += ' [with the 8-point rule everywhere: worst margin %.3g]' % (r8.get ('margin') or 0.0)
    skin_all = [l for l in (spec.get ('loads') or []) if l.get ('k') in ('skin', 'ins') and 'at' not in l]
    if viol and (spec.get ('dist') or skin_all):
        # known finding: a lossy / insulated wire on a junction of three or more wires. The deviation is classified as
        # that finding only if a loaded object takes part in such a junction and the same descriptions agree
        # once the distributed load is taken away
        loaded = [gi for gi, g in enumerate (m0.geo) if any (l.__class__.__name__ in ('Skin_Effect_Load', 'Insulation_Load') and l.geobj is g for l in m0.loads)]
        if any (len (cl) >= 3 and any (gi in loaded for gi, e in cl) for cl in jt):
            bare = check (dict ({k: v for k, v in spec.items () if k != 'dist'}, loads = [l for l in (spec.get ('loads') or []) if l not in skin_all]))
            if bare.get ('status') == 'held':
                for v in viol:
                    if v ['key'] != observe.IMP_KEY:
                        v ['key'] = 'distributed-load-on-junction-of-three'
                margins = {k: v for k, v in (bare.get ('margins') or {}).items ()}
                worst   = bare.get ('margin') or 0.0
    nontrivial = bool (jt) or m0.media is not None
    return dict ( status = 'violation' if viol else 'held', sig = sig, nontrivial = nontrivial, margin = worst, margins = margins
                , monitors = {k.split (':') [0]: v for k, v in mon.items ()}, violations = viol, info = dict (cond = o0 ['cond'], variants = sorted (kinds)))
# end def check
