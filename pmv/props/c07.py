""" C07 - currents are linear in the source voltages; source data are V/I
    and Re (V I*) / 2.  Algebraic oracle over fresh runs of the real code.
"""
import copy
import numpy as np
from pmv import common, gen, observe, corpus
from pmv.oracles import report

ID   = 'C07'
RULE = ( 'random structures (free space, ideal ground, real ground; interior, two-wire-junction '
         'and grounded feeds) with 1..4 complex sources; per case: scaling by a complex factor '
         '(incl. purely imaginary, 1e-6..1e6), superposition of single-source runs (others at 0 V '
         'and others absent), source data vs V/I and Re(VI*)/2, SOURCE DATA block parsed back. '
         'non-trivial = >= 2 sources, or a grounded/junction feed, or a non-real factor; '
         'distinct = feature signature incl. number of sources and feed kinds'
       )
MIN_EVAL = dict (quick = 100, thorough = 1500)
ANCHORS  = ['Mininec.compute_rhs', 'Mininec.compute_currents', 'Excitation.as_mininec', 'Mininec.register_source']
ANCHORS_REQUIRED = ['Mininec.compute_rhs', 'Excitation.as_mininec']
ASSUMPTIONS = [ 'numpy.linalg.solve/cond trusted'
              , 'tolerance 1e-9 * cond(Z) relative (measured 1e-15)'
              ]

def plan (tier, seed):
    n = 240 if tier == 'quick' else 4000
    return [dict (i = i, seed = seed) for i in range (n)] + corpus.plan_cases (seed, tier, 1, 3)
# end def plan

def make (spec0):
    rng = np.random.default_rng ([spec0 ['seed'], 7, spec0 ['i']])
    if 'corpus' in spec0:
        spec = corpus.make (spec0, 7)
        rng  = corpus.rng_of (spec0, 7)
        # a second source half way along the pulse list
        m0 = gen.build (spec)
        N, p0 = len (m0.pulses), m0.sources [0].idx
        if N > 2:
            spec ['src'] = spec ['src'] [:1] + [dict (p = [(p0 + N // 2) % N + 1], v = gen.rand_voltage (rng))]
        mag = 10 ** rng.uniform (-6, 6) if rng.random () < 0.5 else rng.uniform (0.5, 2)
        ph  = rng.choice ([0, np.pi / 2, np.pi, rng.uniform (-np.pi, np.pi)])
        spec ['factor'] = [float (mag * np.cos (ph)), float (mag * np.sin (ph))]
        return spec
    env = rng.choice (['free', 'free', 'ideal', 'ideal', 'real'])
    if env == 'free':
        spec = gen.fam_free (rng, equal_junction = bool (rng.random () < 0.5))
    else:
        med = 'ideal'
        if env == 'real':
            med = [[float (rng.uniform (2, 80)), float (10 ** rng.uniform (-4, 0)), 0.0]]
        spec = gen.fam_ground (rng, media = med)
    if rng.random () < 0.1:
        spec = gen.curve_spec (rng) or spec
    halfloop = spec0 ['i'] % 10 == 6
    if halfloop:
        # an arc standing on the ground plane with both feet, fed at a foot (either one) or up the arc
        from pmv.props import c03
        spec = c03.make_half_loop (dict (spec0))
        spec ['feeds'] = []
    else:
        gen.add_sources (rng, spec, nmax = 4)
    # in-phase arrays: several sources with exactly the same voltage (or all but one)
    re = np.random.default_rng ([spec0 ['seed'], 73, spec0 ['i']])
    if len (spec ['src']) > 1 and re.random () < 0.3:
        for s in spec ['src'] [1: len (spec ['src']) if re.random () < 0.6 else -1] or spec ['src'] [1:]:
            s ['v'] = list (spec ['src'][0]['v'])
    gen.taper_some (np.random.default_rng ([spec0 ['seed'], 71, spec0 ['i']]), spec, 0.15)
    rl = np.random.default_rng ([spec0 ['seed'], 72, spec0 ['i']])
    if rl.random () < 0.3:
        # a lumped load of some kind in series with a source (on its pulse): the source data stay V / I of that pulse
        sr = spec ['src'][int (rl.integers (0, len (spec ['src'])))]
        if 'at' in sr:
            kind = str (rl.choice (['z', 'rlc', 'trap', 'lap']))
            ld = dict (z = dict (k = 'z', z = [float (10 ** rl.uniform (0, 2.5)), float (rl.uniform (-200, 200))])
                      , rlc = dict (k = 'rlc', R = float (10 ** rl.uniform (0, 2)), L = float (10 ** rl.uniform (-7, -5.5)), C = float (10 ** rl.uniform (-11, -9.5)))
                      , trap = dict (k = 'trap', R = float (10 ** rl.uniform (-1, 1)), L = float (10 ** rl.uniform (-7, -5.5)), C = float (10 ** rl.uniform (-12, -10)))
                      , lap = dict (k = 'lap', a = [1.0, float (10 ** rl.uniform (-9, -7))], b = [float (10 ** rl.uniform (0, 2)), float (10 ** rl.uniform (-7, -5))])) [kind]
            spec ['loads'] = [dict (ld, at = sr ['at'])]
    mag = 10 ** rng.uniform (-6, 6) if rng.random () < 0.5 else rng.uniform (0.5, 2)
    ph  = rng.choice ([0, np.pi / 2, np.pi, rng.uniform (-np.pi, np.pi)])
    spec ['factor'] = [float (mag * np.cos (ph)), float (mag * np.sin (ph))]
    # explicit tags with gaps (2, 4, 6 or 3, 6, 9 in the order of the objects) on a quarter of the structures without tapers
    rt = np.random.default_rng ([spec0 ['seed'], 74, spec0 ['i']])
    if rt.random () < 0.25 and not any (g.get ('taper') for g in spec ['geo']) and all (g ['k'] == 'w' for g in spec ['geo']):
        k = int (rt.integers (2, 4))
        for i, g in enumerate (spec ['geo']):
            g ['tag'] = (i + 1) * k
    return gen.clean (spec)
# end def make

def rel (a, b):
    a = np.asarray (a)
    b = np.asarray (b)
    n = max (np.abs (a).max (), np.abs (b).max (), 1e-300)
    return float (np.abs (a - b).max () / n)
# end def rel

def check (spec0):
    spec = spec0 if 'geo' in spec0 else make (spec0)
    m = gen.build (spec)
    ok, why, facts = gen.validity (m, seg_max = 1 / 10., check_junction_ratio = None)
    observe.solve (m)
    cond = observe.cond_number (m)
    if not np.isfinite (cond) or cond > 1e7:
        return dict (status = 'discard', reason = 'cond > 1e7')
    tol   = 1e-9 * max (cond, 1.0)
    viol  = []
    mon   = {}
    worst = 0.0
    margins = {}
    def judge (name, measured, allowed, msg, key = None):
        nonlocal worst
        mon [name] = mon.get (name, 0) + 1
        worst = max (worst, measured / allowed)
        margins [name.split (':') [0]] = max (margins.get (name.split (':') [0], 0.0), measured / allowed)
        if not (measured <= allowed):
            viol.append (dict ( monitor = name, key = key or name, msg = msg
                              , measured = measured, allowed = allowed))
    I0  = np.array (m.current)
    ff0 = observe.pattern (m)
    g0  = np.array (ff0.gain)
    kinds = []
    # (a) source data
    txt = common.guarded (m.source_data_as_mininec, 'source_data_as_mininec')
    rep = report.parse (txt)
    if len (rep ['source_data']) != len (m.sources):
        viol.append (dict (monitor = 'source-data-block', key = 'source-data-count'
                          , msg = '%d source blocks for %d sources' % (len (rep ['source_data']), len (m.sources))))
    for k, s in enumerate (m.sources):
        p  = m.pulses [s.idx]
        kinds.append ('g' if p.ground.any () else ('j' if p.geo [0] is not p.geo [1] else 'i'))
        V  = complex (s.voltage)
        I  = complex (m.current [s.idx])
        zz = V / I
        pp = 0.5 * (V * np.conj (I)).real
        judge ('impedance=V/I', abs (complex (s.impedance) - zz) / abs (zz), 1e-12, 'source %d impedance %r != V/I %r' % (k, s.impedance, zz))
        judge ('power=Re(VI*)/2', abs (s.power - pp) / (0.5 * abs (V) * abs (I)), 1e-12, 'source %d power %r != %r' % (k, s.power, pp))
        if k < len (rep ['source_data']):
            b = rep ['source_data'][k]
            try:
                vals = dict ( pulse = int (b ['pulse'])
                            , v = complex (report.num (b ['v'][0]), report.num (b ['v'][1]))
                            , i = complex (report.num (b ['i'][0]), report.num (b ['i'][1]))
                            , z = complex (report.num (b ['z'][0]), report.num (b ['z'][1]))
                            , p = report.num (b ['p']))
            except Exception as e:
                viol.append (dict (monitor = 'source-data-block', key = 'source-data-parse', msg = 'unparsable: %r (%s)' % (b, e)))
                continue
            if vals ['pulse'] != s.idx + 1:
                viol.append (dict (monitor = 'source-data-block', key = 'source-data-pulse'
                                  , msg = 'block names pulse %d, source is on pulse %d' % (vals ['pulse'], s.idx + 1)))
            # printed with seven digits per component (six below 1, i. e. 1e-6 absolute)
            for nm, got, want in (('v', vals ['v'], V), ('i', vals ['i'], I), ('z', vals ['z'], zz)):
                judge ('block.' + nm, abs (got - want), 7e-6 * abs (want) + 1.5e-6 * (nm != 'i')
                      , 'SOURCE DATA %s %r vs %r' % (nm, got, want), key = 'source-data-' + nm)
            judge ('block.p', abs (vals ['p'] - pp), 5e-6 * abs (pp) * 1.01 + 1e-300
                  , 'SOURCE DATA power %r vs %r' % (vals ['p'], pp), key = 'source-data-p')
    # (b) scaling
    c  = complex (*spec ['factor'])
    s2 = copy.deepcopy (spec)
    for s in s2 ['src']:
        v = complex (*s ['v']) * c
        s ['v'] = [v.real, v.imag]
    m2 = gen.build (s2)
    observe.solve (m2)
    judge ('scaling.currents', rel (np.array (m2.current), c * I0), tol, 'I (cV) != c I (V), factor %r' % c)
    for a, b in zip (m.sources, m2.sources):
        judge ('scaling.impedance', abs (a.impedance - b.impedance) / abs (a.impedance), tol, 'impedance changed under voltage scaling')
    g2 = np.array (observe.pattern (m2).gain)
    judge ('scaling.gain', observe.gain_dev_db (g0 [..., 2], g2 [..., 2]) + 1e-300, max (1e-6, 10 * tol), 'dBi pattern changed under voltage scaling')
    # the dBi pattern is a property of the antenna, whatever field strength table is asked for with it: requests
    # that name a power level and a distance (the V/m table refers to them) show the same dBi values
    lvl = float (10 ** (((len (I0) * 7) % 13) / 2.0 - 3))
    g3 = np.array (observe.pattern (m2, pwr = lvl, dist = 10.0 * lvl).gain)
    judge ('scaling.gain.level', observe.gain_dev_db (g0 [..., 2], g3 [..., 2]) + 1e-300, max (1e-6, 10 * tol)
          , 'dBi pattern of the scaled sources requested with power level %.3g W and distance %.3g m differs from the pattern of the unscaled sources' % (lvl, 10 * lvl))
    # (c) superposition: each source alone, others at 0 V / others absent
    if len (spec ['src']) > 1:
        for mode in ('zero', 'absent'):
            Is = np.zeros (len (I0), complex)
            for k in range (len (spec ['src'])):
                s3 = copy.deepcopy (spec)
                if mode == 'zero':
                    for j, s in enumerate (s3 ['src']):
                        if j != k:
                            s ['v'] = [0.0, 0.0]
                else:
                    s3 ['src'] = [s3 ['src'][k]]
                m3 = gen.build (s3)
                observe.solve (m3)
                Is += np.array (m3.current)
            judge ('superposition.' + mode, rel (Is, I0), tol, 'sum of single-source responses != joint response (%s)' % mode)
        # same model object, sources replaced between solves (the way the
        # repository's own doctests reuse a model)
        MM  = common.repo ()
        src = [(s.idx, complex (s.voltage)) for s in m.sources]
        Is  = np.zeros (len (I0), complex)
        for idx, v in src:
            m.sources = []
            common.guarded (lambda: m.register_source (MM.Excitation (v), idx), 'register_source')
            observe.solve (m)
            Is += np.array (m.current)
        judge ('superposition.same-object', rel (Is, I0), tol, 'sum of single-source responses on one reused model object != joint response')
        m.sources = []
        for idx, v in src:
            m.register_source (MM.Excitation (v * c), idx)
        observe.solve (m)
        judge ('scaling.same-object', rel (np.array (m.current), c * I0), tol, 'I (cV) != c I (V) on a reused model object')
    # (d) the same sources named the other way - as k-th pulse of an object (command line form k,tag), all of them or
    # every second one - drive the same pulses with the same voltages: same number of sources, same currents
    src = [(s.idx, complex (s.voltage)) for s in m.sources] if len (spec ['src']) == 1 else src
    rel_form = []
    for idx, v in src:
        hit = [(g.tag, k) for g in m.geo for k, p in enumerate (g.pulses) if p.idx == idx]
        rel_form.append (hit [0] if hit else None)
    if all (x is not None for x in rel_form) and all (g.tag is not None for g in m.geo):
        for mode in ('per-object', 'mixed'):
            s4 = copy.deepcopy (spec)
            s4 ['src'] = []
            for n, ((idx, v), (tag, k)) in enumerate (zip (src, rel_form)):
                if mode == 'mixed' and n % 2:
                    s4 ['src'].append (dict (p = [idx + 1], v = [v.real, v.imag]))
                else:
                    s4 ['src'].append (dict (p = [k + 1, tag], v = [v.real, v.imag]))
            m4 = gen.build (s4)
            if len (m4.sources) != len (src):
                viol.append (dict (monitor = 'forms.' + mode, key = 'source-count', msg = '%d sources given as %s, the model has %d' % (len (src), [x ['p'] for x in s4 ['src']], len (m4.sources))))
                continue
            observe.solve (m4)
            judge ('forms.' + mode, rel (np.array (m4.current), I0), tol, 'sources given as %s: currents differ from the same sources given by absolute pulse number' % ([x ['p'] for x in s4 ['src']],))
            if len (src) == 1:
                break
    # (e) a voltage given on the command line without a pulse drives the program's default pulse (5) with that voltage
    if len (I0) >= 5:
        V  = complex (src [0][1]) * (0.7 - 0.4j)
        a5 = [x for x in gen.to_argv (dict (spec, src = [], loads = [l for l in spec.get ('loads') or [] if 'at' not in l]), with_sources = False)]
        i5 = a5.index ('--excitation-pulse')
        a5 = a5 [:i5] + a5 [i5 + 2:] + ['--excitation-voltage=' + gen.cplx (V.real, V.imag)]
        m5 = common.build_argv (a5)
        mon ['default-pulse'] = 1
        if len (m5.sources) != 1 or m5.sources [0].idx != 4 or abs (complex (m5.sources [0].voltage) - V) > 1e-12 * abs (V):
            viol.append (dict (monitor = 'default-pulse', key = 'default-pulse-voltage', msg = '--excitation-voltage=%r without --excitation-pulse: sources %r' % (V, [(x.idx + 1, complex (x.voltage)) for x in m5.sources])))
        else:
            observe.solve (m5)
            zz = V / complex (m5.current [4])
            judge ('default-pulse', abs (complex (m5.sources [0].impedance) - zz) / abs (zz), 1e-12, 'default pulse: impedance %r != V / I = %r' % (m5.sources [0].impedance, zz))
    # (f) the same voltages written as magnitude and phase in degrees, with a negative magnitude (and the phase
    # turned by 180 degrees): same complex voltage, same currents, source power 1/2 Re (V I*) with its sign
    MM = common.repo ()
    m6 = gen.build (spec)
    m6.sources = []
    ok6 = True
    for idx, v in src:
        e = MM.Excitation (-abs (v), float (np.degrees (np.angle (v))) + 180.0)
        if abs (complex (e.voltage) - v) > 1e-12 * abs (v):
            viol.append (dict (monitor = 'magnitude-phase', key = 'excitation-voltage', msg = 'Excitation (%r, %r) has voltage %r, expected %r' % (-abs (v), float (np.degrees (np.angle (v))) + 180.0, e.voltage, v)))
            ok6 = False
        common.guarded (lambda: m6.register_source (e, idx), 'register_source')
    if ok6 and src:
        observe.solve (m6)
        judge ('magnitude-phase', rel (np.array (m6.current), I0), tol, 'sources given as negative magnitude and phase: currents differ from the same complex voltages')
        P6 = 0.0
        for s6 in m6.sources:
            pp = 0.5 * (complex (s6.voltage) * np.conj (complex (m6.current [s6.idx]))).real
            P6 += pp
            judge ('magnitude-phase.power', abs (s6.power - pp) / (0.5 * abs (s6.voltage) * abs (m6.current [s6.idx]) + 1e-300), 1e-12, 'source given as negative magnitude and phase: power %r, 1/2 Re (V I*) = %r' % (s6.power, pp))
        judge ('magnitude-phase.power', abs (m6.power - P6) / (abs (P6) + 1e-300), 1e-9, 'input power %r, sum of the sources %r' % (m6.power, P6))
    # (g) one Excitation object handed over for two pulses: refused, or two sources of that voltage - never a model
    # whose listed sources and whose right-hand side disagree
    N7 = len (m.pulses)
    if src and N7 >= 3:
        m7 = gen.build (spec)
        m7.sources = []
        i0 = src [0][0]
        i1 = (i0 + 1 + (int (abs (src [0][1]) * 1e6) % (N7 - 1))) % N7
        e7 = MM.Excitation (src [0][1])
        m7.register_source (e7, i0)
        mon ['shared-excitation'] = 1
        try:
            m7.register_source (e7, i1)
            refused = False
        except Exception:
            refused = True
        if not refused:
            observe.solve (m7)
            m8 = gen.build (spec)
            m8.sources = []
            m8.register_source (MM.Excitation (src [0][1]), i0)
            m8.register_source (MM.Excitation (src [0][1]), i1)
            observe.solve (m8)
            judge ('shared-excitation', rel (np.array (m7.current), np.array (m8.current)), tol, 'one Excitation object registered for pulses %d and %d is accepted: currents differ from two sources of that voltage (sources listed on pulses %s)' % (i0 + 1, i1 + 1, [x.idx + 1 for x in m7.sources]))
    sig = gen.signature (spec, m, extra = ['feeds' + ''.join (sorted (kinds)), 'valid%d' % ok])
    nontrivial = len (spec ['src']) > 1 or ('g' in kinds) or ('j' in kinds) or abs (c.imag) > 0
    return dict ( status = 'violation' if viol else 'held', sig = sig, nontrivial = bool (nontrivial)
                , margin = worst, margins = margins, monitors = mon, violations = viol
                , info = dict (cond = cond, n = len (I0), factor = spec ['factor']))
# end def check
