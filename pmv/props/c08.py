""" C08 - loads act as the series circuit elements they describe.
    Exact rational circuit reference, closed forms of the README with
    scaled Bessel functions, feed-impedance differences, neutral elements,
    loaded monopole = half the loaded dipole.
"""
import copy
import numpy as np
from fractions import Fraction
from scipy.special import jve
from pmv import common, gen, observe

ID   = 'C08'
RULE = ( 'case kinds: (circuit) RLC / trap / Laplace loads with R, L, C over 12 decades and f = 0.1..1000 MHz against exact '
         'rational evaluation, through the classes and through the command line; (series) single-source models of all '
         'families (interior, junction, grounded feed) with one to three lumped loads of any kind on the feed pulse: feed '
         'impedance rises by exactly the sum of the load impedances; (neutral) zero load, eps_r = 1 insulation, sigma = 1e30, '
         'sigma vs rho = 1 / sigma; (dist) skin-effect and insulation loads on all or tagged wires incl. junctions of different '
         'radii and grounded pulses: per-pulse impedance vs closed form times the conductor length the pulse represents, '
         'loaded monopole vs half the loaded dipole. non-trivial = every case; distinct = (kind, load kinds, feed kind, env)'
       )
MIN_EVAL = dict (quick = 300, thorough = 6000)
ANCHORS  = ['Mininec.compute_impedance_matrix_loads', 'Laplace_Load.impedance', 'Series_RLC_Load.__init__', 'Trap_Load.__init__'
           , 'Skin_Effect_Load.impedance', 'Insulation_Load.impedance', 'Mininec.register_load', 'Mininec.fix_distributed_loads']
ANCHORS_REQUIRED = ['Mininec.compute_impedance_matrix_loads', 'Laplace_Load.impedance', 'Skin_Effect_Load.impedance', 'Insulation_Load.impedance']
ASSUMPTIONS = [ 'scipy.special.jve (exponentially scaled Bessel functions) trusted for the skin-effect closed form'
              , 'circuit reference: polynomials in s = j w evaluated in exact rational arithmetic on the float value of w'
              ]
MU0 = 1.25663706127e-6

def plan (tier, seed):
    k = 1 if tier == 'quick' else 20
    out = []
    out += [dict (kind = 'circuit', i = i, seed = seed) for i in range (200 * k)]
    out += [dict (kind = 'series',  i = i, seed = seed) for i in range (150 * k)]
    out += [dict (kind = 'neutral', i = i, seed = seed) for i in range (40 * k)]
    out += [dict (kind = 'dist',    i = i, seed = seed) for i in range (120 * k)]
    out += [dict (kind = 'forms',   i = i, seed = seed) for i in range (50 * k)]
    return out
# end def plan

# ------------------------------------------------------------------ exact circuits

def cfrac (re, im = 0):
    return (Fraction (re), Fraction (im))
def cadd (a, b):
    return (a [0] + b [0], a [1] + b [1])
def cmul (a, b):
    return (a [0] * b [0] - a [1] * b [1], a [0] * b [1] + a [1] * b [0])
def cdiv (a, b):
    d = b [0] * b [0] + b [1] * b [1]
    return ((a [0] * b [0] + a [1] * b [1]) / d, (a [1] * b [0] - a [0] * b [1]) / d)
def cfloat (a):
    return complex (float (a [0]), float (a [1]))

def poly (coeff, s):
    acc = cfrac (0)
    p   = cfrac (1)
    mag = 0.0
    for c in coeff:
        t   = cmul (cfrac (Fraction (float (c))), p)
        acc = cadd (acc, t)
        mag += abs (cfloat (t))
        p   = cmul (p, s)
    return acc, mag
# end def poly

def exact_laplace (a, b, f):
    w = Fraction (float (2 * np.pi * f * 1e6))
    s = (Fraction (0), w)
    num, mn = poly (b, s)
    den, md = poly (a, s)
    z = cfloat (cdiv (num, den))
    # cancellation factor: how much larger the terms are than their sums
    kappa = max (mn / max (abs (cfloat (num)), 1e-300), md / max (abs (cfloat (den)), 1e-300), 1.0)
    return z, kappa
# end def exact_laplace

def exact_rlc (R, L, C, f):
    R, L = R or 0.0, L or 0.0
    if C:
        return exact_laplace ([0.0, C], [1.0, R * C, L * C], f) if False else _rlc (R, L, C, f)
    return exact_laplace ([1.0], [R, L], f)
# end def exact_rlc

def _rlc (R, L, C, f):
    """ R + s L + 1 / (s C) in exact arithmetic """
    w = Fraction (float (2 * np.pi * f * 1e6))
    s = (Fraction (0), w)
    z = cadd (cadd (cfrac (Fraction (float (R))), cmul (cfrac (Fraction (float (L))), s)), cdiv (cfrac (1), cmul (cfrac (Fraction (float (C))), s)))
    zl = float (w) * L
    zc = 1 / (float (w) * C)
    kappa = max ((abs (R) + zl + zc) / max (abs (cfloat (z)), 1e-300), 1.0)
    return cfloat (z), kappa
# end def _rlc

def exact_trap (R, L, C, f):
    """ (R + s L) parallel to 1 / (s C) = (R + s L) / (1 + s R C + s^2 L C) """
    w = Fraction (float (2 * np.pi * f * 1e6))
    s = (Fraction (0), w)
    Rf, Lf, Cf = (cfrac (Fraction (float (x))) for x in (R, L, C))
    num = cadd (Rf, cmul (Lf, s))
    den = cadd (cadd (cfrac (1), cmul (cmul (s, Rf), Cf)), cmul (cmul (cmul (s, s), Lf), Cf))
    z = cfloat (cdiv (num, den))
    wl, rc, lc = float (w) * L, float (w) * R * C, float (w) ** 2 * L * C
    kappa = max ((1 + rc + lc) / max (abs (cfloat (den)), 1e-300), (abs (R) + wl) / max (abs (cfloat (num)), 1e-300), 1.0)
    return z, kappa
# end def exact_trap

# ------------------------------------------------------------------ closed forms

def z_int (f, a, sigma):
    """ internal impedance per length of a round wire: k rho / (2 pi a) J0 (k a) / J1 (k a), k = sqrt (-j w mu / rho) """
    w = 2 * np.pi * f * 1e6
    k = np.sqrt (-1j * w * MU0 * sigma)
    ka = k * a
    ratio = jve (0, ka) / jve (1, ka)
    return k / (2 * np.pi * a * sigma) * ratio, abs (ka)
# end def z_int

def l_ins (a, b, eps_r):
    return MU0 / (2 * np.pi) * (1 - 1 / eps_r) * np.log (b / a)
# end def l_ins

# ------------------------------------------------------------------ cases

def rnd_load (rng, MM = None):
    kind = str (rng.choice (['z', 'rlc', 'rlc', 'trap', 'lap']))
    if kind == 'z':
        return dict (k = 'z', z = [float (10 ** rng.uniform (-3, 5)), float (rng.choice ([-1, 1]) * 10 ** rng.uniform (-3, 5))])
    if kind == 'rlc':
        d = dict (k = 'rlc', R = None, L = None, C = None)
        for x, lo, hi in (('R', -3, 6), ('L', -10, -2), ('C', -14, -5)):
            if rng.random () < 0.7:
                d [x] = float (10 ** rng.uniform (lo, hi))
        if d ['R'] is None and d ['L'] is None and d ['C'] is None:
            d ['R'] = 50.0
        return d
    if kind == 'trap':
        return dict (k = 'trap', R = float (10 ** rng.uniform (-3, 3)), L = float (10 ** rng.uniform (-9, -3)), C = float (10 ** rng.uniform (-13, -7)))
    n = int (rng.integers (1, 4))
    return dict (k = 'lap', a = [float (10 ** rng.uniform (-6 * j - 3, -6 * j + 3)) for j in range (n)]
                , b = [float (10 ** rng.uniform (-6 * j - 2, -6 * j + 4)) for j in range (int (rng.integers (1, n + 1)))])
# end def rnd_load

def load_object (l):
    MM = common.repo ()
    if l ['k'] == 'z':
        return MM.Impedance_Load (complex (*l ['z']))
    if l ['k'] == 'rlc':
        return MM.Series_RLC_Load (R = l ['R'], L = l ['L'], C = l ['C'])
    if l ['k'] == 'trap':
        return MM.Trap_Load (l ['R'], l ['L'], l ['C'])
    return MM.Laplace_Load (a = l ['a'], b = l ['b'])
# end def load_object

def exact_of (l, f):
    if l ['k'] == 'z':
        return complex (*l ['z']), 1.0
    if l ['k'] == 'rlc':
        return exact_rlc (l ['R'], l ['L'], l ['C'], f)
    if l ['k'] == 'trap':
        return exact_trap (l ['R'], l ['L'], l ['C'], f)
    n = max (len (l ['a']), len (l ['b']))
    return exact_laplace (list (l ['a']) + [0.0] * (n - len (l ['a'])), list (l ['b']) + [0.0] * (n - len (l ['b'])), f)
# end def exact_of

class J:
    def __init__ (self):
        self.viol, self.mon, self.worst = [], {}, 0.0
    def judge (self, name, measured, allowed, msg, key = None):
        self.mon [name] = self.mon.get (name, 0) + 1
        self.worst = max (self.worst, measured / allowed)
        if not (measured <= allowed) and len (self.viol) < 8:
            self.viol.append (dict (monitor = name, key = key or name, msg = msg, measured = measured, allowed = allowed))

def check_circuit (c):
    rng = np.random.default_rng ([c ['seed'], 81, c ['i']])
    j = J ()
    l = rnd_load (rng)
    while l ['k'] == 'z':
        l = rnd_load (rng)
    freqs = [float (10 ** rng.uniform (-1, 3)) for k in range (4)]
    obj = common.guarded (lambda: load_object (l), 'load constructor')
    # the same load through the command line
    spec = dict ( f = freqs [0], geo = [gen.wire (4, [0, 0, 0], [0, 0, 1.0], 0.001)], media = None
                , src = [dict (p = [2], v = [1, 0])], loads = [dict (l, att = [[2]])])
    m = gen.build (spec)
    for f in freqs:
        want, kappa = exact_of (l, f)
        if not np.isfinite (want) or abs (want) == 0:
            continue
        for nm, o in (('class', obj), ('cli', m.loads [0])):
            got = complex (common.guarded (lambda: o.impedance (f, None), 'impedance'))
            dev = abs (got - want) / abs (want)
            j.judge ('circuit.' + nm, dev, 1e-12 * kappa + 1e-15, '%s load %r at %.6g MHz: %r, circuit gives %r (cancellation factor %.3g)' % (l ['k'], l, f, got, want, kappa), key = 'circuit-' + l ['k'])
    return dict (status = 'violation' if j.viol else 'held', sig = 'circuit|' + l ['k'] + '|' + ''.join (x for x in 'RLC' if l.get (x)) + str (len (l.get ('a', [])))
                , nontrivial = True, margin = j.worst, monitors = j.mon, violations = j.viol)
# end def check_circuit

def base_model (rng):
    if rng.random () < 0.5:
        spec = gen.fam_free (rng, equal_junction = bool (rng.random () < 0.5))
    else:
        med = 'ideal' if rng.random () < 0.5 else [[float (rng.uniform (2, 80)), float (10 ** rng.uniform (-4, 0)), 0.0]]
        spec = gen.fam_ground (rng, media = med)
    gen.add_sources (rng, spec, nmax = 1)
    # different radii on the wires of a junction
    for g in spec ['geo']:
        if g ['k'] == 'w' and rng.random () < 0.5:
            sl = np.linalg.norm (np.array (g ['p1']) - np.array (g ['p2'])) / g ['n']
            g ['r'] = float (min (g ['r'] * float (rng.choice ([0.3, 0.5, 2.0, 3.0])), sl / 8.5))
    return spec
# end def base_model

def check_series (c):
    rng  = np.random.default_rng ([c ['seed'], 82, c ['i']])
    spec = base_model (rng)
    if any ('p' in s for s in spec ['src']):
        return dict (status = 'discard', reason = 'no feed by location')
    loads = [rnd_load (rng) for k in range (int (rng.integers (1, 4)))]
    spec  = gen.clean (spec)
    j  = J ()
    MM = common.repo ()
    m0 = gen.build (spec)
    observe.solve (m0)
    z0 = complex (m0.sources [0].impedance)
    cond = observe.cond_number (m0)
    if not np.isfinite (cond) or cond > 1e7:
        return dict (status = 'discard', reason = 'cond > 1e7')
    m1 = gen.build (spec)
    idx = m1.sources [0].idx
    want = 0j
    for l in loads:
        z, kappa = exact_of (l, m1.f)
        if not np.isfinite (z):
            return dict (status = 'discard', reason = 'load impedance not finite')
        want += z
        common.guarded (lambda: m1.register_load (load_object (l), idx), 'register_load')
    observe.solve (m1)
    z1 = complex (m1.sources [0].impedance)
    p  = m1.pulses [idx]
    fk = 'g' if p.ground.any () else ('j' if p.geo [0] is not p.geo [1] else 'i')
    scale = abs (z0) + abs (want)
    j.judge ('series', abs ((z1 - z0) - want) / scale, 1e-9 * max (cond, 1.0), 'feed impedance rose by %r, the loads on the feed pulse (%s feed) sum to %r' % (z1 - z0, fk, want), key = 'series-' + fk)
    # the same load twice = twice the load (two registrations of one object)
    m2 = gen.build (spec)
    ld = load_object (loads [0])
    m2.register_load (ld, idx)
    m2.register_load (ld, idx)
    observe.solve (m2)
    w2 = 2 * exact_of (loads [0], m2.f) [0]
    j.judge ('series.twice', abs ((complex (m2.sources [0].impedance) - z0) - w2) / (abs (z0) + abs (w2)), 1e-9 * max (cond, 1.0), 'one load registered twice on the feed pulse does not act as twice the load')
    # ... and two elements of equal value (two objects, like the two traps of a trap dipole) are two elements: on the
    # feed pulse twice the load, one of them on another pulse the same as a single object attached to both
    m3 = gen.build (spec)
    m3.register_load (load_object (loads [0]), idx)
    m3.register_load (load_object (loads [0]), idx)
    observe.solve (m3)
    j.judge ('series.equal-values', abs ((complex (m3.sources [0].impedance) - z0) - w2) / (abs (z0) + abs (w2)), 1e-9 * max (cond, 1.0), 'two load objects of equal value on the feed pulse do not act as twice the load', key = 'series-equal-values')
    if len (m0.pulses) >= 3:
        other = (idx + 1 + int (rng.integers (0, len (m0.pulses) - 1))) % len (m0.pulses)
        m4, m5 = gen.build (spec), gen.build (spec)
        m4.register_load (load_object (loads [0]), idx)
        m4.register_load (load_object (loads [0]), other)
        l5 = load_object (loads [0])
        m5.register_load (l5, idx)
        m5.register_load (l5, other)
        observe.solve (m4); observe.solve (m5)
        z4, z5 = complex (m4.sources [0].impedance), complex (m5.sources [0].impedance)
        j.judge ('series.equal-values', abs (z4 - z5) / abs (z5), 1e-9 * max (cond, 1.0), 'two load objects of equal value on pulses %d and %d: feed impedance %r, one object attached to both pulses %r' % (idx + 1, other + 1, z4, z5), key = 'series-equal-values')
    # the loaded object solved again and again at the same frequency (other source voltages each time, as in a study
    # of drive levels): the loads stay what they are
    v0 = complex (m1.sources [0].voltage)
    for k in range (3):
        m1.sources [0].voltage = v0 * (0.5 + k) * (1j ** k)
        observe.solve (m1)
        zk = complex (m1.sources [0].impedance)
        j.judge ('series.recompute', abs (zk - z1) / abs (z1), 1e-9 * max (cond, 1.0), 'compute () number %d on the same object at the same frequency: feed impedance %r, first compute %r' % (k + 2, zk, z1), key = 'series-recompute')
    # one load of every kind through the command line, each attached to another pulse, and the same circuit
    # elements registered through the library on the same pulses: the load numbers of --attach-load count
    # -l, --rlc-load, --trap-load, Laplace loads in this order (README)
    N = len (m0.pulses)
    if N >= 5:
        kinds = [dict (k = 'z', z = [33.0, -12.0]), dict (k = 'rlc', R = 7.0, L = 2.2e-6, C = 4.7e-11), dict (k = 'trap', R = 0.8, L = 1.1e-6, C = 3.3e-11)
                , dict (k = 'lap', a = [1.0, 2e-8], b = [15.0, 3e-6])]
        sel   = [kinds [i] for i in rng.permutation (4) [: int (rng.integers (2, 5))]]
        where = [int (x) for x in rng.permutation (N) [: len (sel)]]
        sc = copy.deepcopy (spec)
        sc ['loads'] = [dict (l, att = [[w + 1]]) for l, w in zip (sel, where)]
        mc = gen.build (sc)
        ma = gen.build (spec)
        for l, w in zip (sel, where):
            ma.register_load (load_object (l), w)
        observe.solve (mc); observe.solve (ma)
        za, zc = complex (ma.sources [0].impedance), complex (mc.sources [0].impedance)
        j.judge ('kinds-by-number', abs (za - zc) / abs (za), 1e-9 * max (cond, 1.0) + 2e-6, 'loads %s on pulses %s: feed impedance %r through the command line, %r with the same elements registered through the library' % ([l ['k'] for l in sel], [w + 1 for w in where], zc, za), key = 'load-kinds-by-number')
    sig = 'series|%s|%s|%s' % ('+'.join (sorted (l ['k'] for l in loads)), fk, 'gnd' if m0.media is not None else 'free')
    return dict (status = 'violation' if j.viol else 'held', sig = sig, nontrivial = True, margin = j.worst, monitors = j.mon, violations = j.viol, info = dict (cond = cond))
# end def check_series

def check_neutral (c):
    rng  = np.random.default_rng ([c ['seed'], 83, c ['i']])
    spec = gen.clean (base_model (rng))
    if any ('p' in s for s in spec ['src']):
        return dict (status = 'discard', reason = 'no feed by location')
    j  = J ()
    m0 = gen.build (spec)
    observe.solve (m0)
    I0 = np.array (m0.current)
    cond = observe.cond_number (m0)
    if not np.isfinite (cond) or cond > 1e6:
        return dict (status = 'discard', reason = 'cond > 1e6')
    rmax = max (g ['r'] for g in spec ['geo'])
    variants = \
        [ ('zero-load',   [dict (k = 'z', z = [0.0, 0.0], att = [['all']])])
        , ('zero-rlc',    [dict (k = 'rlc', R = 0.0, L = None, C = None, att = [['all']])])
        , ('eps_r=1',     [dict (k = 'ins', radius = rmax * float (rng.uniform (1.1, 5)), eps = 1.0, tag = None)])
        , ('sigma=1e30',  [dict (k = 'skin', cond = 1e30, tag = None)])
        ]
    for nm, loads in variants:
        s = copy.deepcopy (spec)
        s ['loads'] = loads
        m = gen.build (s)
        observe.solve (m)
        d = np.abs (np.array (m.current) - I0).max () / np.abs (I0).max ()
        j.judge ('neutral.' + nm, d + 1e-300, 1e-9 * max (cond, 1.0), 'neutral element %s changes the currents by %.3g' % (nm, d), key = 'neutral-' + nm)
    sg = float (10 ** rng.uniform (3, 8))
    sa = copy.deepcopy (spec); sa ['loads'] = [dict (k = 'skin', cond = sg, tag = None)]
    sb = copy.deepcopy (spec); sb ['loads'] = [dict (k = 'skin', res = 1 / sg, tag = None)]
    ma, mb = gen.build (sa), gen.build (sb)
    observe.solve (ma); observe.solve (mb)
    d = np.abs (np.array (ma.current) - np.array (mb.current)).max () / np.abs (I0).max ()
    j.judge ('neutral.sigma-vs-rho', d + 1e-300, 1e-9 * max (cond, 1.0), 'conductivity s and resistivity 1/s give currents differing by %.3g' % d, key = 'neutral-sigma-rho')
    return dict (status = 'violation' if j.viol else 'held', sig = 'neutral|%s|%s' % (spec.get ('fam'), 'gnd' if m0.media is not None else 'free')
                , nontrivial = True, margin = j.worst, monitors = j.mon, violations = j.viol)
# end def check_neutral

def check_dist (c):
    rng = np.random.default_rng ([c ['seed'], 84, c ['i']])
    j   = J ()
    mode = str (rng.choice (['model', 'model', 'mono-dipole']))
    if mode == 'mono-dipole':
        f, lam, segl, rad = gen.pick_scale (rng)
        n = int (rng.integers (3, 12))
        kind = str (rng.choice (['skin', 'ins', 'both']))
        loads = []
        if kind in ('skin', 'both'):
            loads.append (dict (k = 'skin', cond = float (10 ** rng.uniform (3, 7.8)), tag = None))
        if kind in ('ins', 'both'):
            loads.append (dict (k = 'ins', radius = rad * float (rng.uniform (1.2, 4)), eps = float (rng.uniform (1.5, 6)), tag = None))
        rev = bool (rng.random () < 0.5)
        a, b = ([0, 0, n * segl], [0, 0, 0]) if rev else ([0, 0, 0], [0, 0, n * segl])
        mono = dict (f = f, geo = [gen.wire (n, a, b, rad)], media = [[0, 0, 0]], src = [dict (at = [0, 0, 0], dir = [0, 0, 1], v = [1, 0])], loads = loads)
        dip  = dict (f = f, geo = [gen.wire (2 * n, [0, 0, -n * segl], [0, 0, n * segl], rad)], media = None, src = [dict (at = [0, 0, 0], dir = [0, 0, 1], v = [1, 0])], loads = loads)
        mm, md = gen.build (mono), gen.build (dip)
        if kind in ('ins', 'both'):
            # known finding (C18, stale-i6-insulated-wire): the exact-kernel constant of every segment was computed
            # with the bare radius; it is brought in line with the equivalent radius here so that this
            # cross-check judges the load of the grounded pulse and nothing else
            for mx in (mm, md):
                for g in mx.geo:
                    for sg in g.segments:
                        sg.i6 = (1 + np.log (16 * g.r / sg.seg_len)) / np.pi / g.r
                mx.pulses.reset ()
        observe.solve (mm); observe.solve (md)
        cond = max (observe.cond_number (mm), observe.cond_number (md))
        tol  = observe.tol_cond (cond)
        if tol is None:
            return dict (status = 'discard', reason = 'cond > 1e5')
        zm, zd = complex (mm.sources [0].impedance), complex (md.sources [0].impedance)
        j.judge ('monopole=dipole/2', abs (zm - zd / 2) / abs (zd / 2), tol, 'loaded monopole (%s, grounded at end %d) %r, half the loaded dipole %r' % (kind, 2 if rev else 1, zm, zd / 2), key = 'monopole-half-dipole')
        return dict (status = 'violation' if j.viol else 'held', sig = 'dist|mono|%s|rev%d' % (kind, rev), nontrivial = True, margin = j.worst, monitors = j.mon, violations = j.viol)
    # (every fifth structure with an arc or a helix: the conductor a pulse represents is then two half segments that
    # are not in line)
    rc   = np.random.default_rng ([c ['seed'], 85, c ['i']])
    spec = (gen.curve_spec (rc) if rc.random () < 0.2 else None) or base_model (rng)
    if not spec.get ('src'):
        gen.add_sources (rc, spec, nmax = 1)
    spec = gen.clean (spec)
    for i, g in enumerate (spec ['geo']):
        g ['tag'] = i + 1
        g ['taper'] = None
    if any ('p' in s for s in spec ['src']):
        return dict (status = 'discard', reason = 'no feed by location')
    # tapered wires: pulses of very different length on one object (sources sit on other wires)
    srcpts = [np.array (x ['at']) for x in spec ['src']]
    for g in spec ['geo']:
        if g ['k'] == 'w' and g ['n'] >= 3 and rng.random () < 0.3:
            p1, p2 = np.array (g ['p1']), np.array (g ['p2'])
            on = any (np.linalg.norm (np.cross (p2 - p1, x - p1)) < 1e-9 * np.linalg.norm (p2 - p1) ** 2 and -1e-9 <= (x - p1) @ (p2 - p1) / ((p2 - p1) @ (p2 - p1)) <= 1 + 1e-9 for x in srcpts)
            if not on:
                g ['taper'] = [int (rng.integers (1, 4)), None, None]
    ntag  = len (spec ['geo'])
    loads = []
    par   = {}
    for kind in ('skin', 'ins'):
        u = rng.random ()
        if u < 0.3:
            continue
        tags = [None] if u < 0.6 else [int (t) for t in rng.choice (np.arange (1, ntag + 1), size = int (rng.integers (1, ntag + 1)), replace = False)]
        for t in tags:
            if kind == 'skin':
                sg = float (10 ** rng.uniform (2, 7.8))
                loads.append (dict (k = 'skin', cond = sg, tag = t) if rng.random () < 0.5 else dict (k = 'skin', res = 1 / sg, tag = t))
                for tt in ([t] if t else range (1, ntag + 1)):
                    par.setdefault (tt, {}) ['sigma'] = sg if 'cond' in loads [-1] else 1 / (1 / sg)
            else:
                tt_list = [t] if t else list (range (1, ntag + 1))
                rb = max (spec ['geo'][tt - 1]['r'] for tt in tt_list) * float (rng.uniform (1.2, 4))
                ep = float (rng.uniform (1.0, 6))
                loads.append (dict (k = 'ins', radius = rb, eps = ep, tag = t))
                for tt in tt_list:
                    par.setdefault (tt, {}).update (b = rb, eps = ep)
    if not loads:
        return dict (status = 'discard', reason = 'no distributed load drawn')
    spec ['loads'] = loads
    # the model is built through the command line or through the classes of the library, there also with the
    # load objects created before the geometry is scaled (insulation radius is not scaled, the wire radius is)
    route = str (rng.choice (['cli', 'cli', 'api', 'api-early', 'api-early-scale']))
    if route == 'cli':
        m = gen.build (spec)
    elif route == 'api-early-scale':
        s  = float (rng.uniform (1.5, 20))
        s2 = copy.deepcopy (spec)
        for g in s2 ['geo']:
            if g ['k'] == 'w':
                g ['p1'] = [x / s for x in g ['p1']]
                g ['p2'] = [x / s for x in g ['p2']]
            else:
                for k in ('radius', 'length', 'turn', 'rx1', 'ry1', 'rx2', 'ry2'):
                    if g.get (k) is not None:
                        g [k] = g [k] / s
            g ['r'] = g ['r'] / s
        for x in s2 ['src']:
            if 'at' in x:
                x ['at'] = list (x ['at'])
        s2 ['sc'] = [[s, None]]
        m = gen.build (s2, route = 'api', early_loads = True)
    else:
        m = gen.build (spec, route = 'api', early_loads = route == 'api-early')
    f0 = m.f
    # the same object at a second frequency: the distributed loads follow the frequency
    for f_now, sfx in ((f0, ''), (f0 * float (rng.choice ([0.37, 0.6, 1.9, 3.1])), '.f2')):
      m.f = f_now
      w = 2 * np.pi * m.f * 1e6
      # expected per-pulse impedance: every real half-segment of the pulse with the constants of the wire it lies on
      expect_skin, expect_ins = {}, {}
      skin_tol = {}
      for p in m.pulses:
          zs, zi, has_s, has_i = 0j, 0j, False, False
          for k in (0, 1):
              if p.ground [k]:
                  continue
              g   = p.segs [k].geobj
              prm = par.get (g.tag, {})
              half = p.segs [k].seg_len / 2
              a = g.r_orig
              if 'sigma' in prm:
                  z, ka = z_int (m.f, a, prm ['sigma'])
                  zs += z * half
                  has_s = True
                  # for |k a| >= 110 the program documents the asymptote J0 / J1 -> j; first neglected term 1 / (2 k a)
                  skin_tol [p.idx] = max (skin_tol.get (p.idx, 1e-6), 1e-6 if ka < 110 else 1.0 / ka)
              if 'b' in prm:
                  zi += 1j * w * l_ins (a, prm ['b'], prm ['eps']) * half
                  has_i = True
          if has_s:
              expect_skin [p.idx] = zs
          if has_i:
              expect_ins [p.idx] = zi
      got_skin, got_ins = {}, {}
      for l in m.loads:
          nm = l.__class__.__name__
          for p in l.pulses:
              z = complex (common.guarded (lambda: l.impedance (m.f, p), 'impedance'))
              tgt = got_skin if nm == 'Skin_Effect_Load' else got_ins
              # a junction pulse between two loaded wires is attached to both wires' load objects; each
              # reports the total of both halves: count it once per load object and compare per object
              tgt.setdefault (p.idx, []).append (z)
      for nm, exp, got, rel in (('skin', expect_skin, got_skin, 1e-6), ('ins', expect_ins, got_ins, 1e-9)):
          if set (exp) != set (got):
              j.viol.append (dict (monitor = 'dist.attach', key = 'dist-attach-' + nm, msg = '%s load attached to pulses %s, expected %s' % (nm, sorted (x + 1 for x in got), sorted (x + 1 for x in exp))))
              continue
          for i, want in exp.items ():
              for z in got [i]:
                  j.judge ('dist.' + nm + sfx, abs (z - want) / abs (want) if abs (want) else abs (z), (skin_tol.get (i, rel) if nm == 'skin' else rel), '%s load on pulse %d at %.6g MHz%s: %r, closed form x conductor length %r' % (nm, i + 1, m.f, ' (same object, first used at %.6g MHz)' % f0 if sfx else '', z, want), key = 'dist-' + nm + ('-after-frequency-change' if sfx else ''))
    m.f = f0
    sig = 'dist|%s|%s|%s|%s|%s' % (route, '+'.join (sorted (set (l ['k'] + ('T' if l.get ('tag') else 'A') for l in loads))), spec.get ('fam'), 'gnd' if m.media is not None else 'free'
                               , 'G' if any (p.ground.any () for p in m.pulses) else '')
    return dict (status = 'violation' if j.viol else 'held', sig = sig, nontrivial = True, margin = j.worst, monitors = j.mon, violations = j.viol)
# end def check_dist

def check_forms (c):
    """ a load given to the whole antenna / a whole object acts like the same load given to each of its pulses """
    rng  = np.random.default_rng ([c ['seed'], 85, c ['i']])
    spec = gen.clean (base_model (rng))
    for i, g in enumerate (spec ['geo']):
        g ['tag'] = i + 1
        g ['taper'] = None
    if any ('p' in s for s in spec ['src']):
        return dict (status = 'discard', reason = 'no feed by location')
    l0 = rnd_load (rng)
    ld = dict (k = 'z', z = [float (10 ** rng.uniform (0, 2.5)), float (rng.uniform (-200, 200))])
    j  = J ()
    m0 = gen.build (spec)
    N  = len (m0.pulses)
    tag = int (rng.integers (1, len (spec ['geo']) + 1))
    obj = {g.tag: g for g in m0.geo} [tag]
    forms = [ ('all', [['all']], [[k] for k in range (1, N + 1)])
            , ('all-obj', [['all', tag]], [[k + 1, tag] for k in range (len (obj.pulses))]) ]
    for name, a1, a2 in forms:
        if not a2:
            continue
        ma = gen.build (dict (spec, loads = [dict (ld, att = a1)]))
        mb = gen.build (dict (spec, loads = [dict (ld, att = a2)]))
        pa = sorted (p.idx for l in ma.loads for p in l.pulses)
        pb = sorted (p.idx for l in mb.loads for p in l.pulses)
        j.mon ['forms.' + name] = 1
        if pa != pb:
            j.viol.append (dict (monitor = 'forms.' + name, key = 'attach-' + name, msg = '--attach-load %s loads pulses %s, pulse by pulse %s' % (a1 [0], [x + 1 for x in pa], [x + 1 for x in pb])))
            continue
        observe.solve (ma); observe.solve (mb)
        d = np.abs (np.array (ma.Z).diagonal () - np.array (mb.Z).diagonal ()).max () / np.abs (np.array (mb.Z).diagonal ()).max ()
        j.judge ('forms.matrix.' + name, d + 1e-300, 1e-12, 'matrix diagonal differs by %.3g between --attach-load %s and the same load on every pulse' % (d, a1 [0]), key = 'attach-' + name)
        za, zb = complex (ma.sources [0].impedance), complex (mb.sources [0].impedance)
        cond = observe.cond_number (mb)
        if np.isfinite (cond) and cond < 1e7:
            j.judge ('forms.impedance.' + name, abs (za - zb) / abs (zb), 1e-10 * max (cond, 1.0), 'feed impedance %r with --attach-load %s, %r with the same load on every pulse' % (za, a1 [0], zb), key = 'attach-' + name)
    nj = sum (1 for p in m0.pulses if p.geo [0] is not p.geo [1])
    sig = 'forms|%s|%s|j%d|g%d' % (spec.get ('fam'), 'gnd' if m0.media is not None else 'free', min (nj, 3), sum (1 for p in m0.pulses if p.ground.any ()))
    return dict (status = 'violation' if j.viol else 'held', sig = sig, nontrivial = nj > 0, margin = j.worst, monitors = j.mon, violations = j.viol)
# end def check_forms

def check (c):
    return dict (circuit = check_circuit, series = check_series, neutral = check_neutral, dist = check_dist, forms = check_forms) [c ['kind']] (c)
# end def check
