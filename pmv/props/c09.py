""" C09 - Kirchhoff current law and end conditions in the CURRENT DATA
    block. Offline checker over the parsed report; junction membership is
    known by construction. The star topologies of 2..5 wire ends are
    enumerated completely (every first/second end combination x every
    wire order, with and without a ground plane), chains / loops / several
    junctions come from random wire graphs.
"""
import itertools
import numpy as np
from pmv import common, gen, graphs, observe
from pmv.oracles import report

ID   = 'C09'
RULE = ( 'enumerated: stars of k = 2..5 wire ends x all 2^k first/second-end choices x all k! wire orders, '
         'free space and over ideal ground (one extra grounded wire below the junction); plus random wire graphs '
         '(chains, loops, several junctions, arcs/helices with wires on their ends, single-segment wires). Per case '
         'the solved model is printed, the CURRENT DATA block parsed: junction sums, E lines, every J line vs the '
         'signed sum of the pulse currents through that wire end. non-trivial = junction of >= 3 ends or >= 2 '
         'junctions; distinct = (family, k, end mask, order class) resp. graph signature'
       )
MIN_EVAL = dict (quick = 3000, thorough = 9000)
ANCHORS  = ['Mininec.currents_as_mininec', 'Connected_Geobj.pulse_iter', 'Geobj._add_conn']
ANCHORS_REQUIRED = ['Mininec.currents_as_mininec', 'Connected_Geobj.pulse_iter']
ANCHORS_MIN = {'Mininec.currents_as_mininec': 0.95}
ASSUMPTIONS = [ 'print precision: 7 digits per token, sums compared with 3e-6 * max |I| * number of terms'
              , 'pulse geometry (which half of which pulse lies on which wire end) is taken from the model; C02/C12 decide that geometry'
              ]

DIRS = np.array ([[1, 0, 0], [-0.5, 0.8660254, 0.1], [-0.45, -0.8, -0.2], [0.1, 0.2, 1], [0.2, -0.3, -1]], float)
DIRS = DIRS / np.linalg.norm (DIRS, axis = 1) [:, None]

def plan (tier, seed):
    cases = []
    for gnd in (0, 1):
        for k in (2, 3, 4, 5):
            if gnd and k == 5:
                continue    # the grounded feeder already occupies the downward direction
            for mask in range (2 ** k):
                for perm in itertools.permutations (range (k)):
                    cases.append (dict (fam = 'star', k = k, mask = mask, perm = list (perm), gnd = gnd, var = 0))
    if tier == 'thorough':
        cases += [dict (c, var = 1) for c in cases]
    for n in (3, 4, 6, 9):
        for att in (0, 1, 2, 3):
            for var in ((0, 1) if tier == 'thorough' else (0,)):
                cases.append (dict (fam = 'ring', n = n, att = att, var = var))
                cases.append (dict (fam = 'ring', n = n, att = att, var = var, pre = 1))
    # two objects joined to each other at both ends: arc + chord ("D"), arc + arc, wire pair
    for kind in ('arc-chord', 'arc-chord-rev', 'arc-arc', 'chord-first'):
        for n in (4, 7):
            for var in ((0, 1) if tier == 'thorough' else (0,)):
                cases.append (dict (fam = 'dloop', kind = kind, n = n, var = var))
    # wires brought onto / taken off a junction by a transformation of their own
    for k in (2, 3):
        for mask in range (2 ** k):
            for mode in ('onto', 'off', 'both'):
                for kind in ('translate', 'rotate'):
                    cases.append (dict (fam = 'moved', k = k, mask = mask, mode = mode, kind = kind))
    # a wire end that comes close to a junction / to the ground plane without reaching it
    for kind in ('long', 'thick-gnd', 'thick-gnd-junction'):
        for k in (2, 3):
            for mask in range (2 ** k):
                for pos in (0, 1, 2):
                    for dend in (0, 1):
                        cases.append (dict (fam = 'decoy', kind = kind, k = k, mask = mask, pos = pos, dend = dend))
    # two ends exactly the matching distance apart
    for sl in (1.0, 2.0, 0.25, 4.0):
        for fac in (1.0, 0.5, 1.5, 1.0000001, 0.9999999):
            for order in (0, 1):
                for rev in (0, 1, 2, 3):
                    cases.append (dict (fam = 'exact', sl = sl, fac = fac, order = order, rev = rev))
    n = 400 if tier == 'quick' else 6000
    cases += [dict (fam = 'graph', i = i, seed = seed) for i in range (n)]
    return cases
# end def plan

def make (c):
    if c ['fam'] == 'graph':
        rng  = np.random.default_rng ([c ['seed'], 9, c ['i']])
        spec = graphs.make_graph (rng, seg = (1, 4))
        # tapered wires (explicitly tagged ones: the option names a tag): tapers that fit, and tapers that do not
        # fit their minimum - the program then segments the wire equally - at either end of the wire
        rt = np.random.default_rng ([c ['seed'], 91, c ['i']])
        for g in spec ['geo']:
            if g ['k'] == 'w' and g.get ('tag') is not None and g ['n'] >= 2 and rt.random () < 0.3:
                sl = float (np.linalg.norm (np.array (g ['p2']) - np.array (g ['p1'])) / g ['n'])
                g ['taper'] = [int (rt.integers (1, 4)), (None if rt.random () < 0.5 else 1.5 * sl), None]
        # the whole structure moved to coordinates of a map (hundreds of kilometres from the origin): ends that are
        # apart stay apart, ends that meet still meet
        if rt.random () < 0.2:
            spec ['tr'] = [['translate', 1.0, [448000.0, 5411000.0, 0.0], None]]
        return spec
    if c ['fam'] == 'ring':
        return make_ring (c)
    if c ['fam'] == 'dloop':
        return make_dloop (c)
    if c ['fam'] == 'decoy':
        return make_decoy (c)
    if c ['fam'] == 'exact':
        return make_exact (c)
    if c ['fam'] == 'moved':
        return make_moved (c)
    k, mask, perm, gnd, var = c ['k'], c ['mask'], c ['perm'], c ['gnd'], c ['var']
    lam  = 20.0
    segl = lam / (25 if var == 0 else 40)
    J    = np.array ([0.3, -0.2, 4.0 if gnd else 0.1])
    wires = []
    ends  = []
    for j in range (k):
        n   = 2 + (j + var) % 3
        far = J + DIRS [j] * n * segl * (1 + 0.1 * j)
        if (mask >> j) & 1:
            a, b, ej = far, J, 1      # second end on the junction
        else:
            a, b, ej = J, far, 0
        wires.append ((gen.wire (n, a, b, 0.01), ej, j))
    if gnd:
        n = 3
        foot = np.array ([J [0], J [1], 0.0])
        # the feeder's upper end is also on the junction: k + 1 ends meet there
        wires.append ((gen.wire (n, foot, J, 0.01), 1, k))
    order = [wires [p] for p in perm] + wires [k:]
    if gnd:
        # grounded feeder at a position that depends on the permutation
        order = wires [k:] + [wires [p] for p in perm] if (sum (perm [:2]) % 2) else order
    geo = []
    for wi, (g, ej, lab) in enumerate (order):
        geo.append (g)
        for e in (0, 1):
            isj = (e == ej)
            isg = bool (gnd and lab == k and e == 0)
            ends.append (dict (w = wi, e = e, node = 'J' if isj else 'f%d' % lab, gnd = isg))
    spec = dict ( f = 299.8 / lam, geo = geo, media = ([[0, 0, 0]] if gnd else None), src = [], loads = []
                , ends = ends, tol = 1e-3 * segl, style = 'auto')
    return spec
# end def make

def make_ring (c):
    """ a 360 degree arc closed on itself; att: 0 nothing attached,
        1 wire with its first end on the closing point, 2 wire with its
        second end there, 3 both
    """
    from pmv.oracles import georef
    lam = 20.0
    rad = lam / 25 * c ['n'] / (2 * np.pi) * (1.0 + 0.3 * c ['var'])
    arc = dict (k = 'a', n = c ['n'], radius = rad, a1 = 0.0, a2 = 360.0, r = 0.005, tag = None)
    nd  = georef.arc_nodes (arc ['n'], rad, 0.0, 360.0)
    X   = nd [0]
    geo  = [arc]
    ends = [dict (w = 0, e = 0, node = 'J', gnd = False), dict (w = 0, e = 1, node = 'J', gnd = False)]
    if c.get ('pre'):
        # an open arc of its own (same plane, concentric, larger radius) listed before the ring: the ring is not
        # the first object of the model
        pre  = dict (k = 'a', n = 3 + c ['n'] % 3, radius = rad * 3.0, a1 = 20.0, a2 = 130.0, r = 0.005, tag = None)
        geo  = [pre, arc]
        ends = [dict (w = 0, e = 0, node = 'p0', gnd = False), dict (w = 0, e = 1, node = 'p1', gnd = False)
               , dict (w = 1, e = 0, node = 'J', gnd = False), dict (w = 1, e = 1, node = 'J', gnd = False)]
    if c ['att'] & 1:
        far = X + np.array ([1.0, 0.4, 0.2]) * lam / 10
        geo.append (gen.wire (3, X, far, 0.005))
        ends += [dict (w = len (geo) - 1, e = 0, node = 'J', gnd = False), dict (w = len (geo) - 1, e = 1, node = 'fa', gnd = False)]
    if c ['att'] & 2:
        far = X + np.array ([0.8, -0.7, -0.1]) * lam / 10
        geo.append (gen.wire (2, far, X, 0.005))
        ends += [dict (w = len (geo) - 1, e = 0, node = 'fb', gnd = False), dict (w = len (geo) - 1, e = 1, node = 'J', gnd = False)]
    return dict ( f = 299.8 / lam, geo = geo, media = None, src = [], loads = [], ends = ends
                , tol = 1e-3 * min (lam / 25, 2 * rad * np.sin (np.pi / c ['n'])), style = 'auto')
# end def make_ring

def make_decoy (c):
    """ star of k ends plus one wire that is not part of it:
        long      - a wire of much longer segments whose end stops 4 matching tolerances (of the structure, i. e. of
                    its shortest segment) short of the junction: that end is free
        thick-gnd - over ground: a thick wire whose lower end hangs 4 tolerances above the plane, less than its radius:
                    that end is free, not grounded (-junction: the star's junction itself hangs there)
    """
    k, mask = c ['k'], c ['mask']
    lam  = 20.0
    segl = lam / 40
    tol  = 1e-3 * segl
    gnd  = c ['kind'] != 'long'
    rad  = 0.01 if c ['kind'] == 'long' else 6 * tol
    J    = np.array ([0.3, -0.2, (4 * tol if c ['kind'] == 'thick-gnd-junction' else 3.0) if gnd else 0.1])
    dirs = DIRS if not gnd else np.array ([[1, 0, 0.6], [-0.5, 0.8660254, 0.7], [-0.45, -0.8, 0.5]]) / np.linalg.norm (np.array ([[1, 0, 0.6], [-0.5, 0.8660254, 0.7], [-0.45, -0.8, 0.5]]), axis = 1) [:, None]
    wires = []
    for j in range (k):
        n   = 2 + j % 3
        far = J + dirs [j] * n * segl * (1 + 0.1 * j)
        a, b, ej = (far, J, 1) if (mask >> j) & 1 else (J, far, 0)
        wires.append ((gen.wire (n, a, b, rad), {ej: 'J', 1 - ej: 'f%d' % j}))
    if c ['kind'] == 'long':
        u   = np.array ([0.2, 0.3, -1.0]) / np.linalg.norm ([0.2, 0.3, -1.0])
        if (k + mask + c ['pos'] + c ['dend']) % 3 == 0:
            u = np.array ([0.6, 0.8, 0.0])      # (moved far away below: the gap lies in the plane in which the coordinates are large)
        nea = J + u * 4 * tol
        far = nea + u * 3 * segl * 25
        a, b = (nea, far) if c ['dend'] == 0 else (far, nea)
        wires.insert (min (c ['pos'], len (wires)), (gen.wire (3, a, b, rad), {0: 'd0', 1: 'd1'}))
    elif c ['kind'] == 'thick-gnd':
        foot = np.array ([J [0] + 5.0, J [1], 4 * tol])
        top  = foot + np.array ([0.1, 0.0, 1.0]) * 3 * segl
        a, b = (foot, top) if c ['dend'] == 0 else (top, foot)
        wires.insert (min (c ['pos'], len (wires)), (gen.wire (3, a, b, rad), {0: 'd0', 1: 'd1'}))
    geo, ends = [], []
    for wi, (g, nodes) in enumerate (wires):
        geo.append (g)
        for e in (0, 1):
            ends.append (dict (w = wi, e = e, node = nodes [e], gnd = False))
    spec = dict ( f = 299.8 / lam, geo = geo, media = ([[0, 0, 0]] if gnd else None), src = [], loads = [], ends = ends
                , tol = tol, style = 'auto')
    if (k + mask + c ['pos'] + c ['dend']) % 3 == 0:
        # the site written in map coordinates (hundreds of kilometres from the origin, moved there by an option): the
        # end that stops 4 tolerances short is still a free end
        spec ['tr'] = [['translate', 1.0, [448000.0, 5411000.0, 0.0], None]]
    return spec
# end def make_decoy

def make_exact (c):
    """ two wire ends whose distance is the matching distance itself (1/1000 of the shortest segment, in numbers that
        floating point holds exactly), half of it, or a little more; a further wire, defined first, stands elsewhere """
    sl, fac, order, rev = c ['sl'], c ['fac'], c ['order'], c ['rev']
    g   = 1e-3 * sl * fac
    w0  = (gen.wire (3, [5 * sl, 5 * sl, 5 * sl], [5 * sl, 5 * sl, 8 * sl], 0.01 * sl), {0: 'a0', 1: 'a1'})
    joined = fac <= 1.0
    n1, n2 = 4, 3
    a = (gen.wire (n1, [-n1 * sl, 0.0, 0.0], [0.0, 0.0, 0.0], 0.01 * sl), {0: 'b0', 1: 'J'})
    if rev & 1:
        a = (gen.wire (n1, [0.0, 0.0, 0.0], [-n1 * sl, 0.0, 0.0], 0.01 * sl), {1: 'b0', 0: 'J'})
    b = (gen.wire (n2, [g, 0.0, 0.0], [g, n2 * sl, 0.0], 0.01 * sl), {0: 'J' if joined else 'K', 1: 'c1'})
    if rev & 2:
        b = (gen.wire (n2, [g, n2 * sl, 0.0], [g, 0.0, 0.0], 0.01 * sl), {1: 'J' if joined else 'K', 0: 'c1'})
    wires = [w0, a, b] if order == 0 else [w0, b, a]
    geo, ends = [], []
    for wi, (gg, nodes) in enumerate (wires):
        geo.append (gg)
        for e in (0, 1):
            ends.append (dict (w = wi, e = e, node = nodes [e], gnd = False))
    return dict (f = 299.8 / (40 * sl), geo = geo, media = None, src = [], loads = [], ends = ends, tol = 1e-3 * sl, style = 'auto')
# end def make_exact

def make_moved (c):
    """ star of k ends; one more wire is written elsewhere and brought onto the junction by a request for its tag
        alone ('onto'), one wire of the star is written on the junction and taken away ('off'), or both """
    from pmv.oracles import georef
    k, mask = c ['k'], c ['mask']
    lam  = 20.0
    segl = lam / 30
    J    = np.array ([0.3, -0.2, 0.1])
    if c ['kind'] == 'translate':
        mv  = ['translate', 1.0, [2.5, -1.5, 4.0]]
        fwd = lambda x: np.asarray (x, float) + np.asarray (mv [2])
        inv = lambda x: np.asarray (x, float) - np.asarray (mv [2])
    else:
        mv  = ['rotate', 1.0, [0.0, 0.0, 90.0]]
        R   = georef.rot_xyz (mv [2])
        fwd = lambda x: R @ np.asarray (x, float)
        inv = lambda x: R.T @ np.asarray (x, float)
    geo, ends, tr = [], [], []
    def add (a, b, n, nodes, moved):
        g = gen.wire (n, a, b, 0.01)
        g ['tag'] = len (geo) + 1
        geo.append (g)
        if moved:
            tr.append ([mv [0], mv [1], mv [2], g ['tag']])
        for e in (0, 1):
            ends.append (dict (w = len (geo) - 1, e = e, node = nodes [e], gnd = False))
    for j in range (k):
        n   = 2 + j % 3
        far = J + DIRS [j] * n * segl * (1 + 0.1 * j)
        a, b, ej = (far, J, 1) if (mask >> j) & 1 else (J, far, 0)
        off = (c ['mode'] in ('off', 'both') and j == k - 1)
        # 'off': written on the junction, its own request takes it away: both ends free afterwards
        add (a, b, n, {ej: 'o%d' % j if off else 'J', 1 - ej: 'f%d' % j}, off)
    if c ['mode'] in ('onto', 'both'):
        far = J + DIRS [4] * 3 * segl
        a, b, ej = (J, far, 0) if mask & 1 else (far, J, 1)
        # written where the inverse motion puts it, arrives on the junction
        add (inv (a), inv (b), 3, {ej: 'J', 1 - ej: 'fm'}, True)
    return dict ( f = 299.8 / lam, geo = geo, media = None, src = [], loads = [], ends = ends, tr = tr
                , tol = 1e-3 * segl, style = 'explicit')
# end def make_moved

def make_dloop (c):
    from pmv.oracles import georef
    lam = 20.0
    n   = c ['n']
    rad = lam / 25 * n / np.pi * (1.0 + 0.3 * c ['var'])
    arc = dict (k = 'a', n = n, radius = rad, a1 = 0.0, a2 = 180.0, r = 0.005, tag = None)
    nd  = georef.arc_nodes (n, rad, 0.0, 180.0)
    A, B = nd [0], nd [-1]
    ends = [dict (w = 0, e = 0, node = 'A', gnd = False), dict (w = 0, e = 1, node = 'B', gnd = False)]
    if c ['kind'] == 'arc-arc':
        arc2 = dict (k = 'a', n = n + 1, radius = rad, a1 = 180.0, a2 = 360.0, r = 0.005, tag = None)
        geo  = [arc, arc2]
        ends += [dict (w = 1, e = 0, node = 'B', gnd = False), dict (w = 1, e = 1, node = 'A', gnd = False)]
    else:
        m = max (2, int (round (2 * rad / (lam / 25))))
        if c ['kind'] == 'arc-chord-rev':
            w = gen.wire (m, A, B, 0.005)
            we = [('A', 0), ('B', 1)]
        else:
            w = gen.wire (m, B, A, 0.005)
            we = [('B', 0), ('A', 1)]
        geo = [arc, w]
        ends += [dict (w = 1, e = e, node = nd_, gnd = False) for nd_, e in we]
        if c ['kind'] == 'chord-first':
            w ['tag'] = 1
            arc ['tag'] = 2
    return dict ( f = 299.8 / lam, geo = geo, media = None, src = [], loads = [], ends = ends
                , tol = 1e-3 * min (lam / 25, 2 * rad * np.sin (np.pi / (2 * n))) * 0.5, style = 'auto')
# end def make_dloop

def check (c):
    spec = c if 'geo' in c else make (c)
    MM   = common.repo ()
    m    = gen.build (spec)
    N    = len (m.pulses)
    if N < 1:
        return dict (status = 'discard', reason = 'no pulses')
    # sources on two pulses so that all branches carry current
    # The report is requested twice on the same object: after a first solve
    # with one source and again after a second source has been added; the
    # second report is the one that is checked (it must describe the
    # second solution, not remembered pieces of the first).
    # source voltages over many decades (junction currents from pico- to kiloamperes)
    vs = 10.0 ** (((int (common.sha (sorted ((k, str (v)) for k, v in c.items () if k not in ('geo', 'ends', 'nodes', 'pick'))), 16) % 1000) / 1000.0) * 14 - 10) if c.get ('fam') != 'star' or c.get ('var') else 1.0
    m.sources = []
    m.register_source (MM.Excitation ((1+0.3j) * vs), 0)
    try:
        if N > 2:
            observe.solve (m)
            common.guarded (m.currents_as_mininec, 'currents_as_mininec')
            m.register_source (MM.Excitation ((0.4-1j) * vs), N - 1)
        observe.solve (m)
    except common.Repo_Crash as e:
        if 'LinAlgError' in e.key:
            return dict (status = 'discard', reason = 'singular matrix')
        raise
    I = np.array (m.current)
    if not np.isfinite (I).all () or np.abs (I).max () == 0:
        return dict (status = 'discard', reason = 'non-finite currents')
    Imax = np.abs (I).max ()
    # (as in a run over several frequencies, where the part of the report that does not depend on the frequency is
    # printed first and the current table of every step after it)
    if int (common.sha (sorted ((k, str (v)) for k, v in c.items () if k not in ('geo', 'ends', 'nodes', 'pick'))), 16) % 2:
        common.guarded (m.frq_independent_as_mininec, 'frq_independent_as_mininec')
    rep = report.parse (common.guarded (m.currents_as_mininec, 'currents_as_mininec'))
    tags, blocks, tag_of, members = graphs.expected_blocks (spec)
    viol = []
    mon  = {}
    def bad (monitor, key, msg):
        viol.append (dict (monitor = monitor, key = key, msg = msg))
    if [int (b ['tag']) for b in rep ['currents']] != tags or rep ['leftovers']:
        bad ('structure', 'current-blocks', 'CURRENT DATA blocks %s, expected %s; leftovers %r'
             % ([b ['tag'] for b in rep ['currents']], tags, rep ['leftovers'][:2]))
        return dict (status = 'violation', sig = 'structure', nontrivial = True, monitors = mon, violations = viol)
    by_tag = {g.tag: g for g in m.geo}
    by_end = {(tag_of [e ['w']], e ['e']): e for e in spec ['ends']}
    printed  = {}   # (tag, end) -> complex or 'E'
    expected = {}
    single   = {}   # (tag, end) -> list of individual signed pulse currents
    tol = spec ['tol']
    for b in rep ['currents']:
        t = int (b ['tag'])
        g = by_tag [t]
        rows = list (b ['rows'])
        for e in (0, 1):
            info = by_end [(t, e)]
            if info ['gnd']:
                continue
            if not rows:
                bad ('structure', 'end-line-missing', 'object %d: no line for end %d' % (t, e + 1))
                continue
            r = rows.pop (0) if e == 0 else rows.pop (-1)
            if r ['kind'] == 'P':
                bad ('structure', 'end-line-missing', 'object %d: no E/J line for end %d' % (t, e + 1))
                continue
            try:
                val = complex (report.num (r ['re']), report.num (r ['im']))
            except report.Report_Error:
                bad ('structure', 'end-line-unparsable', 'object %d end %d: %r' % (t, e + 1, r))
                continue
            printed [(t, e)] = (r ['kind'], val)
            # expected: signed sum of pulse currents through this wire end
            seg = g.segments [0] if e == 0 else g.segments [-1]
            X   = np.asarray (seg.p1 if e == 0 else seg.p2, float)
            tot = 0j
            parts = []
            for p in m.pulses:
                P = np.asarray (p.point, float)
                if np.linalg.norm (P - X) > 1.05 * tol:
                    continue
                for kk in (0, 1):
                    if p.segs [kk] is not seg or p.ground [kk]:
                        continue
                    d = (P - np.asarray (p.ends [0], float)) if kk == 0 else (np.asarray (p.ends [1], float) - P)
                    # a half on this very segment points along or against the wire direction
                    sgn = 1 if d @ np.asarray (seg.dirvec, float) >= 0 else -1
                    # for a pulse with both halves on the same segment object only the half
                    # that actually runs along this segment counts
                    far = np.asarray (p.ends [kk], float)
                    other = np.asarray (seg.p2 if e == 0 else seg.p1, float)
                    if np.linalg.norm (far - other) > 1.05 * tol and p.segs [0] is p.segs [1]:
                        continue
                    tot += sgn * I [p.idx]
                    parts.append (sgn * I [p.idx])
            expected [(t, e)] = tot
            single [(t, e)]   = parts
    # ---- E lines / J lines vs pulse currents
    known_sub = {}
    for (t, e), (kind, val) in printed.items ():
        info = by_end [(t, e)]
        mem  = members.get (str (info ['node']), [])
        mon ['end-lines'] = mon.get ('end-lines', 0) + 1
        if len (mem) < 2:
            if kind != 'E' or val != 0:
                bad ('end-lines', 'free-end-not-E0', 'object %d end %d is unconnected but printed as %s %r' % (t, e + 1, kind, val))
            continue
        if kind != 'J':
            bad ('end-lines', 'junction-end-not-J', 'object %d end %d is on a junction of %d ends but printed as %s' % (t, e + 1, len (mem), kind))
            continue
        exp = expected [(t, e)]
        # seven digits per printed component, six decimals (1e-6 absolute) for components of 0.1 .. 1
        if abs (val - exp) > 6e-6 * max (abs (exp), abs (val)) + 1.5e-6 * (max (abs (val.real), abs (val.imag)) >= 0.1) + 1e-30:
            parts = single [(t, e)]
            # (the finding is about the wire the later wires of a junction are joined to: the one defined first)
            if e == 0 and len (parts) >= 2 and t == min (x [0] for x in mem) and any (abs (val - x) <= 6e-6 * max (abs (x), Imax) + 1.5e-6 for x in parts):
                viol.append (dict ( monitor = 'end-lines', key = 'end1-junction-line-single-pulse'
                                  , msg = 'object %d end 1: J line %r is one of the %d pulse currents through that end, their total is %r'
                                        % (t, val, len (parts), exp)))
                known_sub [(t, e)] = exp
            else:
                bad ('end-lines', 'J-line-vs-pulses', 'object %d end %d: J line %r, pulse currents through that end total %r (%d pulses)'
                     % (t, e + 1, val, exp, len (parts)))
    # ---- Kirchhoff sums per junction
    for node, mem in members.items ():
        if len (mem) < 2:
            continue
        tot = 0j
        ok  = True
        for (t, e) in mem:
            if (t, e) not in printed:
                ok = False
                break
            v = known_sub.get ((t, e), printed [(t, e)][1])
            tot += v if e == 1 else -v
        if not ok:
            continue
        mon ['kcl'] = mon.get ('kcl', 0) + 1
        if abs (tot) > (6e-6 * Imax + 1.5e-6 * (Imax >= 0.1)) * len (mem) + 1e-30:
            bad ('kcl', 'kcl-sum', 'junction %s of %d ends: into-junction currents sum to %r (max |I| %.3g)' % (node, len (mem), tot, Imax))
    sizes = sorted (len (v) for v in members.values () if len (v) > 1)
    if c.get ('fam') == 'moved':
        sig = 'moved|%s|%s|k%d|m%d' % (c ['mode'], c ['kind'], c ['k'], c ['mask'])
    elif c.get ('fam') == 'decoy':
        sig = 'decoy|%s|k%d|m%d|p%d%d' % (c ['kind'], c ['k'], c ['mask'], c ['pos'], c ['dend'])
    elif c.get ('fam') == 'exact':
        sig = 'exact|%g|%r|%d%d' % (c ['sl'], c ['fac'], c ['order'], c ['rev'])
    elif c.get ('fam') == 'dloop':
        sig = 'dloop|%s|n%d' % (c ['kind'], c ['n'])
    elif c.get ('fam') == 'ring':
        sig = 'ring|n%d|att%d|pre%d' % (c ['n'], c ['att'], c.get ('pre', 0))
    elif 'fam' in c and c.get ('fam') == 'star':
        first = c ['perm'][0]
        sig = 'star|k%d|m%d|g%d|first%d' % (c ['k'], c ['mask'], c ['gnd'], (c ['mask'] >> first) & 1)
    else:
        kinds = ''.join (sorted (set (g ['k'] for g in spec ['geo'])))
        sig = 'graph|%s|%s|%s' % ('gnd' if spec ['media'] else 'free', sizes, kinds)
    nontrivial = bool (sizes and (max (sizes) >= 3 or len (sizes) >= 2)) or c.get ('fam') in ('ring', 'dloop', 'decoy', 'moved', 'exact')
    return dict ( status = 'violation' if viol else 'held', sig = sig, nontrivial = nontrivial
                , monitors = mon, violations = viol [:6], info = dict (N = N, sizes = sizes))
# end def check

def evidence_extra (cases):
    n = sum (1 for c in cases if c ['spec'].get ('fam') == 'star' and c ['res'].get ('status') in ('held', 'violation'))
    return dict ( enumerated_star_cases = n
                , exhaustive_subspace = 'stars of 2..5 wire ends x 2^k end choices x k! orders (x {free space, ground}) enumerated completely: %d cases' % n)
# end def evidence_extra
