""" C10 - the far field is the radiation integral of the currents; dBi
    and V/m tables describe the same field. Reference radiation
    integrals on the recorded currents + table identities.
"""
import numpy as np
from pmv import common, gen, observe, corpus
from pmv.oracles import ffref

ID   = 'C10'
RULE = ( 'random structures (arbitrary 3-D rotation in free space, all ground families over ideal ground; bent, '
         'branched, closed polygons; 1..3 complex sources) solved by the real code; the far field is requested on '
         'random grids (negative / fractional steps, full sphere or upper hemisphere) with random power and distance '
         'and compared (complex E_theta, E_phi) with the point-moment radiation integral (1e-4 of the maximum) and '
         'the exact-segment integral (2 % for segments <= lambda/18); table identities: gain = |E|^2 r^2 / 59.96 P per '
         'polarisation, total = V + H, sqrt (P) and 1/r scaling, 360-degree periodicity, azimuth independence at the '
         'zenith, -999 floor. non-trivial = currents with more than one Cartesian component or ground; distinct = '
         'feature signature'
       )
MIN_EVAL = dict (quick = 150, thorough = 3000)
ANCHORS  = ['Mininec.compute_far_field', 'Far_Field_Pattern.__init__']
ANCHORS_REQUIRED = ['Mininec.compute_far_field', 'Far_Field_Pattern.__init__']
ASSUMPTIONS = [ 'pulse points, far ends and currents are taken from the solved model (geometry decided by C02/C12)'
              , 'constant eta / 4 pi = 29.979221 as documented in the code under test and in MININEC'
              ]

def plan (tier, seed):
    n = 260 if tier == 'quick' else 5000
    return [dict (i = i, seed = seed) for i in range (n)] + corpus.plan_cases (seed, tier, 1, 3)
# end def plan

def make (c):
    rng = np.random.default_rng ([c ['seed'], 10, c ['i']])
    u = rng.random ()
    if 'corpus' in c:
        # the repository's antennas (real ground replaced by the ideal plane: the reference integrals know images only)
        spec = corpus.make (c, 10)
        rng  = corpus.rng_of (c, 10)
        if spec ['media'] is not None:
            spec ['media'] = [[0.0, 0.0, 0.0, None]]
            spec.pop ('boundary', None)
            spec.pop ('radials', None)
    else:
        spec = gen.curve_spec (rng) if u < 0.1 else None
        if spec is None:
            if u < 0.55:
                spec = gen.fam_free (rng, equal_junction = bool (rng.random () < 0.5), seg_hi = 1 / 18.01)
            else:
                spec = gen.fam_ground (rng, seg_hi = 1 / 18.01)
        gen.add_sources (rng, spec, nmax = 3)
        gen.taper_some (np.random.default_rng ([c ['seed'], 101, c ['i']]), spec, 0.15)
    # drive levels from microvolts to megavolts (input powers from 1e-15 W up): every relation of the
    # statement is a ratio, none depends on the level
    rl = np.random.default_rng ([c ['seed'], 102, c ['i']])
    if rl.random () < 0.25:
        k = float (10 ** rl.uniform (-7.5, -4.5)) if rl.random () < 0.7 else float (10 ** rl.uniform (3, 6))
        for s in spec ['src']:
            s ['v'] = [s ['v'][0] * k, s ['v'][1] * k]
        spec ['level'] = k
    gnd  = spec ['media'] is not None
    nth  = int (rng.integers (2, 8))
    nph  = int (rng.integers (2, 9))
    if gnd:
        t0 = float (rng.choice ([0, 0, 3.5, 10]))
        ts = float ((88 - t0) / max (1, nth - 1)) * float (rng.choice ([1, 0.5, 0.37]))
        if rng.random () < 0.3:
            t0, ts = t0 + ts * (nth - 1), -ts
    else:
        t0 = float (rng.choice ([0, 0, 7.25, -30, 180]))
        ts = float (rng.choice ([13.7, 22.5, 30, -19.3, 45]))
    p0 = float (rng.choice ([0, -90, 12.5, 200]))
    ps = float (rng.choice ([45, 60, -33.3, 90, 17.1]))
    # azimuth sweeps that end (or start) exactly on 360 / 0 / 180 degrees without starting on a multiple of 360
    re = np.random.default_rng ([c ['seed'], 103, c ['i']])
    if re.random () < 0.15:
        end = float (re.choice ([360.0, 360.0, 0.0, 180.0, -360.0, 720.0]))
        p0  = end - ps * (nph - 1)
    # a fine elevation cut: several hundred zenith angles in one request (half-degree and quarter-degree steps)
    rb = np.random.default_rng ([c ['seed'], 104, c ['i']])
    if rb.random () < 0.1:
        nth = int (rb.choice ([361, 300, 513, 721]))
        t0, ts = (0.0, (88.0 if gnd else 180.0) / (nth - 1))
        nph = int (rb.integers (1, 3))
    spec ['ff'] = dict ( theta = [t0, ts, nth], phi = [p0, ps, nph]
                       , pwr = float (10 ** rng.uniform (-3, 4)), dist = float (10 ** rng.uniform (0, 5))
                       , pwr2 = float (10 ** rng.uniform (-3, 4)), dist2 = float (10 ** rng.uniform (0, 5)))
    return gen.clean (spec)
# end def make

def check (c):
    spec = c if 'geo' in c else make (c)
    MM   = common.repo ()
    m    = gen.build (spec)
    ok, why, facts = gen.validity (m, seg_max = 1 / 18., check_junction_ratio = None)
    observe.solve (m)
    if not np.isfinite (m.current).all ():
        return dict (status = 'discard', reason = 'non-finite currents')
    if m.power <= 0:
        return dict (status = 'discard', reason = 'sources absorb net power')
    ff   = spec ['ff']
    zen  = MM.Angle (*ff ['theta'])
    azi  = MM.Angle (*ff ['phi'])
    gnd_env = m.media is not None
    viol = []
    mon  = {}
    worst = 0.0
    margins = {}
    def judge (name, measured, allowed, msg, key = None):
        nonlocal worst
        mon [name] = mon.get (name, 0) + 1
        worst = max (worst, measured / allowed)
        margins [name.split (':') [0]] = max (margins.get (name.split (':') [0], 0.0), measured / allowed)
        if not (measured <= allowed):
            viol.append (dict (monitor = name, key = key or name, msg = msg, measured = measured, allowed = allowed))
    # ---- (a), (b): complex field vs radiation integrals, at r = 1 and source power
    common.guarded (lambda: m.compute_far_field (zen, azi, pwr = None, dist = 1.0), 'compute_far_field')
    F0   = m.far_field
    et0, ep0 = np.array (F0.e_theta), np.array (F0.e_phi)
    g0   = np.array (F0.gain)
    th, ph = np.meshgrid (zen.angle_deg (), azi.angle_deg ())
    et, ep = ffref.far_field (m, th, ph, 'point')
    # "pattern maximum" is the maximum over the whole sphere (upper hemisphere over ground), not over the
    # directions that happen to be in the requested table: taken from the reference on a 5 x 10 degree grid
    tg, pg = np.meshgrid (np.arange (0.0, 90.1 if m.media is not None else 180.1, 5.0), np.arange (0.0, 360.0, 10.0))
    gt, gp = ffref.far_field (m, tg, pg, 'point')
    mx = max (abs (et).max (), abs (ep).max (), float (np.sqrt (abs (gt) ** 2 + abs (gp) ** 2).max ()), 1e-300)
    dev = max (abs (et0 - et).max (), abs (ep0 - ep).max ()) / mx
    judge ('point-moment', dev, 1e-4, 'far field deviates %.3g of the pattern maximum from the point-moment radiation integral' % dev)
    if facts ['seg_max'] <= 1 / 18. * (1 + 1e-9):
        xt, xp = ffref.far_field (m, th, ph, 'exact')
        mx2 = mx
        dev = max (abs (et0 - xt).max (), abs (ep0 - xp).max ()) / mx2
        mon ['exact-integral'] = 1
        worst = max (worst, dev / 0.02)
        if dev > 0.02:
            st, sp = ffref.far_field (m, th, ph, 'exact-straight')
            dev2 = max (abs (et0 - st).max (), abs (ep0 - sp).max ()) / mx2
            if dev2 <= 0.02:
                viol.append (dict ( monitor = 'exact-integral', key = 'corner-pulse-moment-placement'
                                  , msg = 'deviation %.3g from the exact integral, %.3g when bent pulses keep the MININEC placement' % (dev, dev2)))
            else:
                viol.append (dict ( monitor = 'exact-integral', key = 'exact-integral'
                                  , msg = 'far field deviates %.3g of the maximum from the exact radiation integral (segments <= lambda/18)' % dev
                                  , measured = dev, allowed = 0.02))
    # ---- (c): dBi <-> V/m at requested power and distance
    P, r = ff ['pwr'], ff ['dist']
    common.guarded (lambda: m.compute_far_field (zen, azi, pwr = P, dist = r), 'compute_far_field')
    F1   = m.far_field
    et1, ep1 = np.array (F1.e_theta), np.array (F1.e_phi)
    g1   = np.array (F1.gain)
    judge ('gain-independent-of-power', np.abs (g1 - g0).max (), 1e-9, 'dBi table changed with requested power / distance')
    lin  = np.stack ([np.abs (et1.T) ** 2, np.abs (ep1.T) ** 2], -1) * r * r / (59.96 * P)
    lin  = np.concatenate ([lin, lin.sum (-1, keepdims = True)], -1)
    glin = 10 ** (g1 / 10)
    sel  = g1 > -998
    if sel.any ():
        d = np.abs (glin [sel] - lin [sel]) / np.maximum (glin [sel], 1e-300)
        judge ('gain=|E|^2r^2/59.96P', d.max (), 1e-4, 'dBi value and V/m value of the same direction differ by %.3g relative' % d.max ())
    floor = (~sel) & (lin > 1.0001e-30)
    judge ('-999-floor', float (floor.sum ()), 0.5, '-999 printed where the linear gain is %r' % (lin [floor] [:3],))
    tot  = glin [..., 0] * (g1 [..., 0] > -998) + glin [..., 1] * (g1 [..., 1] > -998)
    st   = g1 [..., 2] > -998
    if st.any ():
        # components below the 1e-30 floor are printed as -999 (linear value unknown, < 1e-30 each)
        d = np.maximum (np.abs (tot [st] - glin [..., 2][st]) - 2.0001e-30, 0) / glin [..., 2][st]
        judge ('total=V+H', d.max () + 1e-300, 1e-9, 'total gain is not the power sum of vertical and horizontal')
    # ---- (d): scaling with power and distance
    P2, r2 = ff ['pwr2'], ff ['dist2']
    common.guarded (lambda: m.compute_far_field (zen, azi, pwr = P2, dist = r2), 'compute_far_field')
    F2   = m.far_field
    k    = np.sqrt (P2 / P) * r / r2
    mx1  = max (np.abs (et1).max (), np.abs (ep1).max (), 1e-300)
    d    = max (np.abs (np.array (F2.e_theta) - k * et1).max (), np.abs (np.array (F2.e_phi) - k * ep1).max ()) / (k * mx1)
    judge ('V/m-scaling', d, 1e-9, 'V/m values do not scale with sqrt (P) / r: %.3g' % d)
    mxr  = max (np.abs (et0).max (), np.abs (ep0).max (), 1e-300)
    kk   = np.sqrt (P / m.power) / r
    d    = max (np.abs (et1 - kk * et0).max (), np.abs (ep1 - kk * ep0).max ()) / (kk * mxr)
    judge ('V/m-vs-source-power', d, 1e-9, 'V/m values at requested power are not sqrt (P / P_source) / r times the unit values: %.3g' % d)
    # ---- (e): 360-degree periodicity, zenith
    zen3 = MM.Angle (ff ['theta'][0], ff ['theta'][1], ff ['theta'][2])
    azi3 = MM.Angle (ff ['phi'][0] + 360.0, ff ['phi'][1], ff ['phi'][2])
    common.guarded (lambda: m.compute_far_field (zen3, azi3, pwr = P, dist = r), 'compute_far_field')
    g3 = np.array (m.far_field.gain)
    # (directions within 100 dB of the strongest: deeper in a null the last bit of the angle's cosine decides)
    both = (g1 > max (-200, g1.max () - 100)) & (g3 > max (-200, g1.max () - 100))
    judge ('phi+360', (np.abs (g1 - g3) [both].max () if both.any () else 0.0), 1e-6, 'rows 360 degrees apart differ')
    zen4 = MM.Angle (0.0, 1.0, 1)
    azi4 = MM.Angle (0.0, 37.0, 9)
    common.guarded (lambda: m.compute_far_field (zen4, azi4), 'compute_far_field')
    g4 = np.array (m.far_field.gain) [0, :, 2]
    if g4.max () > -200:
        judge ('zenith', g4.max () - g4.min (), 1e-6, 'total gain at the zenith varies with azimuth: %s' % g4)
    # ---- same object, sources changed at the same frequency, same angle grid again: the
    # reported field must be the integral of the *new* currents
    # a request without a power level after requests with one: the level of an earlier request must not stick
    common.guarded (lambda: m.compute_far_field (zen, azi, dist = 1.0), 'compute_far_field')
    d = max (np.abs (np.array (m.far_field.e_theta) - et0).max (), np.abs (np.array (m.far_field.e_phi) - ep0).max ()) / mxr
    judge ('V/m-default-level-again', d, 1e-9, 'a request without a power level after requests for %.3g and %.3g W differs by %.3g from the first request without one' % (P, P2, d))
    # the caller keeps its two Angle objects and changes their fields in place between requests (same number of
    # angles): the table is the field in the directions the objects describe now
    ang = np.array (zen.angle_deg ())
    dz  = 1.1 if (not gnd_env or ang.max () + 1.1 <= 89.0) else (-1.1 if ang.min () - 1.1 >= 0 else 0.0)
    zen.initial = zen.initial + dz
    azi.initial = azi.initial - 21.5
    azi.inc     = azi.inc * 0.5
    common.guarded (lambda: m.compute_far_field (zen, azi, pwr = None, dist = 1.0), 'compute_far_field')
    zn, an = MM.Angle (ff ['theta'][0] + dz, ff ['theta'][1], ff ['theta'][2]), MM.Angle (ff ['phi'][0] - 21.5, ff ['phi'][1] * 0.5, ff ['phi'][2])
    th2, ph2 = np.meshgrid (zn.angle_deg (), an.angle_deg ())
    e2t, e2p = ffref.far_field (m, th2, ph2, 'point')
    dev = max (abs (np.array (m.far_field.e_theta) - e2t).max (), abs (np.array (m.far_field.e_phi) - e2p).max ()) / mx
    judge ('point-moment.angles-changed-in-place', dev, 1e-4, 'Angle objects of the first request changed in place (zenith %+.1f, azimuth -21.5, half the azimuth step) and handed over again: the table deviates %.3g of the maximum from the field in the directions they now describe' % (dz, dev))
    zen.initial, azi.initial, azi.inc = ff ['theta'][0], ff ['phi'][0], ff ['phi'][1]      # ... and changed back
    # (the last request before the sources change is for the very grid that is asked for afterwards)
    common.guarded (lambda: m.compute_far_field (zen, azi, pwr = None, dist = 1.0), 'compute_far_field')
    d = max (np.abs (np.array (m.far_field.e_theta) - et0).max (), np.abs (np.array (m.far_field.e_phi) - ep0).max ()) / mxr
    judge ('V/m-angles-changed-back', d, 1e-9, 'the first request made again after the Angle objects were changed and changed back differs by %.3g' % d)
    src = [(x.idx, complex (x.voltage)) for x in m.sources]
    m.sources = []
    for j, (idx, v) in enumerate (src):
        m.register_source (MM.Excitation (v * (0.3 - 1.1j) ** (j + 1)), idx)
    if len (src) == 1 and len (m.pulses) > 2:
        other = (src [0][0] + len (m.pulses) // 2) % len (m.pulses)
        m.register_source (MM.Excitation (0.7 + 0.2j), other)
    observe.solve (m)
    if m.power > 0 and np.isfinite (m.current).all ():
        common.guarded (lambda: m.compute_far_field (zen, azi, pwr = None, dist = 1.0), 'compute_far_field')
        et, ep = ffref.far_field (m, th, ph, 'point')
        mx = max (abs (et).max (), abs (ep).max (), 1e-300)
        dev = max (abs (np.array (m.far_field.e_theta) - et).max (), abs (np.array (m.far_field.e_phi) - ep).max ()) / mx
        judge ('point-moment.re-solved', dev, 1e-4, 'after changing the sources on the same object the far field deviates %.3g of the maximum from the integral of the new currents' % dev)
    # ---- the report of a run that asks for near field (at a power level of its own) and far field together: the V/m
    # table is the field of the currents for the power the sources deliver, at the distance asked for
    if c.get ('i', 0) % 6 == 0 and 'corpus' not in c:
        from pmv.oracles import report
        lam_ = gen.C_MHZ / m.f
        D_   = float (ff ['dist'])
        argv = gen.to_argv (spec, with_sources = False)        # (one source of 1 V on pulse 1)
        extra = ['--theta=%r,%r,%d' % (10.0, 25.0, 3), '--phi=%r,%r,%d' % (0.0, 90.0, 2), '--option', 'far-field-absolute', '--ff-distance', repr (D_)
                , '--option', 'near-field', '--near-field=%r,%r,%r,1,1,1,1,1,1' % (3 * lam_, 2 * lam_, 3 * lam_), '--nf-power', repr (float (ff ['pwr']))]
        rr = common.run_main (argv + extra)
        if rr ['kind'] == 'exception':
            raise common.Repo_Crash (rr ['exc'], 'main(near + far)')
        if rr ['ret'] is None:
            rep = report.parse (rr ['out'])
            mc  = common.build_argv (argv)
            observe.solve (mc)
            common.guarded (lambda: mc.compute_far_field (MM.Angle (10.0, 25.0, 3), MM.Angle (0.0, 90.0, 2), dist = D_), 'compute_far_field')
            et_, ep_ = np.abs (np.array (mc.far_field.e_theta)), np.abs (np.array (mc.far_field.e_phi))
            rows = (rep.get ('far_abs') or {}).get ('rows') or []
            mon ['report.near+far'] = 1
            if len (rows) != 6:
                viol.append (dict (monitor = 'report.near+far', key = 'V/m-table-rows', msg = '%d rows in the V/m table of a run with near and far field for 3 x 2 angles' % len (rows)))
            else:
                got = np.array ([[report.num (r [2]), report.num (r [4])] for r in rows])
                want = np.array ([[et_ [i, j], ep_ [i, j]] for j in range (2) for i in range (3)]) if et_.shape == (3, 2) else np.array ([[et_ [j, i], ep_ [j, i]] for j in range (2) for i in range (3)])
                dv = float (np.abs (got - want).max () / max (want.max (), 1e-300))
                judge ('report.near+far', dv, 2e-3, 'V/m table of a run that also asks for the near field at %.4g W: deviates %.3g of the maximum from the field for the power of the sources' % (ff ['pwr'], dv), key = 'V/m-with-near-field-request')
    ncomp = int ((np.abs (np.array ([h ['tau'] for h in ffref.halves (m)])).max (0) > 1e-6).sum ())
    sig = gen.signature (spec, m, extra = ['comp%d' % ncomp, 'valid%d' % ok])
    return dict ( status = 'violation' if viol else 'held', sig = sig, nontrivial = bool (ncomp > 1 or m.media is not None)
                , margin = worst, margins = margins, monitors = mon, violations = viol [:6]
                , info = dict (seg_max = facts ['seg_max'], N = len (m.pulses)))
# end def check
