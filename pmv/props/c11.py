""" C11 - real ground changes only the far field, consistently with its
    limits. Bit-identity of matrix / right-hand side / currents between
    ideal and real ground plus an attribute-access audit of Medium during
    compute (); convergence with conductivity; medium split; far medium.
"""
import copy
import numpy as np
from pmv import common, gen, observe, corpus

ID   = 'C11'
RULE = ( 'all ground families with 1..2 sources and optionally a lumped load in the grounded base pulse; per case the '
         'ideal-ground model and real-ground variants: single medium (eps 1..80, sigma 1e-4..1e1), 2..4 media linear and '
         'circular with random boundaries and heights, radials. Monitors: Z, rhs, currents bit-identical to ideal ground '
         '(and no read of permittivity / conductivity during compute); sigma sweep 1e2..1e12: deviation from the ideal-ground '
         'pattern (elevation >= 5 deg) shrinks monotonically, by >= 3 per factor 100, to <= 1e-5 of the maximum; splitting a '
         'medium at a random coordinate (same constants and height) and appending a medium beyond every reflection point '
         'leave the pattern unchanged. non-trivial = more than a single vertical wire or more than one medium; distinct = '
         'feature signature + media forms'
       )
MIN_EVAL = dict (quick = 100, thorough = 2000)
ANCHORS  = ['Mininec.compute_far_field', 'Medium.impedance', 'Medium.set_next', 'Mininec.check_ground', 'Mininec.compute_impedance_matrix']
ANCHORS_REQUIRED = ['Mininec.compute_far_field', 'Medium.impedance', 'Medium.set_next']
ANCHORS_MIN = {'Mininec.compute_far_field': 0.9}    # the real-ground branch (Fresnel coefficients, media lookup, radial screen)
ASSUMPTIONS = ['reflection point of a pulse at height z for zenith angle theta lies z tan (theta) from its foot point (computed by the harness)']
CASE_TIMEOUT = 300

def plan (tier, seed):
    n = 150 if tier == 'quick' else 3000
    return [dict (i = i, seed = seed) for i in range (n)] \
         + corpus.plan_cases (seed, tier, 1, 2, only = lambda s: s ['media'] is not None, skip = corpus.OUTSIDE_RULES)
# end def plan

def make (c):
    rng  = np.random.default_rng ([c ['seed'], 11, c ['i']])
    if 'corpus' in c:
        # the repository's antennas over ground: geometry, sources and loads of the file, the ground replaced by the forms below
        spec = corpus.make (c, 11)
        rng  = corpus.rng_of (c, 11)
        spec.pop ('boundary', None)
        spec.pop ('radials', None)
    else:
        spec = gen.fam_ground (rng, shift = bool (rng.random () < 0.6))
        gen.add_sources (rng, spec, nmax = 2)
        base = [fd for fd in spec.get ('feeds') or [] if abs (fd ['at'][2]) < 1e-12]
        if base and rng.random () < 0.4:
            spec ['loads'] = [dict (k = 'z', z = [float (10 ** rng.uniform (0.5, 2.5)), float (rng.uniform (-100, 100))], at = base [0]['at'])]
    lam = gen.C_MHZ / spec ['f']
    spec ['g'] = dict \
        ( eps = float (rng.uniform (1, 80)), sig = float (10 ** rng.uniform (-4, 1))
        , eps2 = float (rng.uniform (1, 80)), sig2 = float (10 ** rng.uniform (-4, 1)), h2 = float (-rng.choice ([0, 0.5, 3]) * rng.random ())
        , eps3 = float (rng.uniform (1, 80)), sig3 = float (10 ** rng.uniform (-4, 1)), h3 = float (-rng.choice ([0, 1, 5]) * rng.random ())
        , c1 = float (lam * 10 ** rng.uniform (-1, 1.5)), k2 = float (rng.uniform (1.2, 8))
        , boundary = str (rng.choice (['linear', 'circular'])), split = float (rng.uniform (0.05, 3)) * lam * float (rng.choice ([1, 1, -1]))
        , radials = [int (rng.integers (3, 90)), float (10 ** rng.uniform (-4, -2.5))]
        )
    return gen.clean (spec)
# end def make

class Audit:
    """ records reads of the ground constants of any Medium while active """
    def __init__ (self):
        self.reads = []
    def __enter__ (self):
        MM = common.repo ()
        self.cls  = MM.Medium
        self.orig = self.cls.__dict__.get ('__getattribute__')
        reads = self.reads
        def ga (obj, name):
            if name in ('permittivity', 'conductivity'):
                reads.append (name)
            return object.__getattribute__ (obj, name)
        self.cls.__getattribute__ = ga
        return self
    def __exit__ (self, *a):
        if self.orig is None:
            del self.cls.__getattribute__
        else:
            self.cls.__getattribute__ = self.orig
# end class Audit

def solved (spec, media, boundary = None, radials = None):
    s = copy.deepcopy ({k: v for k, v in spec.items () if k != 'g'})
    s ['media'] = media
    if boundary:
        s ['boundary'] = boundary
    if radials:
        s ['radials'] = radials
    m = gen.build (s)
    common.guarded (m.compute_impedance_matrix, 'compute_impedance_matrix')
    Z0 = np.array (m.Z)
    with Audit () as au:
        observe.solve (m)
    return m, Z0, au.reads
# end def solved

def pattern (m):
    return np.array (observe.pattern (m, nth = 9, nph = 6, th0 = 0.0, th1 = 85.0).gain)
# end def pattern

def max_reflection (m, boundary):
    """ largest boundary coordinate reached by any reflection point for the directions of pattern ():
        a pulse at (x, y, z) seen under zenith angle theta, azimuth phi reflects at
        (x + z tan (theta) cos (phi), y + z tan (theta) sin (phi)); a linear boundary is a line x = const,
        a circular one a circle about the origin
    """
    th = np.radians (np.linspace (0.0, 85.0, 9))
    ph = np.radians (3.0 + 60.0 * np.arange (6))
    out = 0.0
    for p in m.pulses:
        x, y, z = (float (v) for v in p.point)
        t  = z * np.tan (th) [:, None]
        rx = x + t * np.cos (ph) [None, :]
        ry = y + t * np.sin (ph) [None, :]
        d  = rx if boundary == 'linear' else np.hypot (rx, ry)
        out = max (out, float (d.max ()))
    return out
# end def max_reflection

def check (c):
    spec = c if 'geo' in c else make (c)
    g    = spec ['g']
    mi, Zi0, _ = solved (spec, [[0, 0, 0]])
    ok, why, facts = gen.validity (mi, seg_max = 1 / 10., check_junction_ratio = None)
    if not ok:
        return dict (status = 'discard', reason = 'validity: ' + why [0])
    if not (mi.power > 0):
        return dict (status = 'discard', reason = 'sources absorb net power')
    viol = []
    mon  = {}
    worst = 0.0
    def bad (monitor, key, msg, **kw):
        if len (viol) < 8:
            viol.append (dict (monitor = monitor, key = key, msg = msg, **kw))
    forms = \
        [ ('1med',  [[g ['eps'], g ['sig'], 0.0]], None, None)
        , ('2med',  [[g ['eps'], g ['sig'], 0.0, g ['c1']], [g ['eps2'], g ['sig2'], g ['h2']]], g ['boundary'], None)
        , ('3med',  [[g ['eps'], g ['sig'], 0.0, g ['c1']], [g ['eps2'], g ['sig2'], g ['h2'], g ['c1'] * g ['k2']], [g ['eps3'], g ['sig3'], g ['h3']]], g ['boundary'], None)
        , ('rad',   [[g ['eps'], g ['sig'], 0.0, g ['c1']], [g ['eps2'], g ['sig2'], g ['h2']]], 'circular', g ['radials'])
        # a radial screen on uniform soil: both media with the same constants and height
        , ('radu',  [[g ['eps'], g ['sig'], 0.0, g ['c1']], [g ['eps'], g ['sig'], 0.0]], 'circular', g ['radials'])
        # a radial screen without saying that the boundary is circular ('Specifying radials will automatically select
        # circular boundary')
        , ('rada',  [[g ['eps'], g ['sig'], 0.0, g ['c1']], [g ['eps2'], g ['sig2'], g ['h2']]], None, g ['radials'])
        ]
    pats = {}
    for name, media, bnd, rad in forms:
        m, Z0, reads = solved (spec, media, bnd, rad)
        mon ['currents-identical'] = mon.get ('currents-identical', 0) + 1
        if not (np.array_equal (Z0, Zi0) and np.array_equal (np.array (m.rhs), np.array (mi.rhs))
                and np.array_equal (np.array (m.Z), np.array (mi.Z)) and np.array_equal (np.array (m.current), np.array (mi.current))):
            dz = np.abs (np.array (m.current) - np.array (mi.current)).max () / np.abs (np.array (mi.current)).max ()
            bad ('currents-identical', 'currents-depend-on-ground', 'media form %s: matrix / right-hand side / currents differ from ideal ground (currents by %.3g)' % (name, dz))
        if reads:
            bad ('currents-identical', 'constants-read-during-compute', 'media form %s: compute () read %s of a medium' % (name, sorted (set (reads))))
        for sa, sb in zip (mi.sources, m.sources):
            if complex (sa.impedance) != complex (sb.impedance):
                bad ('currents-identical', 'impedance-depends-on-ground', 'media form %s: feed impedance %r, ideal ground %r' % (name, sb.impedance, sa.impedance))
        pats [name] = (m, pattern (m))
    gi = pattern (mi)
    mon ['radials-select-circular'] = 1
    d = float (np.abs (10 ** (pats ['rada'][1][..., 2] / 10) - 10 ** (pats ['rad'][1][..., 2] / 10)).max () / (10 ** (pats ['rad'][1][..., 2] / 10)).max ())
    if d > 1e-12 or pats ['rada'][0].boundary != 'circular':
        bad ('radials-select-circular', 'radials-without-boundary-option', 'a radial screen given without a boundary option: boundary %r, pattern differs by %.3g of the maximum from the one with the circular boundary named' % (pats ['rada'][0].boundary, d), measured = d, allowed = 1e-12)
    # ---- (b2) a first medium that conducts better and better, followed by ordinary soil: the pattern settles (every
    # further factor of 100 changes it less), it does not jump
    seq = []
    for sg in (1e4, 1e6, 1e8, 1e10, 1e12):
        m2, _, _ = solved (spec, [[g ['eps'], sg, 0.0, g ['c1']], [g ['eps2'], g ['sig2'], g ['h2']]], g ['boundary'])
        seq.append (10 ** (pattern (m2) [..., 2] / 10))
    steps = [float (np.abs (a - b).max () / b.max ()) for a, b in zip (seq [:-1], seq [1:])]
    mon ['sigma-limit-2med'] = 1
    for a, b in zip (steps [:-1], steps [1:]):
        if not (b <= a / 3 or b <= 1e-9):
            bad ('sigma-limit-2med', 'sigma-convergence-two-media', 'first of two media with sigma = 1e4 .. 1e12: successive pattern changes %s (each must be at most a third of the one before)' % (['%.2e' % x for x in steps],))
            break
    # ---- (b3) a radial screen that reaches beyond every reflection point, with more and more radials: the pattern
    # approaches that over ideal ground, for both polarisations (ten million radials are a metal sheet: within 3e-4 of the maximum,
    # and at least three times closer than a thousand radials)
    far_r = max_reflection (mi, 'circular') * 1.2 + 1e-6
    lin_i0 = 10 ** (gi [..., 2] / 10)
    dscr = []
    for nrad in (1000, 100000, 10000000):
        m3, _, _ = solved (spec, [[g ['eps'], g ['sig'], 0.0, far_r], [g ['eps2'], g ['sig2'], 0.0]], 'circular', [nrad, g ['radials'][1]])
        dscr.append (float (np.abs (10 ** (pattern (m3) [..., 2] / 10) - lin_i0).max () / lin_i0.max ()))
    mon ['dense-screen'] = 1
    worst = max (worst, dscr [-1] / 3e-4)
    if dscr [-1] > 3e-4 or not (dscr [-1] <= dscr [0] / 3 or dscr [-1] <= 1e-6):
        bad ('dense-screen', 'dense-screen-limit', 'radial screen beyond every reflection point with 1e3, 1e5, 1e7 radials: deviation from the ideal-ground pattern %s of the maximum' % (['%.2e' % x for x in dscr],), measured = dscr [-1], allowed = 3e-4)
    # ---- (b) conductivity limit
    sel  = np.ones (gi.shape [:2], bool)
    sel [-1] = False           # 85 deg zenith = 5 deg elevation kept; drop nothing else
    sel [-1] = True
    lin_i = 10 ** (gi [..., 2] / 10)
    devs = []
    for sg in (1e2, 1e4, 1e6, 1e8, 1e10, 1e12):
        m, _, _ = solved (spec, [[g ['eps'], sg, 0.0]])
        lin = 10 ** (pattern (m) [..., 2] / 10)
        devs.append (float (np.abs (lin - lin_i).max () / lin_i.max ()))
    mon ['sigma-limit'] = 1
    floor = 1e-9
    for a, b in zip (devs [:-1], devs [1:]):
        if not (b <= a / 3 or b <= floor):
            bad ('sigma-limit', 'sigma-convergence', 'deviation from the ideal-ground pattern for sigma = 1e2..1e12: %s (must shrink by >= 3 per factor 100)' % (['%.2e' % d for d in devs],))
            break
    worst = max (worst, devs [-1] / 1e-5)
    if devs [-1] > 1e-5:
        bad ('sigma-limit', 'sigma-limit', 'at sigma = 1e12 the pattern still deviates %.3g of the maximum from ideal ground' % devs [-1], measured = devs [-1], allowed = 1e-5)
    # ---- (c) split a medium into two adjacent pieces with identical constants and height
    m1, p1 = pats ['1med']
    for bnd in ('linear', 'circular'):
        cs = abs (g ['split']) if bnd == 'circular' else g ['split']
        ms, _, _ = solved (spec, [[g ['eps'], g ['sig'], 0.0, cs], [g ['eps'], g ['sig'], 0.0]], bnd)
        ps = pattern (ms)
        mon ['split'] = mon.get ('split', 0) + 1
        d = np.abs (10 ** (ps [..., 2] / 10) - 10 ** (p1 [..., 2] / 10)).max () / (10 ** (p1 [..., 2] / 10)).max ()
        worst = max (worst, d / 1e-9)
        if d > 1e-9:
            bad ('split', 'medium-split', 'splitting the medium at %s coordinate %.4g changes the pattern by %.3g of the maximum' % (bnd, cs, d), measured = d, allowed = 1e-9)
    # ... and the lowered second medium of the two- and three-media forms
    for name in ('2med', '3med'):
        mo, po = pats [name]
        media  = copy.deepcopy ([f for f in forms if f [0] == name][0][1])
        bnd    = g ['boundary']
        k      = 1
        inner  = media [0][3]
        outer  = media [1][3] if len (media [1]) > 3 else None
        cs     = inner * 1.7 if outer is None else (inner + outer) / 2
        piece  = media [1][:3]
        media  = media [:1] + [piece + [cs], list (media [1])] + media [2:]
        ms, _, _ = solved (spec, media, bnd)
        ps = pattern (ms)
        mon ['split'] = mon.get ('split', 0) + 1
        d = np.abs (10 ** (ps [..., 2] / 10) - 10 ** (po [..., 2] / 10)).max () / (10 ** (po [..., 2] / 10)).max ()
        worst = max (worst, d / 1e-9)
        if d > 1e-9:
            bad ('split', 'medium-split', 'form %s: splitting the second medium (height %.3g) at %s coordinate %.4g changes the pattern by %.3g of the maximum' % (name, piece [2], bnd, cs, d), measured = d, allowed = 1e-9)
    # ... and the first medium of the two- and three-media forms (a medium follows the two pieces)
    for name in ('2med', '3med'):
        mo, po = pats [name]
        media  = copy.deepcopy ([f for f in forms if f [0] == name][0][1])
        cs     = media [0][3] * 0.45
        media  = [media [0][:3] + [cs]] + media
        ms, _, _ = solved (spec, media, g ['boundary'])
        ps = pattern (ms)
        mon ['split'] = mon.get ('split', 0) + 1
        d = np.abs (10 ** (ps [..., 2] / 10) - 10 ** (po [..., 2] / 10)).max () / (10 ** (po [..., 2] / 10)).max ()
        worst = max (worst, d / 1e-9)
        if d > 1e-9:
            bad ('split', 'medium-split', 'form %s: splitting the first medium at %s coordinate %.4g (of %.4g) changes the pattern by %.3g of the maximum' % (name, g ['boundary'], cs, media [1][3], d), measured = d, allowed = 1e-9)
    # ---- (d) append a medium beyond every reflection point
    for name, base_media, bnd, rad in (forms [0], forms [1], forms [3], forms [4]):
        far = max_reflection (m1, bnd or g ['boundary'])
        far = far + 1e-3 * abs (far) + 1e-6
        media = copy.deepcopy (base_media)
        last_c = max ([mm [3] for mm in media if len (mm) > 3] + [0.0])
        if last_c >= far:
            far2 = last_c * 1.5
        else:
            far2 = far
        media [-1] = media [-1][:3] + [far2]
        media.append ([g ['eps3'], g ['sig3'], g ['h3']])
        if name != '1med' and not (last_c < far2):
            continue
        # the appended medium only matters beyond far2; all reflection points lie inside only if the
        # previous boundaries do (they do: they are part of the base form)
        mf, _, _ = solved (spec, media, bnd or g ['boundary'], rad)
        pf = pattern (mf)
        pb = pats [name][1]
        mon ['far-medium'] = mon.get ('far-medium', 0) + 1
        d = np.abs (10 ** (pf [..., 2] / 10) - 10 ** (pb [..., 2] / 10)).max () / (10 ** (pb [..., 2] / 10)).max ()
        worst = max (worst, d / 1e-9)
        if d > 1e-9:
            bad ('far-medium', 'far-medium', 'form %s: a further medium beyond every reflection point (boundary %.4g, farthest reflection %.4g) changes the pattern by %.3g' % (name, far2, far, d), measured = d, allowed = 1e-9)
    # ---- (d2) the width of the last medium is documented as not used (the last medium extends to infinity): a
    # fourth value on it, placed so that reflection points fall beyond it, leaves the pattern unchanged
    for name, base_media, bnd, rad in (forms [0], forms [1], forms [2], forms [3]):
        far    = max_reflection (m1, bnd or g ['boundary'])
        last_c = max ([mm [3] for mm in base_media if len (mm) > 3] + [0.0])
        if not (far > last_c * 1.05 + 1e-6):
            continue
        media = copy.deepcopy (base_media)
        wl    = last_c + (far - last_c) * (0.15 + 0.5 * ((c.get ('i', 0) * 7 + len (name)) % 10) / 10.0)
        media [-1] = media [-1][:3] + [wl]
        ml, _, _ = solved (spec, media, bnd or g ['boundary'], rad)
        pl = pattern (ml)
        pb = pats [name][1]
        mon ['last-medium-width'] = mon.get ('last-medium-width', 0) + 1
        d = np.abs (10 ** (pl [..., 2] / 10) - 10 ** (pb [..., 2] / 10)).max () / (10 ** (pb [..., 2] / 10)).max ()
        worst = max (worst, d / 1e-9)
        if d > 1e-9:
            bad ('last-medium-width', 'last-medium-width-used', 'form %s: a width of %.4g given for the last medium (reflection points reach %.4g) changes the pattern by %.3g of the maximum' % (name, wl, far, d), measured = d, allowed = 1e-9)
    # ---- (e) a direction named with a negative zenith angle is the direction (|theta|, phi + 180): same gain,
    # whichever medium its reflection points fall on
    MM = common.repo ()
    lam0 = gen.C_MHZ / mi.f
    def table (m, zen, azi):
        common.guarded (lambda: m.compute_far_field (MM.Angle (*zen), MM.Angle (*azi)), 'compute_far_field')
        return 10 ** (np.array (m.far_field.gain) / 10)
    for name in ('2med', '3med', 'rad', 'radu', '1med'):
        mo = pats [name][0]
        tp = table (mo, (6.0, 15.5, 6), (183.0, 60.0, 6))
        tn = table (mo, (-6.0, -15.5, 6), (3.0, 60.0, 6))
        mon ['negative-zenith'] = mon.get ('negative-zenith', 0) + 1
        d = float (np.abs (tp - tn).max () / tp.max ())
        worst = max (worst, d / 1e-9)
        if d > 1e-9:
            bad ('negative-zenith', 'negative-zenith', 'form %s: gain at (-theta, phi) differs from (theta, phi + 180) by %.3g of the maximum' % (name, d), measured = d, allowed = 1e-9)
    # ---- (g) a sweep over azimuth angles is the same table as one request per azimuth angle (the ground seen by a
    # direction does not depend on which other directions are asked for with it)
    for name in ('2med', '3med', 'rad', 'radu'):
        mo = pats [name][0]
        sw = table (mo, (12.0, 31.0, 3), (20.0, 85.0, 4))
        one = np.stack ([table (mo, (12.0, 31.0, 3), (20.0 + 85.0 * k, 85.0, 1)) [:, 0, :] for k in range (4)], axis = 1)
        mon ['sweep=singles'] = mon.get ('sweep=singles', 0) + 1
        d = float (np.abs (sw - one).max () / sw.max ())
        worst = max (worst, d / 1e-12)
        if d > 1e-12:
            bad ('sweep=singles', 'sweep-vs-single-requests', 'form %s: an azimuth sweep differs by %.3g of the maximum from one request per azimuth angle' % (name, d), measured = d, allowed = 1e-12)
    # ---- (h) Medium objects handed to one model and then to another (library use: the soil beyond a radial screen
    # and the same soil beyond a straight coast line): the second model is what fresh objects give
    outer = MM.Medium (g ['eps2'], g ['sig2'], g ['h2'])
    first = MM.Medium (g ['eps'], g ['sig'], 0.0, coord = g ['c1'], boundary = 'circular', nradials = int (g ['radials'][0]), radius = g ['radials'][1])
    sA = copy.deepcopy ({k: v for k, v in spec.items () if k != 'g'})
    mA = gen.build (sA, route = 'api', media_objs = [first, outer])
    observe.solve (mA)
    pattern (mA)
    mB = gen.build (sA, route = 'api', media_objs = [MM.Medium (g ['eps'], g ['sig'], 0.0, coord = g ['c1'], boundary = 'linear'), outer])
    observe.solve (mB)
    mF, _, _ = solved (spec, [[g ['eps'], g ['sig'], 0.0, g ['c1']], [g ['eps2'], g ['sig2'], g ['h2']]], 'linear')
    pB, pF = 10 ** (pattern (mB) [..., 2] / 10), 10 ** (pattern (mF) [..., 2] / 10)
    mon ['medium-object-reused'] = 1
    d = float (np.abs (pB - pF).max () / pF.max ())
    worst = max (worst, d / 1e-12)
    if d > 1e-12:
        bad ('medium-object-reused', 'medium-object-reused', 'a Medium object that was the outer medium of a circular ground with radials, used again as the outer medium of a linear ground: pattern differs by %.3g of the maximum from fresh objects (boundary now %r)' % (d, getattr (mB.media [0], 'boundary', None)), measured = d, allowed = 1e-12)
    # ---- (h4) the kind of boundary is that of the first medium: 'circular' named on a later Medium object only does not
    # turn a linear ground into a circular one
    mL = gen.build (sA, route = 'api', media_objs = [MM.Medium (g ['eps'], g ['sig'], 0.0, coord = g ['c1'], boundary = 'linear'), MM.Medium (g ['eps2'], g ['sig2'], g ['h2'], boundary = 'circular')])
    observe.solve (mL)
    pL = 10 ** (pattern (mL) [..., 2] / 10)
    mon ['boundary-of-first-medium'] = 1
    d = float (np.abs (pL - pF).max () / pF.max ())
    worst = max (worst, d / 1e-12)
    if d > 1e-12:
        bad ('boundary-of-first-medium', 'boundary-taken-from-later-medium', 'first medium linear, second Medium object made with boundary circular: pattern differs by %.3g of the maximum from the linear ground (boundary now %r)' % (d, getattr (mL.media [0], 'boundary', None)), measured = d, allowed = 1e-12)
    # ---- (h3) the first medium of a model with two media handed, afterwards, to a second model as its only medium: the
    # first model is what it was (what a model computes does not depend on which other models were made after it)
    firstC = MM.Medium (g ['eps'], g ['sig'], 0.0, coord = g ['c1'], boundary = g ['boundary'])
    mC = gen.build (sA, route = 'api', media_objs = [firstC, MM.Medium (g ['eps2'], g ['sig2'], g ['h2'], boundary = g ['boundary'])])
    observe.solve (mC)
    pC0 = 10 ** (pattern (mC) [..., 2] / 10)
    mD = gen.build (sA, route = 'api', media_objs = [firstC])
    pC1 = 10 ** (pattern (mC) [..., 2] / 10)
    mon ['medium-shared-later'] = 1
    d = float (np.abs (pC1 - pC0).max () / pC0.max ())
    worst = max (worst, d / 1e-12)
    if d > 1e-12:
        bad ('medium-shared-later', 'medium-object-shared-with-a-later-model', 'the first Medium object of a model with two media was handed to a second model as its only medium: the pattern of the first model changed by %.3g of the maximum (its first medium now ends at %r)' % (d, getattr (mC.media [0], 'coord', None)), measured = d, allowed = 1e-12)
    # ---- (h2) interface coordinates in whole numbers, handed to the classes as python ints (also one on the last medium)
    ci = max (1, int (round (g ['c1'])))
    mI = gen.build (sA, route = 'api', media_objs = [MM.Medium (g ['eps'], g ['sig'], 0, coord = ci, boundary = g ['boundary']), MM.Medium (g ['eps2'], g ['sig2'], g ['h2'], coord = 7 * ci, boundary = g ['boundary'])])
    observe.solve (mI)
    mG, _, _ = solved (spec, [[g ['eps'], g ['sig'], 0.0, float (ci)], [g ['eps2'], g ['sig2'], g ['h2']]], g ['boundary'])
    pI, pG = 10 ** (pattern (mI) [..., 2] / 10), 10 ** (pattern (mG) [..., 2] / 10)
    mon ['int-coordinates'] = 1
    d = float (np.abs (pI - pG).max () / pG.max ())
    worst = max (worst, d / 1e-12)
    if d > 1e-12:
        bad ('int-coordinates', 'media-coordinates-as-ints', 'interface coordinates %d and %d given as python ints: pattern differs by %.3g of the maximum from the same ground given in floats' % (ci, 7 * ci, d), measured = d, allowed = 1e-12)
    # ---- (i) the frequency of the object changed (a sweep): the pattern over every form of ground is that of a fresh
    # object at the new frequency (screen reactance and ground impedances follow the frequency)
    for name in ('rad', '2med'):
        form = [f for f in forms if f [0] == name][0]
        mo = pats [name][0]
        f0 = mo.f
        mo.f = f0 * 1.37
        observe.solve (mo)
        ps = 10 ** (pattern (mo) [..., 2] / 10)
        mo.f = f0
        s2 = copy.deepcopy (spec)
        s2 ['f'] = f0 * 1.37
        mf2, _, _ = solved (s2, form [1], form [2], form [3])
        pf = 10 ** (pattern (mf2) [..., 2] / 10)
        mon ['frequency-changed'] = mon.get ('frequency-changed', 0) + 1
        d = float (np.abs (ps - pf).max () / pf.max ())
        worst = max (worst, d / 1e-9)
        if d > 1e-9:
            bad ('frequency-changed', 'pattern-after-frequency-change', 'form %s: pattern of the object set from %.6g to %.6g MHz differs by %.3g of the maximum from a fresh object' % (name, f0, f0 * 1.37, d), measured = d, allowed = 1e-9)
    # ---- (f) an interface coordinate of exactly 0: a linear boundary through the origin is the boundary at c1
    # seen from an antenna moved by -c1 along x; a circular boundary of radius 0 leaves the second medium only
    def shifted (dx):
        s = copy.deepcopy (spec)
        for q in s ['geo']:
            q ['p1'] = [q ['p1'][0] + dx] + list (q ['p1'][1:])
            q ['p2'] = [q ['p2'][0] + dx] + list (q ['p2'][1:])
        for q in (s.get ('src') or []) + (s.get ('loads') or []):
            if 'at' in q:
                q ['at'] = [q ['at'][0] + dx] + list (q ['at'][1:])
        return s
    # (structures written with transformations of their own are not moved here: the shift would be rotated / scaled with them)
    if all (q ['k'] == 'w' for q in spec ['geo']) and not spec.get ('tr') and not spec.get ('sc'):
        med2 = [[g ['eps'], g ['sig'], 0.0, g ['c1']], [g ['eps2'], g ['sig2'], g ['h2']]]
        ma, _, _ = solved (spec, med2, 'linear')
        mb, _, _ = solved (shifted (-g ['c1']), [[g ['eps'], g ['sig'], 0.0, 0.0], [g ['eps2'], g ['sig2'], g ['h2']]], 'linear')
        pa, pb = 10 ** (pattern (ma) [..., 2] / 10), 10 ** (pattern (mb) [..., 2] / 10)
        mon ['boundary-at-zero'] = mon.get ('boundary-at-zero', 0) + 1
        d = float (np.abs (pa - pb).max () / pa.max ())
        # (the moved antenna has its currents to the accuracy of C05, not bit for bit)
        worst = max (worst, d / 2e-3)
        if d > 2e-3:
            bad ('boundary-at-zero', 'boundary-at-zero', 'linear boundary at x = %.4g against the same boundary at x = 0 with the antenna moved by %.4g: pattern differs by %.3g of the maximum' % (g ['c1'], -g ['c1'], d), measured = d, allowed = 2e-3)
    # (a reflection point at the origin itself belongs to the first medium: only for antennas off the vertical axis)
    if min (float (np.hypot (q.point [0], q.point [1])) for q in mi.pulses) > 1e-6 * lam0:
      mc, _, _ = solved (spec, [[g ['eps'], g ['sig'], 0.0, 0.0], [g ['eps2'], g ['sig2'], 0.0]], 'circular')
      md, _, _ = solved (spec, [[g ['eps2'], g ['sig2'], 0.0]])
      pc, pd = 10 ** (pattern (mc) [..., 2] / 10), 10 ** (pattern (md) [..., 2] / 10)
      mon ['boundary-at-zero'] = mon.get ('boundary-at-zero', 0) + 1
      d = float (np.abs (pc - pd).max () / pd.max ())
      worst = max (worst, d / 1e-9)
      if d > 1e-9:
        bad ('boundary-at-zero', 'boundary-at-zero', 'circular boundary of radius 0: the pattern differs by %.3g of the maximum from the second medium alone' % d, measured = d, allowed = 1e-9)
    g0 = mi.geo [0]
    trivial = len (mi.geo) == 1 and abs (g0.p1 [0] - g0.p2 [0]) < 1e-12 and abs (g0.p1 [1] - g0.p2 [1]) < 1e-12
    sig = gen.signature (spec, mi, extra = [g ['boundary'], 'ld%d' % len (spec.get ('loads') or [])])
    return dict ( status = 'violation' if viol else 'held', sig = sig, nontrivial = True, margin = worst
                , monitors = mon, violations = viol, info = dict (sigma_devs = devs))
# end def check
