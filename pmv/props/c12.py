""" C12 - number, numbering and placement of current unknowns follow from
    the wire topology. Oracle: independent geometry reference; the
    expected junction membership is known by construction of the random
    wire graph (end points perturbed below / above the matching
    tolerance), nothing is taken from the code under test.
"""
import numpy as np
from pmv import common, gen
from pmv.oracles import report, georef, pulseref

ID   = 'C12'
RULE = ( 'random wire graphs on a lattice (1..7 wires, 1..5 segments each, chains, stars, loops, several '
         'components, single-segment wires, self-closed 360-degree arcs), random order, direction and tags, '
         'free space and ground plane; wire ends displaced by 0 / 0.3 / 0.45 of half the tolerance (must join) '
         'or by 2 / 10 tolerances (must not join / not be grounded). Checks: pulse count formula, multiset of '
         'pulse positions, contiguous numbering in tag order (model and ANTENNA GEOMETRY block), pulse point is '
         'an end of both segments it holds, END1/END2 columns name those objects. non-trivial = at least one '
         'junction of >= 2 ends or grounded end; distinct = (env, sorted junction sizes, #ground, near-miss '
         'classes, single-segment wires present, arc)'
       )
MIN_EVAL = dict (quick = 1200, thorough = 30000)
ANCHORS  = ['Geobj.compute_connections', 'Geobj.compute_ground', 'Wire.compute_ground', 'Arc.compute_ground', 'Helix.compute_ground', 'Pulse_Container.add', 'Geobj._add_conn']
ANCHORS_REQUIRED = ['Geobj.compute_connections', 'Geobj._add_conn']
MAX_DISCARD = 0.1
ASSUMPTIONS = ['clusters are built with diameter < tol/2 or gaps >= 1.75 tol so that the reference is unambiguous']

def plan (tier, seed):
    n = 2400 if tier == 'quick' else 60000
    return [dict (i = i, seed = seed) for i in range (n)] + [dict (kind = 'curves', i = i, seed = seed) for i in range (n // 8)]
# end def plan

def unit (rng):
    v = rng.normal (size = 3)
    return v / np.linalg.norm (v)
# end def unit

def make (spec0):
    rng  = np.random.default_rng ([spec0 ['seed'], 12, spec0 ['i']])
    gnd  = bool (rng.random () < 0.45)
    scale = float (10 ** rng.uniform (-1, 1.5))
    lat  = [(x, y, z) for x in range (4) for y in range (4) for z in range (3)]
    K    = int (rng.integers (2, 8))
    idx  = rng.choice (len (lat), size = K, replace = False)
    nodes = [np.array (lat [i], float) for i in idx]
    if not gnd:
        R = gen.rot_matrix (rng)
        nodes = [R @ p for p in nodes]
    nodes = [p * scale for p in nodes]
    nw   = int (rng.integers (1, 8))
    pairs = set ()
    wires = []
    for k in range (nw * 3):
        if len (wires) >= nw:
            break
        a, b = (int (x) for x in rng.choice (K, size = 2, replace = False))
        if frozenset ((a, b)) in pairs:
            continue
        if gnd and nodes [a][2] == 0 and nodes [b][2] == 0:
            continue
        pairs.add (frozenset ((a, b)))
        wires.append ([a, b, int (rng.integers (1, 6))])
    if not wires:
        wires.append ([0, 1, 3])
        if gnd and nodes [0][2] == 0 and nodes [1][2] == 0:
            nodes [1] = nodes [1] + np.array ([0, 0, scale])
    rj = np.random.default_rng ([spec0 ['seed'], 123, spec0 ['i']])
    if rj.random () < 0.2:
        # a one-segment jumper shorter than every other segment: it alone sets the matching tolerance
        a = int (rj.integers (0, K))
        q = nodes [a] + unit (rj) * scale * float (rj.uniform (0.05, 0.3))
        if gnd:
            q [2] = abs (q [2]) + (0.05 * scale if nodes [a][2] == 0 else 0)
            if nodes [a][2] == 0:
                q [2] = max (q [2], 0.05 * scale)
        nodes.append (q)
        wires.append ([a, len (nodes) - 1, 1])
        K += 1
    seg_min = min (np.linalg.norm (nodes [a] - nodes [b]) / n for a, b, n in wires)
    # tapered wires: the shortest segment of the structure (which sets the matching tolerance) is then the first
    # segment of a taper; it is read from the program's own segmentation of the exact structure (C13 decides that
    # segmentation), the near misses below are placed relative to it
    rt = np.random.default_rng ([spec0 ['seed'], 124, spec0 ['i']])
    tapers = {}
    if rt.random () < 0.25:
        for wi, (a, b, n) in enumerate (wires):
            if n >= 2 and rt.random () < 0.5:
                tapers [wi] = [int (rt.integers (1, 4)), None, None]
        if tapers:
            pre = dict ( f = 7.0, media = ([[0, 0, 0]] if gnd else None), src = [], loads = []
                       , geo = [gen.wire (n, nodes [a], nodes [b], 1e-4 * seg_min, tag = wi + 1, taper = tapers.get (wi)) for wi, (a, b, n) in enumerate (wires)])
            try:
                mp = gen.build (pre)
                seg_min = min (float (s.seg_len) for g in mp.geo for s in g.segments)
            except (common.Rejected, common.Repo_Crash):
                tapers = {}
    tol  = 1e-3 * seg_min
    # wire radius below and above the matching tolerance (1e-3 of the shortest segment)
    rfac = float (np.random.default_rng ([spec0 ['seed'], 122, spec0 ['i']]).choice ([1e-4, 1e-4, 3e-3, 1e-2]))
    geo  = []
    ends = []   # (wire, end, node, klass) klass: 'join' | 'miss'
    missed = set ()
    for wi, (a, b, n) in enumerate (wires):
        pts = []
        for e, nd in ((0, a), (1, b)):
            isg = gnd and nodes [nd][2] == 0
            cls = 'join'
            d   = float (rng.choice ([0, 0, 0.3, 0.45])) * tol / 2
            if rng.random () < 0.12 and nd not in missed:
                cls = 'miss'
                missed.add (nd)
                d   = float (rng.choice ([1.3, 2.0, 10.0])) * tol
            u = unit (rng)
            if cls == 'miss' and d < 1.5 * tol:
                # farther than the tolerance as a distance, closer than it in every single coordinate
                u = np.array ([float (rng.choice ([-1, 1])) for k in range (3)]) / np.sqrt (3)
            if isg:
                if cls == 'miss':
                    u = np.array ([0, 0, 1.0])
                else:
                    u [2] = abs (u [2])      # never below ground beyond tolerance
            pts.append (nodes [nd] + d * u)
            ends.append (dict (w = wi, e = e, node = nd, cls = cls, gnd = isg and cls == 'join', d = d / tol))
        geo.append (gen.wire (n, pts [0], pts [1], rfac * seg_min))
    # chains of near ends: three or more ends of one node in a row, each within the tolerance of the next
    # but the outer ones farther apart than the tolerance (in any order of definition)
    rc = np.random.default_rng ([spec0 ['seed'], 121, spec0 ['i']])
    for nd in range (K):
        es = [e for e in ends if e ['node'] == nd and e ['cls'] == 'join' and not e ['gnd'] and not (gnd and nodes [nd][2] == 0)]
        if len (es) >= 3 and rc.random () < 0.35:
            u    = unit (rc)
            step = float (rc.choice ([0.6, 0.8, 0.95]))
            for k, j in enumerate (rc.permutation (len (es))):
                e = es [j]
                e ['cls'] = 'chain'
                e ['d']   = k * step
                g = geo [e ['w']]
                g ['p1' if e ['e'] == 0 else 'p2'] = (nodes [nd] + k * step * tol * u).tolist ()
    # explicit / automatic tags
    if rng.random () < 0.5:
        tags = rng.permutation (np.arange (1, len (geo) + 1) * int (rng.integers (1, 4))).tolist ()
        for g, t in zip (geo, tags):
            if rng.random () < 0.8:
                g ['tag'] = int (t)
    # tapers only on wires that carry an explicit tag (the option names a tag): where tapers are planned every wire gets one
    if tapers and any (g.get ('tag') is None for g in geo):
        for g, t in zip (geo, rt.permutation (np.arange (1, len (geo) + 1) * int (rt.integers (1, 4))).tolist ()):
            g ['tag'] = int (t)
    for wi, g in enumerate (geo):
        if wi in tapers and g.get ('tag') is not None:
            g ['taper'] = tapers [wi]
    tol_from_model = bool (tapers)
    arc = None
    if not gnd and rng.random () < 0.12:
        # a 360 degree arc closed on itself, optionally a wire attached to its start point
        n = int (rng.integers (3, 9))
        rad = scale * 50.0
        arc = dict (k = 'a', n = n, radius = rad, a1 = 0.0, a2 = 360.0, r = 1e-4 * seg_min, tag = None)
        tr  = [100 * scale, 0, 0]
    ro = np.random.default_rng ([spec0 ['seed'], 125, spec0 ['i']])
    if arc is None and not gnd and ro.random () < 0.12:
        # an open arc with any start angle, sweep and number of segments (far away from the rest): n - 1 pulses
        n  = int (ro.choice ([15, 23, 30, 46, 60, 61, int (ro.integers (3, 100))]))
        a1 = float (ro.choice ([30.0, 10.0, -170.0, 0.0, float (np.round (ro.uniform (-360, 360), 1))]))
        sw = float (ro.choice ([300.0, 340.0, 180.0, float (np.round (ro.uniform (20, 350), 1))])) * float (ro.choice ([1, 1, -1]))
        # (its chords stay longer than the shortest segment of the wires, which sets the matching tolerance)
        rad_o = max (scale * 50.0, 1.5 * seg_min / (2 * np.sin (np.radians (abs (sw)) / 2 / n)))
        arc = dict (k = 'a', n = n, radius = rad_o, a1 = a1, a2 = a1 + sw, r = 1e-4 * seg_min, tag = None, open = True)
        if ro.random () < 0.3 and not tapers:
            # a circle that closes on itself only within the matching tolerance (its ends 0.2 .. 0.8 tolerances of the
            # structure apart, or a full turn backwards): the two ends are joined like any two ends that close
            n  = int (ro.integers (3, 25))
            a1 = float (ro.choice ([0.0, 20.0, -75.5]))
            gap = float (np.degrees (float (ro.uniform (0.2, 0.8)) * tol / (scale * 50.0)))
            sw = float (ro.choice ([360.0 - gap, 360.0 - gap, -360.0, -(360.0 - gap)]))
            arc = dict (k = 'a', n = n, radius = scale * 50.0, a1 = a1, a2 = a1 + sw, r = 1e-4 * seg_min, tag = None)
        tr  = [100 * scale, 0, 0]
    spec = dict ( f = 7.0, geo = geo, media = ([[0, 0, 0]] if gnd else None), src = [], loads = []
                , ends = ends, wires = wires, tol = tol, arc = arc, tol_from_model = tol_from_model)
    if arc:
        spec ['geo'] = [{k: v for k, v in arc.items () if k != 'open'}] + geo
        spec ['tr']  = [['translate', 1.0, tr, None]]
    elif not gnd and ro.random () < 0.15:
        # the whole structure far from the origin (coordinates of a million shortest segments): what is joined and what
        # is not depends on distances, not on where the structure stands
        spec ['tr'] = [['translate', 1.0, [float (1e6 * seg_min), float (-2.5e6 * seg_min), 0.0], None]]
    if gnd and rng.random () < 0.15:
        # a curve standing on the ground plane: half circle with both ends grounded, or a helix rising from it
        if rng.random () < 0.5:
            n = int (rng.integers (3, 10))
            spec ['gcurve'] = dict (k = 'a', n = n, radius = scale * 40.0, a1 = 0.0, a2 = 180.0, r = 1e-4 * seg_min, tag = None, ngnd = 2)
        else:
            n = int (rng.integers (4, 10))
            spec ['gcurve'] = dict ( k = 'h', n = n, length = scale * 30.0, turn = scale * 25.0 * float (rng.choice ([1, -1])), r = 1e-4 * seg_min
                                   , rx1 = scale * 5.0, ry1 = scale * 5.0, tag = None, ngnd = 1)
        c = {k: v for k, v in spec ['gcurve'].items () if k != 'ngnd'}
        # curves are collected before wires on the command line; move it far away from the lattice (horizontally)
        spec ['geo'] = [c] + spec ['geo']
        spec ['tr']  = [['translate', 1.0, [1000.0 * scale, 0.0, 0.0], 1]] if not any (g.get ('tag') for g in spec ['geo']) else None
        if spec ['tr'] is None:
            # explicit tags in play: the automatic tag of the curve is not 1; keep it simple and drop the curve
            spec ['geo'] = spec ['geo'][1:]
            spec.pop ('gcurve')
            spec.pop ('tr')
    # the whole structure scaled by an option (inches, feet, ...): matching distances scale with it
    rs = np.random.default_rng ([spec0 ['seed'], 121, spec0 ['i']])
    if rs.random () < 0.25:
        spec ['sc'] = [[float (rs.choice ([0.0254, 0.3048, 39.37, 3.0, 0.1, 10.0, 0.5])), None]]
    return spec
# end def make

def expected (spec, m = None):
    """ expected pulse positions by construction: interior joints of every
        wire, one per grounded end, k - 1 per cluster of k joined ends
    """
    wires = spec ['wires']
    ends  = spec ['ends']
    geo   = [g for g in spec ['geo'] if g ['k'] == 'w']
    off   = np.asarray ((spec.get ('tr') or [[0, 0, [0, 0, 0]]]) [0][2], float)
    coff  = off
    if spec.get ('gcurve'):
        off = np.zeros (3)          # only the curve (tag 1) is translated
    pts   = []
    fac0 = float (spec ['sc'][0][0]) if spec.get ('sc') else 1.0
    for g in geo:
        if g.get ('taper') and m is not None:
            # interior joints of a tapered wire as the program segments it (decided by C13), brought back before the scaling
            obj = {x.tag: x for x in m.geo} [g ['tag']]
            pts += [np.asarray (s.p2, float) / fac0 for s in obj.segments [:-1]]
            continue
        nd = georef.wire_nodes (g ['p1'], g ['p2'], g ['n'])
        pts += [p + off for p in nd [1:-1]]
    n_int = len (pts)
    junc  = {}
    n_gnd = 0
    gnodes = set (e ['node'] for e in ends if e ['gnd'])
    for e in ends:
        g = geo [e ['w']]
        p = np.asarray (g ['p1'] if e ['e'] == 0 else g ['p2'], float) + off
        if e ['gnd']:
            n_gnd += 1
            q = p.copy ()
            q [2] = 0.0
            pts.append (q)
        elif e ['cls'] in ('join', 'chain') or e ['node'] not in gnodes:
            # ends that miss their node are candidates as well: next to a chain they may be within reach of one of its ends
            junc.setdefault (e ['node'], []).append (p)
    sizes = []
    tol   = spec ['tol']
    rads  = spec.setdefault ('_rads', {})
    rads.clear ()
    spec ['_nlattice'] = 0
    for nd, pl in junc.items ():
        # ends closer than the tolerance are joined; being joined is transitive
        cl = list (range (len (pl)))
        for i in range (len (pl)):
            for j in range (i):
                if 0.97 * tol <= np.linalg.norm (pl [i] - pl [j]) <= 1.03 * tol:
                    spec ['_edge'] = True       # on the edge of the tolerance (which the program takes from the segment lengths it computed)
                if np.linalg.norm (pl [i] - pl [j]) <= tol and cl [i] != cl [j]:
                    a, b = cl [i], cl [j]
                    cl = [b if x == a else x for x in cl]
        for c in sorted (set (cl)):
            mem = [pl [i] for i in range (len (pl)) if cl [i] == c]
            sizes.append (len (mem))
            ctr = np.mean (mem, axis = 0)
            rad = max (np.linalg.norm (x - ctr) for x in mem) / tol
            spec ['_nlattice'] = spec.get ('_nlattice', 0) + len (mem) - 1
            for k in range (len (mem) - 1):
                # the junction pulse sits on one of the joined end points
                pts.append (ctr)
                rads [len (pts) - 1] = rad + 0.05
    if spec.get ('gcurve'):
        c  = spec ['gcurve']
        nd = [p + coff for p in georef.nodes_of ({k: v for k, v in c.items () if k != 'ngnd'})]
        pts += nd [1:-1]
        q = nd [0].copy (); q [2] = 0.0
        pts.append (q)
        n_gnd += 1
        if c ['ngnd'] == 2:
            q = nd [-1].copy (); q [2] = 0.0
            pts.append (q)
            n_gnd += 1
    if spec.get ('arc'):
        a  = spec ['arc']
        nd = [p + off for p in georef.arc_nodes (a ['n'], a ['radius'], a ['a1'], a ['a2'])]
        pts += nd [1:-1]
        if not a.get ('open'):
            pts.append (nd [-1])        # the closing pulse sits on the second end (which meets the first within the tolerance)
            sizes.append (2)
    return pts, sizes, n_gnd, n_int
# end def expected

def make_curves (c):
    """ closed figures made of few objects, at least one of them curved: an arc and its chord, a circle of two or
        three arcs, with or without a stub on a junction; any order of definition, explicit tags with gaps """
    rng  = np.random.default_rng ([c ['seed'], 127, c ['i']])
    R    = float (10 ** rng.uniform (-0.5, 1))
    rw   = 1e-4 * R
    kind = str (rng.choice (['chord', 'chord', 'two', 'three', 'open', 'cone']))
    geo  = []
    if kind == 'cone':
        # a helix that narrows (its last segments are its shortest) and a wire that ends half a matching distance, or two
        # and a half, from its narrow end: the distance is 1/1000 of the shortest segment of the structure
        n  = int (rng.integers (20, 41))
        h  = dict (k = 'h', n = n, length = R, turn = float (R * rng.uniform (0.15, 0.3)), r = rw, rx1 = 0.5 * R, ry1 = 0.5 * R, rx2 = 0.05 * R, ry2 = 0.05 * R, tag = None)
        if rng.random () < 0.5:
            h ['rx1'], h ['rx2'] = h ['rx2'], h ['rx1']
            h ['ry1'], h ['ry2'] = h ['ry2'], h ['ry1']
        nd = georef.nodes_of (h)
        sl = [float (np.linalg.norm (b - a)) for a, b in zip (nd [:-1], nd [1:])]
        e  = 0 if sl [0] < sl [-1] else -1
        u  = np.array ([0.3, -0.5, 0.81]) * (1 if e == -1 else -1)
        u  = u / np.linalg.norm (u)
        g  = float (rng.choice ([0.5, 2.5])) * 1e-3 * min (sl)
        a  = nd [e] + u * g
        nw = int (rng.integers (2, 5))
        w  = gen.wire (nw, a, a + u * nw * 1.2 * max (sl), rw)      # (the wire's segments are the longest of the structure)
        if rng.random () < 0.5:
            w ['p1'], w ['p2'] = w ['p2'], w ['p1']
        geo = [h, w]
        if rng.random () < 0.5:
            h ['tag'], w ['tag'] = (1, 2) if rng.random () < 0.5 else (5, 3)
        return dict (f = 7.0, geo = geo, tr = [], sc = [], media = None, src = [], loads = [], fam = 'curves-cone', mode = 'cone%g' % (g / (1e-3 * min (sl))))
    def P (a):
        a = np.radians (a)
        return [R * float (np.cos (a)), 0.0, R * float (np.sin (a))]
    a0 = float (rng.choice ([0.0, 30.0, -90.0, float (np.round (rng.uniform (-180, 180)))]))
    if kind in ('chord', 'open'):
        sw = float (rng.choice ([180.0, 90.0, 270.0, float (np.round (rng.uniform (40, 320)))]))
        na = int (rng.integers (4, 20))
        a1, a2 = (a0, a0 + sw) if rng.random () < 0.6 else (a0 + sw, a0)
        geo.append (dict (k = 'a', n = na, radius = R, a1 = a1, a2 = a2, r = rw, tag = None))
        chord = 2 * R * np.sin (np.radians (sw) / 2)
        seg   = 2 * R * np.sin (np.radians (sw) / 2 / na)
        nw    = max (1, int (round (chord / seg)))
        e1, e2 = (P (a0), P (a0 + sw)) if rng.random () < 0.5 else (P (a0 + sw), P (a0))
        if kind == 'open':
            # the wire reaches only one end of the arc
            e2 = [e2 [0] * 0.5 + e1 [0] * 0.5, 0.3 * R, e2 [2] * 0.5 + e1 [2] * 0.5]
            nw = max (1, nw // 2)
        geo.append (gen.wire (nw, e1, e2, rw))
    else:
        k   = 2 if kind == 'two' else 3
        cut = sorted (float (x) for x in np.round (rng.uniform (40, 320, size = k - 1)))
        if k == 3 and cut [1] - cut [0] < 30:
            cut [1] = min (cut [0] + 60, 340.0)
        cuts = [0.0] + cut + [360.0]
        for u, v in zip (cuts [:-1], cuts [1:]):
            na = max (3, int (round ((v - u) / 15.0)))
            a1, a2 = (a0 + u, a0 + v) if rng.random () < 0.6 else (a0 + v, a0 + u)
            geo.append (dict (k = 'a', n = na, radius = R, a1 = a1, a2 = a2, r = rw, tag = None))
    if rng.random () < 0.4:
        # a stub on the first junction, pointing away from the plane of the figure
        q  = P (a0)
        nl = int (rng.integers (1, 5))
        st = gen.wire (nl, q, [q [0], q [1] + nl * 2 * R * np.sin (np.radians (7.5)), q [2]], rw)
        if rng.random () < 0.5:
            st ['p1'], st ['p2'] = st ['p2'], st ['p1']
        geo.append (st)
    rng.shuffle (geo)
    mode = str (rng.choice (['auto', 'seq', 'gaps', 'gaps']))
    if mode == 'seq':
        for i, g in enumerate (geo):
            g ['tag'] = i + 1
    elif mode == 'gaps':
        tags = sorted (int (x) for x in rng.choice (np.arange (1, 12), size = len (geo), replace = False))
        if tags == list (range (1, len (geo) + 1)):
            tags = [t + 1 for t in tags]
        tags = [int (t) for t in rng.permutation (tags)]
        for g, t in zip (geo, tags):
            g ['tag'] = t
    media = [[0, 0, 0]] if rng.random () < 0.25 else None
    tr = []
    if media:
        tr = [['translate', 1.0, [0.0, 0.0, 2.5 * R], None]]
    return dict (f = 7.0, geo = geo, tr = tr, sc = [], media = media, src = [], loads = [], fam = 'curves-' + kind, mode = mode)
# end def make_curves

def check_curves (c):
    """ count, positions, numbering and joints from the topology, for structures given as any mix of objects (nodes of
        the objects from the documented formulas) """
    spec = c if 'geo' in c else make_curves (c)
    m    = gen.build (spec)
    objs = pulseref.object_nodes (spec, m)
    L    = min (np.linalg.norm (b - a) for o in objs.values () for a, b in zip (o ['nodes'][:-1], o ['nodes'][1:]))
    tol  = 1e-3 * L
    gnd  = m.media is not None
    ends, n_gnd, pts = [], 0, []
    for t, o in objs.items ():
        pts += list (o ['nodes'][1:-1])
        for e, k in ((0, 0), (1, -1)):
            p = np.asarray (o ['nodes'][k], float)
            if gnd and 0.9 * tol <= abs (p [2]) <= 1.1 * tol:
                return dict (status = 'discard', reason = 'end within 10 % of the ground distance')
            if gnd and abs (p [2]) < tol:
                n_gnd += 1
                q = p.copy (); q [2] = 0.0
                pts.append (q)
            else:
                ends.append ((t, e, p))
    cl = list (range (len (ends)))
    for i in range (len (ends)):
        for j in range (i):
            d = np.linalg.norm (ends [i][2] - ends [j][2])
            if 0.9 * tol <= d <= 1.1 * tol:
                return dict (status = 'discard', reason = 'two ends within 10 % of the matching tolerance')
            if d <= tol and cl [i] != cl [j]:
                a, b = cl [i], cl [j]
                cl = [b if x == a else x for x in cl]
    sizes = []
    for k in sorted (set (cl)):
        mem = [ends [i][2] for i in range (len (ends)) if cl [i] == k]
        if max (np.linalg.norm (x - y) for x in mem for y in mem) > tol:
            return dict (status = 'discard', reason = 'chain of near ends')
        sizes.append (len (mem))
        pts += [np.mean (mem, axis = 0)] * (len (mem) - 1)
    viol, mon = [], {}
    def bad (monitor, key, msg):
        viol.append (dict (monitor = monitor, key = key, msg = msg))
    mon ['count'] = 1
    if len (m.pulses) != len (pts):
        bad ('count', 'pulse-count', '%d pulses, topology gives %d (objects %s, grounded ends %d, junction sizes %s)'
             % (len (m.pulses), len (pts), [(o ['g']['k'], o ['g']['n']) for o in objs.values ()], n_gnd, sorted (sizes)))
    mon ['positions'] = 1
    have = [np.asarray (p.point, float) for p in m.pulses]
    rest = list (range (len (have)))
    miss = 0
    for q in pts:
        j = min (rest, key = lambda j: np.linalg.norm (have [j] - q)) if rest else None
        if j is not None and np.linalg.norm (have [j] - q) <= 1.1 * tol + 1e-9 * np.linalg.norm (q):
            rest.remove (j)
        else:
            miss += 1
    if miss or (rest and len (m.pulses) == len (pts)):
        bad ('positions', 'pulse-position', '%d expected pulse positions have no pulse, %d pulses at unexpected positions' % (miss, len (rest)))
    mon ['numbering'] = 1
    if [p.idx for p in m.pulses] != list (range (len (m.pulses))):
        bad ('numbering', 'numbering-model', 'pulse indices of the model are not 0..N-1 in order')
    # the number of a pulse relative to its object (the k of 'k-th pulse of the object with that tag') counts the
    # object's own pulses in their order
    for gx in m.geo:
        if [p.n for p in gx.pulses] != list (range (len (gx.pulses))) or [p.idx for p in gx.pulses] != sorted (p.idx for p in gx.pulses):
            bad ('numbering', 'numbering-relative', 'object %s: relative pulse numbers %s for its %d pulses' % (gx.tag, [p.n for p in gx.pulses] [:14], len (gx.pulses)))
            break
    rep = report.parse (common.guarded (m.wires_as_mininec, 'wires_as_mininec'))
    nos = [int (r ['no']) for b in rep ['geometry'] for r in b ['rows']]
    if nos != list (range (1, len (m.pulses) + 1)):
        bad ('numbering', 'numbering-report', 'PULSE NO. column %s is not 1..%d' % (nos [:12], len (m.pulses)))
    if [int (b ['tag']) for b in rep ['geometry']] != sorted (objs):
        bad ('numbering', 'block-order', 'geometry blocks %s, objects sorted by tag %s' % ([b ['tag'] for b in rep ['geometry']], sorted (objs)))
    mon ['joint'] = len (m.pulses)
    rows = {int (r ['no']): r for b in rep ['geometry'] for r in b ['rows']}
    for p in m.pulses:
        P = np.asarray (p.point, float)
        for sg in p.segs:
            d = min (np.linalg.norm (P - np.asarray (sg.p1, float)), np.linalg.norm (P - np.asarray (sg.p2, float)))
            if d > 1.05 * tol:
                bad ('joint', 'pulse-not-on-joint', 'pulse %d at %s is %.3g tolerances from the nearest end of a segment it holds (object %s)' % (p.idx + 1, P, d / tol, sg.geobj.tag))
        r = rows.get (p.idx + 1)
        if r is not None:
            for col, sg in (('e1', p.segs [0]), ('e2', p.segs [1])):
                if abs (int (r [col])) not in (0, int (sg.geobj.tag)):
                    bad ('joint', 'end-column', 'pulse %d: column %s = %s, segment belongs to object %s' % (p.idx + 1, col.upper (), r [col], sg.geobj.tag))
    sig = '|'.join ([spec.get ('fam', ''), spec.get ('mode', ''), 'gnd' if gnd else 'free', str (sorted (sizes)), str (len (objs))])
    return dict ( status = 'violation' if viol else 'held', sig = sig, nontrivial = True, monitors = mon, violations = viol [:6]
                , info = dict (N = len (m.pulses), sizes = sorted (sizes), n_gnd = n_gnd))
# end def check_curves

def check (spec0):
    if spec0.get ('kind') == 'curves' or str (spec0.get ('fam', '')).startswith ('curves-'):
        return check_curves (spec0)
    spec = spec0 if 'geo' in spec0 else make (spec0)
    m    = gen.build (spec)
    if spec.get ('tol_from_model') or any (g.get ('taper') for g in spec ['geo']):
        # the matching tolerance is 1e-3 of the shortest segment the structure really has
        t_real = 1e-3 * min (float (s.seg_len) for g in m.geo for s in g.segments) / (float (spec ['sc'][0][0]) if spec.get ('sc') else 1.0)
        if abs (t_real - spec ['tol']) > 0.01 * spec ['tol']:
            # the near misses were placed relative to another shortest segment (a planned taper went to a wire without tag)
            return dict (status = 'discard', reason = 'shortest segment differs from the planned one')
        spec ['tol'] = t_real
    pts, sizes, n_gnd, n_int = expected (spec, m)
    if not pts:
        return dict (status = 'discard', reason = 'no pulses expected')
    if spec.get ('_edge'):
        return dict (status = 'discard', reason = 'two ends within 3 % of the matching tolerance')
    tol  = spec ['tol']
    fac  = float (spec ['sc'][0][0]) if spec.get ('sc') else 1.0
    viol = []
    mon  = {}
    def bad (monitor, key, msg):
        viol.append (dict (monitor = monitor, key = key, msg = msg))
    # what first-match joining in order of definition gives for the chains (each end is compared with the ends
    # seen before and joins the junction of the first one within the tolerance; junctions are never merged)
    greedy = None
    if any (e ['cls'] == 'chain' for e in spec ['ends']):
        wgeo  = [g for g in spec ['geo'] if g ['k'] == 'w']
        order, tg = georef.object_tags (spec ['geo'])
        rank  = {id (g): t for g, t in zip (order, tg)}
        seq   = sorted (spec ['ends'], key = lambda e: (rank [id (wgeo [e ['w']])], e ['e']))
        keys  = {}
        njp   = 0
        gnodes = set (e ['node'] for e in spec ['ends'] if e ['gnd'])
        for e in seq:
            if e ['gnd'] or (e ['cls'] == 'miss' and e ['node'] in gnodes):
                continue
            g = wgeo [e ['w']]
            P = np.asarray (g ['p1'] if e ['e'] == 0 else g ['p2'], float)
            ks = keys.setdefault (e ['node'], [])
            if any (np.linalg.norm (P - q) <= tol for q in ks):
                njp += 1
            ks.append (P)
        greedy = len (pts) - spec ['_nlattice'] + njp
    # (scaling comes last: expected positions and the matching tolerance are those of the scaled structure)
    pts = [q * fac for q in pts]
    tol = tol * fac
    # count
    mon ['count'] = 1
    if len (m.pulses) != len (pts) and greedy is not None and len (m.pulses) == greedy:
        bad ('count', 'near-end-chain-first-match', '%d pulses, ends closer than the tolerance joined transitively give %d: an end within the tolerance of two '
             'junctions that were opened before it joins only the first (junction sizes expected %s)' % (len (m.pulses), len (pts), sorted (sizes)))
    elif len (m.pulses) != len (pts):
        bad ('count', 'pulse-count', '%d pulses, topology gives %d (interior %d, grounded %d, junction sizes %s)'
             % (len (m.pulses), len (pts), n_int, n_gnd, sorted (sizes)))
    # positions as multiset
    mon ['positions'] = 1
    have = [np.asarray (p.point, float) for p in m.pulses]
    rest = list (range (len (have)))
    unmatched = 0
    rads = spec.get ('_rads') or {}
    for qi, q in enumerate (pts):
        best = None
        if rest:
            # nearest remaining pulse (two expected positions can lie within the tolerance of each other)
            j = min (rest, key = lambda j: np.linalg.norm (have [j] - q))
            if np.linalg.norm (have [j] - q) <= max (0.6, rads.get (qi, 0.0)) * tol + 1e-9 * np.linalg.norm (q):
                best = j
        if best is None:
            unmatched += 1
        else:
            rest.remove (best)
    chain_known = any (v ['key'] == 'near-end-chain-first-match' for v in viol)
    if chain_known and unmatched == len (pts) - len (m.pulses) and not rest:
        pass        # the junction pulses that first-match joining does not create; every pulse there is sits where expected
    elif unmatched or (rest and len (m.pulses) == len (pts)):
        bad ('positions', 'pulse-position', '%d expected pulse positions have no pulse, %d pulses at unexpected positions'
             % (unmatched, len (rest)))
    # numbering
    mon ['numbering'] = 1
    if [p.idx for p in m.pulses] != list (range (len (m.pulses))):
        bad ('numbering', 'numbering-model', 'pulse indices of the model are not 0..N-1 in order')
    # the number of a pulse relative to its object (the k of 'k-th pulse of the object with that tag') counts the
    # object's own pulses in their order
    for gx in m.geo:
        if [p.n for p in gx.pulses] != list (range (len (gx.pulses))) or [p.idx for p in gx.pulses] != sorted (p.idx for p in gx.pulses):
            bad ('numbering', 'numbering-relative', 'object %s: relative pulse numbers %s for its %d pulses' % (gx.tag, [p.n for p in gx.pulses] [:14], len (gx.pulses)))
            break
    txt = common.guarded (m.wires_as_mininec, 'wires_as_mininec')
    rep = report.parse (txt)
    tags_rep = [int (b ['tag']) for b in rep ['geometry']]
    order, tags = georef.object_tags (spec ['geo'])
    if tags_rep != sorted (tags):
        bad ('numbering', 'block-order', 'geometry blocks %s, objects sorted by tag %s' % (tags_rep, sorted (tags)))
    nos = [int (r ['no']) for b in rep ['geometry'] for r in b ['rows']]
    if nos != list (range (1, len (m.pulses) + 1)):
        bad ('numbering', 'numbering-report', 'PULSE NO. column %s is not 1..%d' % (nos [:12], len (m.pulses)))
    if rep ['leftovers']:
        bad ('numbering', 'report-structure', 'unparsed geometry lines: %r' % rep ['leftovers'][:2])
    # pulse sits on a joint shared by its two segments; END columns name their objects
    mon ['joint'] = len (m.pulses)
    spread = max ([e ['d'] for e in spec ['ends'] if e ['cls'] == 'chain'] or [0.0])
    rows = {int (r ['no']): r for b in rep ['geometry'] for r in b ['rows']}
    for p in m.pulses:
        P = np.asarray (p.point, float)
        for s in p.segs:
            d = min (np.linalg.norm (P - np.asarray (s.p1, float)), np.linalg.norm (P - np.asarray (s.p2, float)))
            if d > (1.05 + spread) * tol:
                bad ('joint', 'pulse-not-on-joint', 'pulse %d at %s is %.3g tolerances from the nearest end of a segment it holds'
                     % (p.idx + 1, P, d / tol))
        r = rows.get (p.idx + 1)
        if r is not None:
            for col, s in (('e1', p.segs [0]), ('e2', p.segs [1])):
                if abs (int (r [col])) not in (0, int (s.geobj.tag)):
                    bad ('joint', 'end-column', 'pulse %d: column %s = %s, segment belongs to object %s'
                         % (p.idx + 1, col.upper (), r [col], s.geobj.tag))
    classes = sorted (set ('%s%.2g' % (e ['cls'][0], e ['d']) for e in spec ['ends']))
    sig = '|'.join (str (x) for x in
        ( 'gnd' if spec ['media'] else 'free', sorted (sizes), n_gnd, classes
        , 'seg1' if any (w [2] == 1 for w in spec ['wires']) else '', 'arc' if spec.get ('arc') else ('gcurve-' + spec ['gcurve']['k'] if spec.get ('gcurve') else '')
        , 'T' if any (g.get ('tag') for g in spec ['geo']) else 'a', 'sc' if fac != 1 else '', 'tap%s' % sorted (set (g ['taper'][0] for g in spec ['geo'] if g.get ('taper')))))
    return dict ( status = 'violation' if viol else 'held', sig = sig
                , nontrivial = bool (sizes and max (sizes) >= 2 or n_gnd), monitors = mon, violations = viol [:6]
                , info = dict (N = len (m.pulses), sizes = sorted (sizes), n_gnd = n_gnd))
# end def check
