""" C13 - segmentation tiles each object; tapers, arcs, helices and
    transformations as documented. Contract compute_segments.tiling
    (count, positive lengths, chaining) + independent formulas.
"""
import copy
import numpy as np
from pmv import common, gen, instrument, corpus
from pmv.oracles import georef, pulseref

ID   = 'C13'
RULE = ( 'models of 1..3 objects (plain wires with 1..200 segments over 3 decades of length, tapered wires '
         'with end 1/2/3 and random min/max, arcs, helices with all four sign combinations and tapered radii) '
         'under random sequences of keyed rotations/translations (tagged and untagged, option order shuffled) '
         'and scalings; segment end points compared with the documented formulas evaluated independently; the 65 hand-made '
         'antennas of the test directory through the same comparison. '
         'non-trivial = tapered, curved or transformed; distinct = (kinds, taper type+limits, signs, transform kinds)'
       )
MIN_EVAL = dict (quick = 1500, thorough = 40000)
ANCHORS  = ['Wire.compute_equal_segments', 'taper1', 'taper2', 'Arc.__init__', 'Helix.__init__'
           , 'Rotation_Matrix.__init__', 'Geo_Container.scale', 'Segment.__init__']
ANCHORS_REQUIRED = ['Wire.compute_equal_segments', 'taper1', 'taper2', 'Arc.__init__', 'Helix.__init__']
ASSUMPTIONS = ['a taper request the program does not honour (documented fall-back to equal segments) is judged as a plain wire and counted separately']

def plan (tier, seed):
    n = 2400 if tier == 'quick' else 60000
    return [dict (i = i, seed = seed) for i in range (n)] + [dict (kind = 'ground', i = i, seed = seed) for i in range (n // 8)] + corpus.plan_cases (seed, tier, quick = 1, thorough = 1)
# end def plan

def make (spec0):
    rng = np.random.default_rng ([spec0 ['seed'], 13, spec0 ['i']])
    geo = []
    nobj = int (rng.integers (1, 4))
    for k in range (nobj):
        kind = str (rng.choice (['w', 'w', 't', 't', 'a', 'h']))
        tag  = k + 1
        if kind in ('w', 't'):
            L  = float (10 ** rng.uniform (-1, 2))
            n  = int (rng.choice ([1, 2, 3, 5, 8, 13, 40, 200])) if kind == 'w' else int (rng.integers (2, 16))
            d  = rng.normal (size = 3)
            d /= np.linalg.norm (d)
            p1 = rng.uniform (-1, 1, 3) * L + np.array ([0, 0, 1000.0 * k])
            r  = L / n / float (10 ** rng.uniform (0.5, 4))
            g  = gen.wire (n, p1, p1 + d * L, r, tag = tag)
            if kind == 't':
                tt = int (rng.choice ([1, 2, 3]))
                mn = mx = None
                eq = L / n
                if rng.random () < 0.5:
                    mn = float (eq * rng.uniform (0.02, 0.9))
                if rng.random () < 0.5:
                    mx = float (eq * rng.uniform (1.05, 4))
                g ['taper'] = [tt, mn, mx]
            geo.append (g)
        elif kind == 'a':
            a1 = float (np.round (rng.uniform (-360, 360), 1))
            sp = float (np.round (rng.uniform (5, 360), 1)) * (1 if rng.random () < 0.8 else -1)
            if rng.random () < 0.15:
                sp = 360.0 * (1 if rng.random () < 0.8 else -1)         # closed circle from any start angle
                a1 = float (np.round (a1))
            na = int (rng.integers (3, 40)) if rng.random () < 0.7 else int (rng.choice ([59, 60, 61, 118, 120, 122, 155, 197, int (rng.integers (40, 201))]))
            if rng.random () < 0.2:
                a1, sp = [(0.0, 360.0), (0.0, 180.0), (0.0, 90.0), (-90.0, 180.0), (10.0, 90.0), (0.0, 270.0), (30.0, 300.0), (0.0, -270.0)] [int (rng.integers (0, 8))]
            geo.append (dict ( k = 'a', n = na, radius = float (10 ** rng.uniform (-1, 1.5))
                             , a1 = a1, a2 = a1 + sp, r = 1e-3, tag = tag))
        else:
            turn = float (10 ** rng.uniform (-1, 1)) * float (rng.choice ([1, -1]))
            nt   = float (rng.uniform (0.3, 4))
            ln   = abs (turn) * nt * float (rng.choice ([1, -1]))
            n    = int (max (3, np.ceil (3 * nt)) + rng.integers (0, 30))
            if rng.random () < 0.2:
                # short pieces of a helix: one or two segments (up to a third / two thirds of a turn)
                n  = int (rng.integers (1, 3))
                nt = float (rng.uniform (0.1, 0.32 * n))
                ln = abs (turn) * nt * float (rng.choice ([1, -1]))
            h = dict ( k = 'h', n = n, length = ln, turn = turn, r = 1e-3
                     , rx1 = float (10 ** rng.uniform (-1, 1)), ry1 = float (10 ** rng.uniform (-1, 1)), tag = tag)
            if rng.random () < 0.5:
                h ['rx2'] = float (10 ** rng.uniform (-1, 1))
                h ['ry2'] = float (10 ** rng.uniform (-1, 1))
            geo.append (h)
    # helper wire that guarantees a pulse for the (irrelevant) source
    geo.append (gen.wire (2, [5e4, 0, 0], [5e4 + 1, 0, 0], 1e-3, tag = nobj + 1))
    tr = []
    # sort keys are numbers: mix of magnitudes and signs so that numeric and textual order differ
    keys = list (rng.permutation ([-20, -3, -1.5, 0, 1, 2, 2.5, 9, 10, 11, 20, 100]) [: int (rng.integers (0, 5))])
    for key in keys:
        tag = None if rng.random () < 0.5 else int (rng.integers (1, nobj + 1))
        if rng.random () < 0.5:
            ang = [float (np.round (rng.uniform (-180, 180), 1)) if rng.random () < 0.7 else 0.0 for k in range (3)]
            if rng.random () < 0.25:
                # quarter, half and whole turns, forwards and backwards, also more than one turn
                ang [int (rng.integers (0, 3))] = float (rng.choice ([180, -180, 360, -360, 90, -90, 270, 540, 720, -270]))
            tr.append (['rotate', float (key), ang, tag])
        else:
            tr.append (['translate', float (key), [float (np.round (x, 3)) for x in rng.uniform (-50, 50, 3)], tag])
    # requests of one kind under one key (they are applied in the order they are given)
    rk = np.random.default_rng ([spec0 ['seed'], 131, spec0 ['i']])
    if len (tr) >= 2 and rk.random () < 0.3:
        kinds = [t [0] for t in tr]
        for kind in ('translate', 'rotate'):
            idx = [i for i, k in enumerate (kinds) if k == kind]
            if len (idx) >= 2:
                tr [idx [1]][1] = tr [idx [0]][1]
                # equal keys keep the order of the options: put the pair next to each other in that order
                break
    sc = []
    for k in range (int (rng.choice ([0, 0, 1, 2]))):
        sc.append ([float (10 ** rng.uniform (-2, 2)), None if rng.random () < 0.6 else int (rng.integers (1, nobj + 1))])
    return dict (f = 7.0, geo = geo, tr = tr, sc = sc, media = None, src = [dict (p = [1, nobj + 1], v = [1, 0])], loads = [])
# end def make

def make_ground (spec0):
    """ wires over a ground plane with an end on it, or within / just outside the distance at which the program takes an
        end as lying on the plane (1e-3 of the shortest segment): the segments chain from the end point the object
        then has (on the plane, or where it was given) to the other one """
    rng = np.random.default_rng ([spec0 ['seed'], 132, spec0 ['i']])
    geo = []
    nobj = int (rng.integers (1, 4))
    segs = []
    for k in range (nobj):
        L  = float (10 ** rng.uniform (-0.5, 1.5))
        n  = int (rng.choice ([1, 2, 3, 5, 8, 13, 40]))
        segs.append (L / n)
    tol = 1e-3 * min (segs + [0.5])
    for k, sl in enumerate (segs):
        n  = int (rng.choice ([1, 2, 3, 5, 8, 13, 40]))
        L  = sl * n
        u  = float (rng.choice ([0.0, 0.0, rng.uniform (0.05, 0.9), -rng.uniform (0.05, 0.9), rng.uniform (1.2, 3.0), rng.uniform (30, 3000)]))
        d  = rng.normal (size = 3)
        d [2] = abs (d [2]) + 0.3
        d /= np.linalg.norm (d)
        p1 = np.array ([20.0 * k, float (rng.uniform (-3, 3)), u * tol])
        p2 = p1 + d * L
        r  = sl / float (10 ** rng.uniform (1, 3))
        ends = (p1, p2) if rng.random () < 0.6 else (p2, p1)
        g  = gen.wire (n, ends [0], ends [1], r, tag = k + 1)
        if n >= 3 and rng.random () < 0.3:
            g ['taper'] = [int (rng.choice ([1, 2, 3])), None, None]
        geo.append (g)
    tr = []
    helper = gen.wire (2, [5e3, 0, 5.0], [5e3 + 1, 0, 5.0], 1e-3, tag = nobj + 1)      # (the object with the highest tag is not judged)
    if rng.random () < 0.4:
        helper ['tag'] = nobj + 3
        # an arc that touches the plane: half loop on both feet, quarter arc on one foot, circle lifted by its radius
        # (its lowest segment end on the plane), turned about the vertical axis and shifted
        Ra   = float (10 ** rng.uniform (-0.3, 1.0))
        kind = str (rng.choice (['half', 'quarter', 'circle']))
        na   = int (rng.choice ([4, 8, 12, 16, 20]))
        if kind == 'half':
            a1, a2 = (0.0, 180.0) if rng.random () < 0.5 else (180.0, 0.0)
        elif kind == 'quarter':
            a1, a2 = [(0.0, 90.0), (90.0, 0.0), (180.0, 90.0), (20.0, 180.0)] [int (rng.integers (0, 4))]
        else:
            a1, a2 = (0.0, 360.0) if rng.random () < 0.6 else (-90.0, 270.0)
        geo.append (dict (k = 'a', n = na, radius = Ra, a1 = a1, a2 = a2, r = 1e-3 * Ra, tag = nobj + 2))
        if kind == 'circle':
            tr.append (['translate', 1.0, [0.0, 0.0, Ra], nobj + 2])
        tr.append (['rotate', 2.0, [0.0, 0.0, float (np.round (rng.uniform (-180, 180), 1))], nobj + 2])
        tr.append (['translate', 3.0, [float (np.round (rng.uniform (-30, 30), 2)) - 200.0, float (np.round (rng.uniform (-30, 30), 2)), 0.0], nobj + 2])
    geo.append (helper)
    return dict (f = 7.0, geo = geo, tr = tr, sc = [], media = [[0, 0, 0]], src = [dict (p = [1, helper ['tag']], v = [1, 0])], loads = [], ground_ends = True)
# end def make_ground

def lengths (segs):
    return np.array ([np.linalg.norm (np.asarray (s.p2, float) - np.asarray (s.p1, float)) for s in segs])
# end def lengths

def check_taper (g, obj, l, bad, scale, size = 0.0):
    """ taper rules on the segment lengths l of wire spec g (lengths are
        after scaling by `scale`, limits are given before scaling)
    """
    tt, mn, mx = g ['taper']
    r    = g ['r']
    # the wire (and its radius) is scaled before it is segmented; the
    # limits of --taper-wire are absolute lengths and are not scaled
    lo   = max (2.5 * r * scale, mn or 0.0)
    hi   = (mx if mx is not None else np.inf)
    tolr = 1e-9
    # segment lengths are differences of coordinates: rounding noise scales with the coordinates
    ta   = 1e-12 * size
    if (l < lo * (1 - tolr) - ta).any ():
        bad ('taper', 'taper-below-min', 'segment %.6g below max (2.5 r, min) = %.6g (taper %s)' % (l.min (), lo, g ['taper']))
    if (l > hi * (1 + tolr) + ta).any ():
        bad ('taper', 'taper-above-max', 'segment %.6g above max = %.6g (taper %s)' % (l.max (), hi, g ['taper']))
    n = len (l)
    if tt == 1:
        seq = [l]
    elif tt == 2:
        seq = [l [::-1]]
    else:
        h   = (n + 1) // 2
        seq = [l [:h], l [::-1][:h]]
        if np.abs (l - l [::-1]).max () > 1e-9 * l.max () + ta:
            bad ('taper', 'taper-asymmetric', 'both-ends taper is not mirror symmetric: %s' % l)
    for s in seq:
        ratio = (s [1:] - ta) / (s [:-1] + ta)
        if len (ratio) and (ratio.max () > 2.1 * (1 + tolr)):
            bad ('taper', 'taper-growth', 'growth factor %.4g > 2.1 (taper %s, lengths %s)' % (ratio.max (), g ['taper'], s))
        if len (ratio) and (((s [1:] + ta) / (s [:-1] - ta)).min () < 1 - 1e-9):
            bad ('taper', 'taper-not-monotone', 'lengths shrink away from the tapered end: %s' % s)
# end def check_taper

def check (spec0):
    if 'corpus' in spec0:
        # the hand-made antennas of the repository (arcs, helices, tapers, transformations per object and of the whole)
        spec = corpus.make (spec0, 13, freq = False, sources = False)
    else:
        spec = spec0 if 'geo' in spec0 else (make_ground (spec0) if spec0.get ('kind') == 'ground' else make (spec0))
    before = instrument.EVALS ['compute_segments.tiling']
    # the objects are handed over through the command line or through the classes of the library (there also with the
    # container's tags computed after the whole-structure requests, or after the first object only, and with
    # whole numbers as python ints): the documented geometry is the same
    route = ['cli', 'cli', 'api', 'api-late', 'api-split', 'api-ints'] [int (common.sha ([spec ['geo'], spec.get ('tr'), spec.get ('sc')]), 16) % 6]
    if route == 'cli':
        m = gen.build (spec)
    else:
        m = gen.build (spec, route = 'api', tags = dict ([('api-late', 'late'), ('api-split', 'split')]).get (route, 'early'), ints = route in ('api-ints', 'api-split'))
    if instrument.EVALS ['compute_segments.tiling'] == before:
        return dict (status = 'inconclusive', reason = 'tiling contract not evaluated')
    ref  = georef.transformed_objects (spec)
    if spec.get ('ground_ends'):
        snap0 = 1e-3 * min (min (lengths (x.segments)) for x in m.geo)
        for g in spec ['geo']:
            for e in ('p1', 'p2'):
                if g ['k'] == 'w' and 0.9 * snap0 <= abs (g [e][2]) <= 1.1 * snap0:
                    return dict (status = 'discard', reason = 'end within 10 % of the ground distance')
    viol = []
    mon  = {}
    def bad (monitor, key, msg):
        viol.append (dict (monitor = monitor, key = key, msg = msg))
    by_tag = {g.tag: g for g in m.geo}
    feats  = set ()
    for o in ref [:-1]:
        g    = o ['g']
        obj  = by_tag.get (o ['tag'])
        if obj is None:
            bad ('objects', 'object-missing', 'no object with tag %s' % o ['tag'])
            continue
        segs = obj.segments
        size = max (np.linalg.norm (x) for x in o ['nodes']) + 1e-300
        L    = np.linalg.norm (o ['nodes'][-1] - o ['nodes'][0])
        tol  = 1e-9 * max (size, L)
        mon ['count'] = mon.get ('count', 0) + 1
        if len (segs) != g ['n']:
            bad ('count', 'segment-count', '%d segments for %d requested' % (len (segs), g ['n']))
            continue
        l = lengths (segs)
        # scale factor applying to this object
        scale = 1.0
        for f, t in spec.get ('sc') or []:
            if t is None or t == o ['tag']:
                scale *= f
        mon ['radius'] = mon.get ('radius', 0) + 1
        r_want = pulseref.equivalent_radius (spec, o ['tag'], o ['r'])        # (insulated wires: the documented equivalent radius)
        if abs (obj.r - r_want) > 1e-12 * r_want:
            bad ('radius', 'radius-scale', 'radius %r, expected %r after scaling' % (obj.r, r_want))
        ends = (np.asarray (segs [0].p1, float), np.asarray (segs [-1].p2, float))
        mon ['ends'] = mon.get ('ends', 0) + 1
        # over a ground plane wire ends closer to it than the matching tolerance (1e-3 of
        # the shortest segment) are snapped onto it (documented ground detection)
        snap = 1e-3 * min (min (lengths (x.segments)) for x in m.geo)
        def snapped (p):
            q = np.array (p, float)
            if spec.get ('media') and g ['k'] == 'w' and abs (q [2]) < snap:
                q [2] = 0.0
            return q
        o ['nodes'][0], o ['nodes'][-1] = snapped (o ['nodes'][0]), snapped (o ['nodes'][-1])
        L = np.linalg.norm (o ['nodes'][-1] - o ['nodes'][0])      # (the length of the wire between the ends it now has)
        if g ['k'] == 'w' and not (g.get ('taper')):
            o ['nodes'] = georef.wire_nodes (o ['nodes'][0], o ['nodes'][-1], g ['n'])
        if max (np.linalg.norm (ends [0] - o ['nodes'][0]), np.linalg.norm (ends [1] - o ['nodes'][-1])) > tol:
            bad ('ends', 'end-points', 'object %s runs %s .. %s, expected %s .. %s' % (o ['tag'], ends [0], ends [1], o ['nodes'][0], o ['nodes'][-1]))
        tapered = g ['k'] == 'w' and g.get ('taper') and getattr (obj, 'segtype', 0) != 0
        if g ['k'] == 'w' and g.get ('taper') and not tapered:
            feats.add ('fallback')
        if tapered:
            feats.add ('t%d%s%s' % (g ['taper'][0], 'm' if g ['taper'][1] else '', 'M' if g ['taper'][2] else ''))
            mon ['taper'] = mon.get ('taper', 0) + 1
            check_taper (g, obj, l, bad, scale, size)
            # collinear and ordered along the wire
            d = (o ['nodes'][-1] - o ['nodes'][0]) / L
            for s in segs:
                for p in (s.p1, s.p2):
                    v = np.asarray (p, float) - o ['nodes'][0]
                    if np.linalg.norm (v - (v @ d) * d) > tol:
                        bad ('taper', 'taper-off-axis', 'tapered segment end %s off the wire axis' % (p,))
        else:
            feats.add (g ['k'] + ('1' if g ['n'] == 1 else ''))
            mon ['nodes'] = mon.get ('nodes', 0) + 1
            dev = 0.0
            for s, a, b in zip (segs, o ['nodes'][:-1], o ['nodes'][1:]):
                dev = max (dev, np.linalg.norm (np.asarray (s.p1, float) - a), np.linalg.norm (np.asarray (s.p2, float) - b))
            if dev > tol:
                bad ('nodes', 'node-position-' + g ['k'], 'object %s (%s): segment ends deviate %.3g from the documented positions (tol %.3g)'
                     % (o ['tag'], g ['k'], dev, tol))
            if g ['k'] == 'w':
                if np.abs (l - L / g ['n']).max () > 1e-9 * L:
                    bad ('nodes', 'unequal-lengths', 'plain wire with unequal segment lengths %s' % l [:5])
                if np.abs (np.array ([s.seg_len for s in segs]) - L / g ['n']).max () > 1e-9 * L:
                    bad ('nodes', 'seg_len-attribute', 'seg_len attribute differs from length / n')
            if g ['k'] == 'h':
                feats.add ('h%s%s' % ('+' if g ['length'] > 0 else '-', '+' if g ['turn'] > 0 else '-'))
                if g.get ('rx2') is not None:
                    feats.add ('hrt')
    # mirror rule: taper end 2 of (p1, p2) == reversed taper end 1 of (p2, p1)
    for o in ref [:-1]:
        g = o ['g']
        if g ['k'] == 'w' and g.get ('taper') and g ['taper'][0] in (1, 2) and not spec.get ('tr') and not spec.get ('sc'):
            s2 = copy.deepcopy (spec)
            g2 = [x for x in s2 ['geo'] if x.get ('tag') == g ['tag']][0]
            g2 ['p1'], g2 ['p2'] = g2 ['p2'], g2 ['p1']
            g2 ['taper'][0] = 3 - g ['taper'][0]
            m2 = gen.build (s2)
            la = lengths (by_tag [o ['tag']].segments)
            lb = lengths ({x.tag: x for x in m2.geo} [o ['tag']].segments)
            mon ['mirror'] = mon.get ('mirror', 0) + 1
            if len (la) != len (lb) or np.abs (la - lb [::-1]).max () > 1e-9 * la.max ():
                bad ('mirror', 'taper-mirror', 'taper end %d is not the mirror of taper end %d on the reversed wire'
                     % (g ['taper'][0], 3 - g ['taper'][0]))
            break
    trk = sorted (set ((t [0][0] + ('T' if t [3] else '')) for t in spec.get ('tr') or []))
    sck = sorted (set (('s' + ('T' if s [1] else '')) for s in spec.get ('sc') or []))
    sig = '|'.join ([','.join (sorted (feats)), ','.join (trk), ','.join (sck), route])
    nontrivial = bool (trk or sck or (feats - {'w', 'w1'}))
    return dict ( status = 'violation' if viol else 'held', sig = sig, nontrivial = nontrivial
                , monitors = mon, violations = viol [:6])
# end def check
