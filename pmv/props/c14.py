""" C14 - results depend only on the inputs: no history dependence on one
    object (frequency changes, repeated and reordered far / near field
    requests, computing twice), sweep step k equals a fresh run, two runs
    of one command line are byte-identical.
    History + executable model: the model of a Mininec object is "pure
    function of (spec, frequency, last request)"; a fresh object built by
    the same code is its implementation.
"""
import os, sys, copy, shutil, tempfile, subprocess, gc
import numpy as np
from pmv import common, gen, observe, corpus

ID   = 'C14'
RULE = ( 'case kinds: (history) random operation sequences of 6..14 steps on one object - set frequency, compute, '
         'far field, near field, compute again, print report - on models carrying every load kind (skin effect, '
         'insulation, RLC, trap, Laplace, impedance; whole-antenna and tagged); after every observable step the object is '
         'compared with a fresh object (currents, matrix, far / near tables, report text); (sweep) step k of '
         '--frequency-steps vs a fresh single-frequency run of main, text compared block by block; (procs) one command '
         'line incl. --output-cmdline / --output-basic-input in 6 (quick) / 16 (thorough) fresh interpreters with different '
         'PYTHONHASHSEED, allocator and heap layout, stdout and files byte-compared; (inproc) the same model built '
         'repeatedly in one process while garbage moves object addresses, option text compared. non-trivial = distributed '
         'load or >= 3 frequency changes or >= 2 tagged loads; distinct = (kind, load kinds, op pattern)'
       )
MIN_EVAL = dict (quick = 90, thorough = 1500)
ANCHORS  = ['Mininec.f', 'Skin_Effect_Load.impedance', 'Insulation_Load.impedance', 'Pulse_Container.reset', '_Load.as_cmdline_load_attach', 'main']
ANCHORS_REQUIRED = ['Skin_Effect_Load.impedance', '_Load.as_cmdline_load_attach', 'main']
ASSUMPTIONS = ['history vs fresh comparisons use 1e-12 relative (the arithmetic is the same, bit-identity is expected)', 'byte comparison for text and files']
CASE_TIMEOUT = 600

def plan (tier, seed):
    k = 1 if tier == 'quick' else 18
    out  = [dict (kind = 'history', i = i, seed = seed) for i in range ((110 if tier == 'quick' else 70) * k)]
    out += [dict (kind = 'sweep',   i = i, seed = seed) for i in range (24 * k)]
    out += [dict (kind = 'sweep', i = 0, seed = seed, edge = [f0, inc, ks, ri]) for f0 in ((7.0, 14.1) if tier == 'quick' else (7.0, 14.1, 3.6, 21.3, 28.5))
            for inc in ((0.1, 0.04, 0.7) if tier == 'quick' else (0.1, 0.04, 0.7, 0.3, 0.01, 0.2)) for ks in (2, 3, 4, 5) for ri in (1, 2)]
    out += [dict (kind = 'procs',   i = i, seed = seed, n = 6 if tier == 'quick' else 16) for i in range (12 * k)]
    out += [dict (kind = 'inproc',  i = i, seed = seed) for i in range (16 * k)]
    out += [dict (kind = 'routes',  i = i, seed = seed) for i in range (30 * k)]
    out += [dict (kind = 'live',    i = i, seed = seed) for i in range (48 * k)]
    out += [dict (kind = 'stale',   i = i, seed = seed) for i in range (16 * k)]
    out += [dict (kind = 'sections', i = i, seed = seed) for i in range (24 * k)]
    out += [dict (c, kind = 'routes') for c in corpus.plan_cases (seed, tier, 1, 1)]
    return out
# end def plan

def loaded_model (rng, cli_sources = False, nobj_min = 2):
    """ model with several objects and a random mix of every load kind """
    for k in range (20):
        if rng.random () < 0.6:
            spec = gen.fam_free (rng, fam = str (rng.choice (['vee', 'L', 'zig', 'star3', 'T', 'yagi', 'loop'])), shift = False)
        else:
            spec = gen.fam_ground (rng, fam = str (rng.choice (['invL', 'Tgnd', 'two', 'bent', 'gp'])), shift = False)
        if len (spec ['geo']) >= nobj_min:
            break
    n = len (spec ['geo'])
    for i, g in enumerate (spec ['geo']):
        g ['tag'] = i + 1
        g ['taper'] = None
    if spec ['media'] is not None and rng.random () < 0.5:
        gen.rand_media (rng, spec)      # the far field over real ground depends on the frequency through the ground impedance
    if cli_sources:
        spec ['src'] = [dict (p = [1 + int (rng.integers (0, 2))], v = gen.rand_voltage (rng))]
    else:
        gen.add_sources (rng, spec, nmax = 2)
    loads = []
    kinds = list (rng.permutation (['skin', 'ins', 'rlc', 'trap', 'lap', 'z'])) [: int (rng.integers (2, 6))]
    for kind in kinds:
        tagged = bool (rng.random () < 0.5)
        if kind == 'skin':
            tags = [int (t) for t in rng.choice (np.arange (1, n + 1), size = int (rng.integers (1, n + 1)), replace = False)] if tagged else [None]
            for t in tags:
                loads.append (dict (k = 'skin', cond = float (10 ** rng.uniform (4, 7.8)), tag = t))
        elif kind == 'ins':
            tags = [int (t) for t in rng.choice (np.arange (1, n + 1), size = int (rng.integers (1, n + 1)), replace = False)] if tagged else [None]
            rb = max (g ['r'] for g in spec ['geo']) * float (rng.uniform (1.3, 3))
            for t in tags:
                loads.append (dict (k = 'ins', radius = rb, eps = float (rng.uniform (1.5, 5)), tag = t))
        else:
            att = [['all', int (rng.integers (1, n + 1))]] if tagged else ([['all']] if rng.random () < 0.4 else [[int (rng.integers (1, 4))]])
            if rng.random () < 0.3:
                att.append ([1 + int (rng.integers (0, 2)), int (rng.integers (1, n + 1))])
            if kind == 'rlc':
                loads.append (dict (k = 'rlc', R = float (10 ** rng.uniform (-1, 2)), L = float (10 ** rng.uniform (-8, -6)), C = float (10 ** rng.uniform (-11, -9)), att = att))
            elif kind == 'trap':
                loads.append (dict (k = 'trap', R = float (10 ** rng.uniform (-1, 1)), L = float (10 ** rng.uniform (-7, -5)), C = float (10 ** rng.uniform (-12, -10)), att = att))
            elif kind == 'lap':
                loads.append (dict (k = 'lap', a = [1.0, float (10 ** rng.uniform (-9, -7))], b = [float (10 ** rng.uniform (0, 2)), float (10 ** rng.uniform (-7, -5))], att = att))
            else:
                loads.append (dict (k = 'z', z = [float (10 ** rng.uniform (0, 2)), float (rng.uniform (-50, 50))], att = att))
    spec ['loads'] = loads
    return gen.clean (spec)
# end def loaded_model

def relerr (a, b):
    a, b = np.asarray (a), np.asarray (b)
    if a.shape != b.shape:
        return np.inf
    n = max (np.abs (b).max (initial = 0), 1e-300)
    return float (np.abs (a - b).max (initial = 0) / n)
# end def relerr

def request (MM, m, op, reuse = None):
    if op [0] == 'far':
        kw = {}
        if op [3] is not None:
            kw ['pwr'] = op [3]
        if op [4]:
            kw ['dist'] = op [4]
        if reuse is not None:
            # the history object keeps one pair of Angle objects and changes their fields between requests
            if 'zen' not in reuse:
                reuse ['zen'], reuse ['azi'] = MM.Angle (*op [1]), MM.Angle (*op [2])
                reuse ['zen'].angle_deg (); reuse ['azi'].angle_rad ()
            for a, v in ((reuse ['zen'], op [1]), (reuse ['azi'], op [2])):
                a.initial, a.inc, a.number = v
            zen, azi = reuse ['zen'], reuse ['azi']
        else:
            zen, azi = MM.Angle (*op [1]), MM.Angle (*op [2])
        common.guarded (lambda: m.compute_far_field (zen, azi, **kw), 'compute_far_field')
    elif op [0] == 'near':
        kw = {} if op [4] is None else dict (pwr = op [4])
        common.guarded (lambda: m.compute_near_field (op [1], op [2], op [3], **kw), 'compute_near_field')
# end def request

def snapshot (m, opts):
    d = dict (current = np.array (m.current), Z = np.array (m.Z), power = float (m.power), f = m.f)
    d ['imp'] = np.array ([complex (s.impedance) for s in m.sources])
    if 'far-field' in opts:
        ff = m.far_field
        d ['gain'] = np.array (ff.gain)
        d ['et']   = np.array (ff.e_theta)
        d ['ep']   = np.array (ff.e_phi)
    if 'near-field' in opts:
        d ['E'] = np.array (m.e_field)
        d ['H'] = np.array (m.h_field)
        d ['xyz'] = np.array (m.near_field_coord)
    d ['text'] = common.guarded (lambda: m.as_mininec (opts), 'as_mininec')
    return d
# end def snapshot

def check_history (c):
    rng  = np.random.default_rng ([c ['seed'], 141, c ['i']])
    spec = loaded_model (rng)
    # a third of the models with tapered wires (without limits): how a wire is cut does not depend on the frequencies
    # the object has seen
    rt = np.random.default_rng ([c ['seed'], 146, c ['i']])
    if rt.random () < 0.33:
        gen.taper_some (rt, spec, 0.6)
    MM   = common.repo ()
    lam  = gen.C_MHZ / spec ['f']
    f0   = spec ['f']
    nf   = int (rng.integers (2, 5))
    freqs = [f0 * float (rng.uniform (0.7, 1.4)) for k in range (nf)]
    if rng.random () < 0.5:
        freqs.append (freqs [0])          # come back to an earlier frequency
    # a frequency that differs from the one before by parts per million or less (fine sweeps across a resonance)
    rq = np.random.default_rng ([c ['seed'], 145, c ['i']])
    if rq.random () < 0.5:
        k = int (rq.integers (0, len (freqs)))
        freqs.insert (k + 1, freqs [k] * (1 + float (rq.choice ([1e-9, 4e-7, 3e-6, 9e-6, -6e-6, 2e-5]))))
    ops = []
    for f in freqs:
        ops.append (('f', f))
        ops.append (('compute',))
        for k in range (int (rng.integers (1, 4))):
            u = rng.random ()
            if u < 0.4:
                ops.append (('far', [float (rng.choice ([0, 10])), float (rng.choice ([20, 45])), int (rng.integers (2, 5))]
                                  , [0.0, float (rng.choice ([45, 90])), int (rng.integers (1, 4))]
                                  , None if rng.random () < 0.5 else float (10 ** rng.uniform (-2, 3)), float (rng.choice ([0, 0, 100.0]))))
                if (c ['i'] + k) % 2 == 0:
                    # the same directions again: with a distance, with another distance, with and without a power level
                    o = ops [-1]
                    for dd in ([1000.0, 30.0, 0] [: 1 + (c ['i'] + k) % 3]):
                        ops.append (('far', o [1], o [2], (None if rng.random () < 0.5 else float (10 ** rng.uniform (-2, 3))), dd))
            elif u < 0.7:
                st = [float (x) for x in (rng.uniform (1.5, 4, 3) * lam * np.array ([1, 1, 1]))]
                ops.append (('near', st, [0.1 * lam] * 3, [2, 1, int (rng.integers (1, 3))], None if rng.random () < 0.5 else float (10 ** rng.uniform (-2, 3))))
                if (c ['i'] + k) % 2:
                    # the same points (or a grid that shares some of them) again at another power level
                    o = ops [-1]
                    ops.append (('near', o [1], o [2], [o [3][0], 1, 1] if (c ['i'] + k) % 4 == 1 else o [3], float (10 ** rng.uniform (-2, 3)) if o [4] is None or rng.random () < 0.7 else None))
            elif u < 0.85:
                # computing twice, three times, four times at the same frequency
                for r in range (1 + (c ['i'] + k) % 3):
                    ops.append (('compute',))
            else:
                ops.append (('report',))
    m    = gen.build (spec)
    viol = []
    mon  = {}
    worst = 0.0
    last = dict (far = None, near = None)
    angles = {}
    nchk = 0
    for step, op in enumerate (ops):
        if op [0] == 'f':
            m.f = op [1]
            f_asked = op [1]
            last = dict (far = None, near = None)
            continue
        if op [0] == 'compute':
            observe.solve (m)
        elif op [0] in ('far', 'near'):
            request (MM, m, op, reuse = angles)
            last [op [0]] = op
        opts = set ()
        if last ['far']:
            opts.add ('far-field')
            if last ['far'][4]:
                opts.add ('far-field-absolute')
        if last ['near']:
            opts.add ('near-field')
        if not opts and op [0] == 'report':
            continue
        # ---- fresh object for the current frequency, same last requests
        s2 = copy.deepcopy (spec)
        s2 ['f'] = f_asked          # the frequency that was asked for (not what the object says it has)
        fr = gen.build (s2)
        observe.solve (fr)
        # a far / near table computed before the last compute () of the history object at this frequency is
        # still valid (same frequency, same currents): ask the fresh object for the same tables
        for k in ('far', 'near'):
            if last [k]:
                request (MM, fr, last [k])
        if 'near-field' in opts and not (np.isfinite (np.asarray (m.e_field)).all () and np.isfinite (np.asarray (fr.e_field)).all ()):
            # a power level was asked for while the sources absorb net power: no finite field to print on either object
            return dict (status = 'discard', reason = 'near field not finite (sources absorb net power)')
        try:
            a = snapshot (m, opts)
            b = snapshot (fr, opts)
        except common.Repo_Crash:
            raise
        nchk += 1
        for key in a:
            if key == 'text':
                mon ['report-text'] = mon.get ('report-text', 0) + 1
                if a [key] != b [key]:
                    la, lb = a [key].split ('\n'), b [key].split ('\n')
                    diff = [(x, y) for x, y in zip (la, lb) if x != y] [:1]
                    viol.append (dict (monitor = 'report-text', key = 'history-report', msg = 'step %d (%s) at %.6g MHz: report differs from a fresh run: %r' % (step, op [0], m.f, diff)))
                continue
            e = relerr (a [key], b [key])
            mon [key] = mon.get (key, 0) + 1
            worst = max (worst, e / 1e-12)
            if e > 1e-12 and len (viol) < 6:
                viol.append (dict ( monitor = 'state:' + key, key = 'history-' + key
                                  , msg = 'step %d (%s) at %.6g MHz after %s: %s differs by %.3g from a fresh object' % (step, op [0], m.f, [o [0] for o in ops [:step]] [-6:], key, e)
                                  , measured = e, allowed = 1e-12))
        if viol:
            break
    kinds = '+'.join (sorted (set (l ['k'] + ('T' if l.get ('tag') else '') for l in spec ['loads'])))
    pat = ''.join (o [0][0] for o in ops)
    sig = 'history|%s|%s|%s' % (kinds, 'gnd' if spec ['media'] else 'free', pat [:10])
    nontrivial = any (l ['k'] in ('skin', 'ins') for l in spec ['loads']) or len (freqs) >= 3
    return dict (status = 'violation' if viol else 'held', sig = sig, nontrivial = bool (nontrivial), margin = worst, monitors = mon, violations = viol
                , info = dict (steps = len (ops), compared = nchk, ops = pat))
# end def check_history

def dep_blocks (text):
    """ frequency dependent part of a report: list of (frequency lines, source data .. end of step) """
    lines = text.split ('\n')
    idx = [i for i, l in enumerate (lines) if l.startswith ('FREQUENCY (MHZ):')]
    out = []
    for k, i in enumerate (idx):
        j = idx [k + 1] if k + 1 < len (idx) else len (lines)
        chunk = lines [i:j]
        head  = chunk [:2]
        try:
            s = next (n for n, l in enumerate (chunk) if 'SOURCE DATA' in l)
        except StopIteration:
            out.append ((head, []))
            continue
        body = [l for l in chunk [s:] if l.strip ()]
        out.append ((head, body))
    return out
# end def dep_blocks

def check_sweep (c):
    rng  = np.random.default_rng ([c ['seed'], 142, c ['i']])
    spec = loaded_model (rng, cli_sources = True)
    argv = gen.to_argv (spec)
    n    = int (rng.integers (2, 5))
    inc  = spec ['f'] * float (rng.choice ([0.01, 0.05, -0.03, 0.2, 0.01, 0.05, 3e-6, 8e-6]))
    extra = ['--theta=0,30,3', '--phi=0,90,2']
    if rng.random () < 0.4:
        lam = gen.C_MHZ / spec ['f']
        extra += ['--near-field=%r,%r,%r,1,1,1,1,1,2' % (2 * lam, 2 * lam, 2 * lam), '--option', 'near-field', '--option', 'far-field']
        if rng.random () < 0.5:
            extra += ['--option', 'far-field-absolute', '--ff-distance', '500']
    edge = 'edge' in c
    if edge:
        # a wire whose radius sits exactly on (or one float beside) the limit of 1e-4 wavelengths at one step of the
        # sweep: which formulas the step uses is decided by its frequency f0 + k * increment, like in a run for it alone
        f0, inc, ks, ri = c ['edge']
        n   = ks + 1
        r0  = 0.0001 * (299.8 / (f0 + ks * inc))
        r   = [float (np.nextafter (r0, 0)), r0, float (np.nextafter (r0, np.inf)), float (np.nextafter (np.nextafter (r0, np.inf), np.inf))] [ri]
        spec = dict (f = f0, geo = [], media = None, loads = [], src = [])
        argv = ['-f', repr (f0), '-w', '10,0,0,0,0,0,%r,%r' % (0.47 * 299.8 / f0, r), '--excitation-pulse', '5']
    rs = common.run_main (argv + extra + ['--frequency-steps', str (n), '--frequency-increment=%r' % inc])
    if rs ['kind'] == 'exception':
        raise common.Repo_Crash (rs ['exc'], 'main(sweep)')
    if rs ['ret'] is not None:
        return dict (status = 'discard', reason = 'sweep rejected: ' + (rs ['out'] + rs ['err']).strip () [-60:])
    steps = dep_blocks (rs ['out'])
    viol, mon = [], {}
    if len (steps) != n:
        viol.append (dict (monitor = 'sweep', key = 'sweep-steps', msg = '%d frequency blocks for %d steps' % (len (steps), n)))
    for k, (head, body) in enumerate (steps [:n]):
        f = spec ['f'] + k * inc
        a2 = list (argv)
        a2 [a2.index ('-f') + 1] = repr (f)
        r1 = common.run_main (a2 + extra)
        if r1 ['kind'] == 'exception':
            raise common.Repo_Crash (r1 ['exc'], 'main(single)')
        one = dep_blocks (r1 ['out'])
        mon ['sweep-step'] = mon.get ('sweep-step', 0) + 1
        if len (one) != 1 or one [0] != (head, body):
            h1, b1 = one [0] if one else ([], [])
            diff = [(x, y) for x, y in zip (head + body, h1 + b1) if x != y] [:1]
            viol.append (dict (monitor = 'sweep-step', key = 'sweep-step', msg = 'step %d of the sweep (%.8g MHz) differs from a fresh single-frequency run: %r (lengths %d / %d)' % (k, f, diff, len (body), len (b1))))
            break
    kinds = '+'.join (sorted (set (l ['k'] + ('T' if l.get ('tag') else '') for l in spec ['loads'])))
    return dict (status = 'violation' if viol else 'held', sig = 'sweep|%s|%s|n%d%s' % (kinds, 'gnd' if spec ['media'] else 'free', n, '|edge' if edge else '')
                , nontrivial = edge or any (l ['k'] in ('skin', 'ins') for l in spec ['loads']), monitors = mon, violations = viol)
# end def check_sweep

def check_procs (c):
    rng  = np.random.default_rng ([c ['seed'], 143, c ['i']])
    spec = loaded_model (rng, cli_sources = True, nobj_min = 3)
    argv = gen.to_argv (spec) + ['--theta=0,30,3', '--phi=0,90,2']
    # several tables in one report: their order must not depend on the process either
    lam  = gen.C_MHZ / spec ['f']
    pool = [['--option', 'far-field'], ['--option', 'far-field-absolute', '--ff-distance', '1000'], ['--option', 'near-field', '--near-field=%r,%r,%r,1,1,1,1,1,2' % (2 * lam, 2 * lam, 2 * lam)]]
    for j in rng.permutation (3) [: int (rng.integers (0, 4))]:
        argv += pool [j]
    tmp  = tempfile.mkdtemp (prefix = 'pmv-c14-')
    outs = []
    viol, mon = [], {}
    try:
        for k in range (c ['n']):
            d = os.path.join (tmp, 'r%d' % k)
            os.makedirs (d)
            env = dict (os.environ)
            env ['PYTHONHASHSEED'] = str (int (rng.integers (0, 2 ** 31)))
            env ['PYTHONMALLOC']   = 'malloc' if k % 2 else 'pymalloc'
            env.pop (common.GUARD, None)
            env ['PYTHONPATH'] = common.REPO
            a = argv + ['--output-cmdline', os.path.join (d, 'o.pym')]
            lk = set (l ['k'] for l in spec ['loads'])
            if not (lk & {'rlc', 'trap', 'lap'}) or not (lk & {'z', 'skin', 'ins'}):
                # BASIC MININEC takes either impedance-type or Laplace-type loads
                a += ['--output-basic-input', os.path.join (d, 'o.mini')]
            cmd = [sys.executable, os.path.join (common.VERIF, 'pmv', 'detrun.py'), common.REPO, str (int (rng.integers (0, 2 ** 31))), os.path.join (d, 'stdout')] + a
            try:
                p = subprocess.run (cmd, env = env, capture_output = True, text = True, timeout = 300, cwd = d)
            except subprocess.TimeoutExpired:
                return dict (status = 'inconclusive', reason = 'fresh interpreter watchdog')
            if p.returncode != 0:
                return dict (status = 'inconclusive', reason = 'fresh interpreter failed: ' + p.stderr [-200:])
            files = {}
            for name in ('stdout', 'o.pym', 'o.mini'):
                fn = os.path.join (d, name)
                files [name] = open (fn).read ().replace (d, '<DIR>') if os.path.exists (fn) else None
            outs.append (files)
        ref = outs [0]
        if 'EXCEPTION' in (ref ['stdout'] or '') or 'RETURN None' not in (ref ['stdout'] or ''):
            return dict (status = 'discard', reason = 'command line not accepted: ' + (ref ['stdout'] or '') [-80:])
        for name in ('stdout', 'o.pym', 'o.mini'):
            mon ['bytes:' + name] = len (outs)
            distinct = len (set (o [name] for o in outs))
            if distinct != 1:
                a, b = ref [name], [o [name] for o in outs if o [name] != ref [name]][0]
                diff = [(x, y) for x, y in zip ((a or '').split ('\n'), (b or '').split ('\n')) if x != y] [:2]
                viol.append (dict (monitor = 'bytes:' + name, key = 'run-to-run-' + name.replace ('o.', ''), msg = '%d different versions of %s in %d runs of the same command line: %r' % (distinct, name, len (outs), diff)))
    finally:
        shutil.rmtree (tmp, ignore_errors = True)
    kinds = '+'.join (sorted (set (l ['k'] + ('T' if l.get ('tag') else '') for l in spec ['loads'])))
    ntag = sum (1 for l in spec ['loads'] if l.get ('tag') or any (len (a) > 1 for a in l.get ('att', [])))
    return dict (status = 'violation' if viol else 'held', sig = 'procs|%s|%s' % (kinds, 'gnd' if spec ['media'] else 'free')
                , nontrivial = ntag >= 2 or any (l ['k'] in ('skin', 'ins') for l in spec ['loads']), monitors = mon, violations = viol)
# end def check_procs

def check_inproc (c):
    rng  = np.random.default_rng ([c ['seed'], 144, c ['i']])
    spec = loaded_model (rng, cli_sources = True, nobj_min = 3)
    MM   = common.repo ()
    texts = []
    keep  = []
    for k in range (10):
        keep.append ([bytearray (int (rng.integers (16, 5000))) for j in range (int (rng.integers (1, 400)))])
        if k % 3 == 2:
            keep.pop (0)
            gc.collect ()
        m = gen.build (spec)
        texts.append (( common.guarded (lambda: m.as_cmdline (azi = MM.Angle (0, 90, 2), zen = MM.Angle (0, 30, 3)), 'as_cmdline')
                      , common.guarded (lambda: m.as_cmdline (load_by_geo = True), 'as_cmdline')))
    viol = []
    n = len (set (texts))
    if n != 1:
        a = texts [0][0].split ('\n')
        b = [t for t in texts if t != texts [0]][0][0].split ('\n')
        viol.append (dict (monitor = 'inproc', key = 'run-to-run-pym', msg = '%d different option texts in 10 builds of the same model in one process: %r' % (n, [(x, y) for x, y in zip (a, b) if x != y] [:2])))
    kinds = '+'.join (sorted (set (l ['k'] + ('T' if l.get ('tag') else '') for l in spec ['loads'])))
    ntag = sum (1 for l in spec ['loads'] if l.get ('tag') or any (len (a) > 1 for a in l.get ('att', [])))
    return dict (status = 'violation' if viol else 'held', sig = 'inproc|%s' % kinds, nontrivial = ntag >= 2, monitors = dict (inproc = 10), violations = viol)
# end def check_inproc

def check_routes (c):
    """ the model described by an option file and the same model put together with the classes of the library - in the
        order the program uses, with the loads registered before the sources, from a plain list of objects - give
        the same matrix, currents, impedances and report: the result depends on the inputs, not on the way or the
        order in which they were handed over. (Insulation loads are created after the Mininec object on every route:
        creating them earlier changes the result, see the known finding stale-i6-insulated-wire of C18.)
    """
    rng  = np.random.default_rng ([c ['seed'], 146, c ['i']])
    if 'corpus' in c:
        spec = corpus.make (c, 14, freq = False, sources = False)
    else:
        spec = loaded_model (rng, cli_sources = True, nobj_min = 1)
    MM   = common.repo ()
    m0   = gen.build (spec)
    observe.solve (m0)
    opts = {'far-field'}
    zen, azi = (10.0, 35.0, 3), (0.0, 60.0, 3)
    common.guarded (lambda: m0.compute_far_field (MM.Angle (*zen), MM.Angle (*azi)), 'compute_far_field')
    a = snapshot (m0, opts)
    viol, mon = [], {}
    worst = 0.0
    variants = [('api', {}), ('api-late-sources', dict (late_sources = True))]
    if not (spec.get ('tr') or spec.get ('sc')) and not any (l ['k'] in ('skin', 'ins') for l in spec ['loads']) and not any (g.get ('taper') for g in spec ['geo']):
        variants.append (('api-plain-list', dict (plain_list = True)))
    for name, kw in variants:
        m1 = gen.build (spec, route = 'api', **kw)
        observe.solve (m1)
        common.guarded (lambda: m1.compute_far_field (MM.Angle (*zen), MM.Angle (*azi)), 'compute_far_field')
        b = snapshot (m1, opts)
        for key in a:
            mon [name] = mon.get (name, 0) + 1
            if key == 'text':
                if a [key] != b [key]:
                    la, lb = a [key].split ('\n'), b [key].split ('\n')
                    viol.append (dict (monitor = 'routes', key = 'route-report', msg = 'route %s: report differs from the command-line route: %r' % (name, [(x, y) for x, y in zip (la, lb) if x != y] [:1])))
                continue
            e = relerr (b [key], a [key])
            worst = max (worst, e / 1e-12)
            if e > 1e-12 and len (viol) < 6:
                viol.append (dict (monitor = 'routes', key = 'route-' + key, msg = 'route %s: %s differs by %.3g from the model built through the command line' % (name, key, e), measured = e, allowed = 1e-12))
    kinds = '+'.join (sorted (set (l ['k'] + ('T' if l.get ('tag') else '') for l in spec ['loads'])))
    return dict ( status = 'violation' if viol else 'held', sig = 'routes|%s|%s|%s|%d' % (spec.get ('fam'), kinds, 'gnd' if spec ['media'] else 'free', len (variants))
                , nontrivial = bool (spec ['loads']) or len (spec ['geo']) > 1, margin = worst, monitors = mon, violations = viol)
# end def check_routes

def check_stale (c):
    """ a field asked for after the frequency of the object was changed and before it was solved again: either it is
        refused, or it is the field of that frequency (what a fresh object gives) - never the field of the currents of
        the frequency before """
    rng  = np.random.default_rng ([c ['seed'], 149, c ['i']])
    spec = loaded_model (rng, cli_sources = True, nobj_min = 1)
    MM   = common.repo ()
    m    = gen.build (spec)
    observe.solve (m)
    zen, azi = MM.Angle (10.0, 35.0, 3), MM.Angle (0.0, 120.0, 3)
    common.guarded (lambda: m.compute_far_field (zen, azi), 'compute_far_field')
    f1   = spec ['f'] * float (rng.choice ([2.0, 0.5, 1.3, 1.01]))
    m.f  = f1
    viol, mon = [], {}
    kinds = []
    lam  = gen.C_MHZ / f1
    for what in ('far', 'near'):
        try:
            if what == 'far':
                m.compute_far_field (zen, azi)
                got = np.array (m.far_field.gain)
            else:
                m.compute_near_field ([2 * lam, lam, 2 * lam], [1.0, 1.0, 1.0], [1, 1, 1])
                got = np.array (m.e_field)
        except Exception as e:
            kinds.append (what + ':refused')
            mon ['stale.refused'] = mon.get ('stale.refused', 0) + 1
            continue
        fresh = gen.build (dict (spec, f = f1))
        observe.solve (fresh)
        if what == 'far':
            fresh.compute_far_field (MM.Angle (10.0, 35.0, 3), MM.Angle (0.0, 120.0, 3))
            want = np.array (fresh.far_field.gain)
        else:
            fresh.compute_near_field ([2 * lam, lam, 2 * lam], [1.0, 1.0, 1.0], [1, 1, 1])
            want = np.array (fresh.e_field)
        kinds.append (what + ':answered')
        mon ['stale.answered'] = mon.get ('stale.answered', 0) + 1
        d = float (np.abs (got - want).max () / max (np.abs (want).max (), 1e-300)) if what == 'near' else float (np.abs (got - want).max ())
        if d > (1e-9 if what == 'near' else 1e-6):
            viol.append (dict (monitor = 'stale', key = 'field-of-stale-currents', msg = '%s field asked for after the frequency was set from %.6g to %.6g MHz without solving again: answered with values that differ by %.3g from those of the new frequency' % (what, spec ['f'], f1, d), measured = d, allowed = 1e-6))
    return dict (status = 'violation' if viol else 'held', sig = 'stale|%s|%s' % ('+'.join (kinds), 'gnd' if spec ['media'] else 'free'), nontrivial = True, monitors = mon, violations = viol)
# end def check_stale

def check_live (c):
    """ several model objects alive in one process, built first and computed in turns: what one object returns does not
        depend on what was done with another """
    rng = np.random.default_rng ([c ['seed'], 147, c ['i']])
    sa  = loaded_model (rng, cli_sources = True, nobj_min = 1)
    sb  = loaded_model (rng, cli_sources = True, nobj_min = 1)
    MM  = common.repo ()
    # (every other pair through the classes of the library, without the call that the command line makes after
    # registering distributed loads: whatever the junction pulses then carry, they carry it at every solve)
    kwb = dict (route = 'api', fix = False) if c ['i'] % 2 else {}
    a   = gen.build (sa, **kwb)
    observe.solve (a)
    ref = dict (current = np.array (a.current), Z = np.array (a.Z), imp = np.array ([complex (s.impedance) for s in a.sources]))
    b   = gen.build (sb, **kwb)
    a2  = gen.build (sa, **kwb)            # a second object of the first model, built while the other model is alive
    observe.solve (b)
    rb  = dict (current = np.array (b.current), imp = np.array ([complex (s.impedance) for s in b.sources]))
    viol, mon = [], {}
    worst = 0.0
    def cmp (name, got, want):
        nonlocal worst
        for k in want:
            e = relerr (got [k], want [k])
            mon [name] = mon.get (name, 0) + 1
            worst = max (worst, e / 1e-12)
            if e > 1e-12 and len (viol) < 6:
                viol.append (dict (monitor = 'live:' + name, key = 'live-objects-' + k, msg = '%s: %s differs by %.3g' % (name, k, e), measured = e, allowed = 1e-12))
    observe.solve (a)
    cmp ('first object computed again after another model was computed', dict (current = np.array (a.current), Z = np.array (a.Z), imp = np.array ([complex (s.impedance) for s in a.sources])), ref)
    observe.solve (a2)
    cmp ('second object of the first model, built before and computed after the other model', dict (current = np.array (a2.current), Z = np.array (a2.Z), imp = np.array ([complex (s.impedance) for s in a2.sources])), ref)
    observe.solve (b)
    cmp ('other model computed again', dict (current = np.array (b.current), imp = np.array ([complex (s.impedance) for s in b.sources])), rb)
    # one load object handed to the first model and then to the second: refused, or the second model carries the load
    # (what a load object of its own gives) - whether the first model was made before must not matter
    if c ['i'] % 3 == 0 and len (b.pulses) >= 2:
        ld  = MM.Impedance_Load (120.0 + 45.0j)
        a3, b3, b4 = gen.build (sa, **kwb), gen.build (sb, **kwb), gen.build (sb, **kwb)
        a3.register_load (ld, 0)
        mon ['shared-load'] = 1
        try:
            b3.register_load (ld, 1)
            refused = False
        except Exception:
            refused = True
        if not refused:
            b4.register_load (MM.Impedance_Load (120.0 + 45.0j), 1)
            observe.solve (b3); observe.solve (b4)
            e = relerr (np.array (b3.current), np.array (b4.current))
            worst = max (worst, e / 1e-12)
            if e > 1e-12:
                viol.append (dict (monitor = 'live:shared-load', key = 'load-object-of-another-model', msg = 'a load object registered in one model and then in a second one is accepted: the currents of the second model differ by %.3g from those with a load object of its own (%d loads in the model)' % (e, len (b3.loads)), measured = e, allowed = 1e-12))
    return dict ( status = 'violation' if viol else 'held', sig = 'live|%s|%s|%d-%d' % (sa.get ('fam'), sb.get ('fam'), len (a.pulses), len (b.pulses))
                , nontrivial = len (a.pulses) != len (b.pulses), margin = worst, monitors = {k [:40]: v for k, v in mon.items ()}, violations = viol)
# end def check_live

def block (text, head, stops):
    """ lines of the report from the line containing head up to the next line containing one of stops """
    out, on = [], False
    for l in text.split ('\n'):
        if head in l:
            on = True
        elif on and any (s in l for s in stops):
            break
        if on and l.strip ():
            out.append (l)
    return out
# end def block

def check_sections (c):
    """ the far-field part of a report that also has a near field (with its own power level) is the far-field part of
        the report without the near field, and the other way round """
    rng  = np.random.default_rng ([c ['seed'], 148, c ['i']])
    spec = loaded_model (rng, cli_sources = True, nobj_min = 1)
    argv = gen.to_argv (spec)
    lam  = gen.C_MHZ / spec ['f']
    far  = ['--theta=10,30,3', '--phi=0,90,2', '--option', 'far-field'] + (['--option', 'far-field-absolute', '--ff-distance', '%g' % float (10 ** rng.uniform (1, 4))] if rng.random () < 0.7 else [])
    if rng.random () < 0.4:
        far += ['--ff-power', '%g' % float (10 ** rng.uniform (-1, 3))]
    near = ['--near-field=%r,%r,%r,1,1,1,2,1,1' % (2 * lam, 1.5 * lam, 2 * lam), '--option', 'near-field']
    if rng.random () < 0.7:
        near += ['--nf-power', '%g' % float (10 ** rng.uniform (-1, 3))]
    both = common.run_main (argv + far + near)
    fo   = common.run_main (argv + far)
    no   = common.run_main (argv + near)
    for r in (both, fo, no):
        if r ['kind'] == 'exception':
            raise common.Repo_Crash (r ['exc'], 'main')
    if both ['ret'] is not None or fo ['ret'] is not None or no ['ret'] is not None:
        return dict (status = 'discard', reason = 'rejected: ' + (both ['out'] + both ['err']).strip () [-60:])
    viol, mon = [], {}
    for head in ('*     FAR FIELD      *',):
        a, b = block (both ['out'], head, ('*    NEAR FIELDS     *',)), block (fo ['out'], head, ('*    NEAR FIELDS     *',))
        if len (a) < 5 or len (b) < 5:
            return dict (status = 'inconclusive', reason = 'far-field part of the report not found')
        mon ['far-section'] = mon.get ('far-section', 0) + 1
        if a != b:
            viol.append (dict (monitor = 'far-section', key = 'far-section-depends-on-near-request', msg = 'far-field part of the report with a near-field request differs from the report without it: %r' % ([(x, y) for x, y in zip (a, b) if x != y] [:2] or (len (a), len (b)),)))
            break
    a, b = block (both ['out'], '*    NEAR FIELDS     *', ('*     FAR FIELD      *',)), block (no ['out'], '*    NEAR FIELDS     *', ('*     FAR FIELD      *',))
    mon ['near-section'] = 1
    if len (a) < 10 or len (b) < 10:
        return dict (status = 'inconclusive', reason = 'near-field part of the report not found')
    if a != b:
        viol.append (dict (monitor = 'near-section', key = 'near-section-depends-on-far-request', msg = 'near-field part of the report with a far-field request differs from the report without it: %r' % ([(x, y) for x, y in zip (a, b) if x != y] [:2] or (len (a), len (b)),)))
    return dict (status = 'violation' if viol else 'held', sig = 'sections|%s|%d%d%d' % (spec.get ('fam'), '--ff-power' in far, '--nf-power' in near, '--ff-distance' in far)
                , nontrivial = '--nf-power' in near or '--ff-power' in far, monitors = mon, violations = viol)
# end def check_sections

def check (c):
    return dict (stale = check_stale, live = check_live, sections = check_sections, history = check_history, sweep = check_sweep, procs = check_procs, inproc = check_inproc, routes = check_routes) [c ['kind']] (c)
# end def check
