""" C15 - the option file written for a model reproduces that model when
    read back. The reader is the program itself; the oracle is model
    equality between M and M' = main (options written for M), plus the
    fixed point of the written text.
"""
import re, json
import os, copy, shutil, tempfile
import numpy as np
from pmv import common, gen, corpus, observe, instrument
from pmv.oracles import georef

ID   = 'C15'
RULE = ( 'accepted command lines generated from the model grammar: wires, arcs, helices with automatic, explicit, '
         'permuted and sparse tags, tapered tagged wires (with and without limits), tagged and untagged rotations / '
         'translations / scalings, 1..3 sources (complex voltages, exactly 1 V ones, absolute and per-object form), every '
         'lumped load kind with inductive and capacitive values in every attachment form and in any option order, whole '
         'antenna and several tagged skin-effect / insulation loads, all media forms. M is built by main, its options are '
         'written through --output-cmdline, read back by main: objects (class, tag, segment end points, radius, taper, '
         'transforms), sources (pulse, voltage), loads per pulse (kind, parameters, impedance), media chain, feed '
         'impedance; the options written for M\' must equal those written for M. non-trivial = non-automatic tags or loads '
         'or transforms; distinct = feature signature + option kinds'
       )
MIN_EVAL = dict (quick = 200, thorough = 5000)
ANCHORS  = ['Mininec.as_cmdline', 'Geo_Container.as_cmdline', 'Excitation.as_cmdline', '_Load.as_cmdline_load_attach', 'Impedance_Load.as_cmdline'
           , 'Laplace_Load.as_cmdline', 'Series_RLC_Load.as_cmdline', 'Trap_Load.as_cmdline', 'Skin_Effect_Load.as_cmdline', 'Insulation_Load.as_cmdline'
           , 'Medium.as_cmdline', 'Arc.as_cmdline', 'Helix.as_cmdline', 'Wire.as_cmdline', 'main']
ANCHORS_REQUIRED = ['Mininec.as_cmdline', '_Load.as_cmdline_load_attach', 'Wire.as_cmdline', 'Medium.as_cmdline', 'main']
ASSUMPTIONS = ['printed precision: geometry 11 digits, loads / voltages / media 6 digits, Laplace coefficients 8 digits (compared with 1e-9 resp. 6e-6 relative)']
MAX_DISCARD = 0.35

def plan (tier, seed):
    n = 320 if tier == 'quick' else 8000
    return [dict (i = i, seed = seed) for i in range (n)] + corpus.plan_cases (seed, tier, 1, 3) + pulse_less (seed)
# end def plan

def pulse_less (seed):
    """ a one-segment wire whose only pulse belongs to the wire it joins (it owns none), with loads attached to it by
        object: whatever the program accepts it must be able to write and read again """
    out = []
    for k, att in enumerate ([[['all', 1]], [['all', 1], [2]], [['all', 2]], [['all', 1], ['all', 2]], [['all']], [[1, 2], ['all', 1]]]):
        for gnd in (False, True):
            z0 = 1.0 if not gnd else 0.0
            geo = [gen.wire (1, [0, 0, z0], [0, 0, z0 + 1.0], 0.001, tag = 1), gen.wire (5, [0, 0, z0 + 1.0], [0, 3.0, z0 + 4.0], 0.001, tag = 2)]
            out.append (dict ( f = 7.1 + 0.01 * (seed % 7), geo = geo, media = ([[0, 0, 0]] if gnd else None), src = [dict (p = [2], v = [1.0, 0.5])]
                             , loads = [dict (k = 'z', z = [50.0, -12.0], att = att)], style = 'pulse-less', fam = 'pulse-less%d' % k))
    return out
# end def pulse_less

def make (c):
    if 'corpus' in c:
        # the repository's hand-made option files (other voltages; variants at a moved frequency)
        spec = corpus.make (c, 15)
        spec ['style'] = 'corpus'
        return spec
    rng = np.random.default_rng ([c ['seed'], 15, c ['i']])
    env = str (rng.choice (['free', 'free', 'ideal', 'real1', 'real2', 'real3', 'radials']))
    if env == 'free':
        spec = gen.fam_free (rng, equal_junction = bool (rng.random () < 0.6), shift = bool (rng.random () < 0.3))
        lam  = gen.C_MHZ / spec ['f']
        if rng.random () < 0.25:
            spec ['geo'].append (dict (k = 'a', n = int (rng.integers (3, 9)), radius = float (lam * rng.uniform (0.03, 0.1)), a1 = float (np.round (rng.uniform (0, 90), 2))
                                      , a2 = float (np.round (rng.uniform (120, 300), 2)), r = float (lam * 1e-3), tag = None, far = True))
            # a negative start angle in half of the arcs (round 10: the writer "normalised" it; own generator, the main stream is not disturbed)
            if np.random.default_rng ([c ['seed'], 159, c ['i']]).random () < 0.5 and spec ['geo'][-1]['a2'] + spec ['geo'][-1]['a1'] < 350:
                spec ['geo'][-1]['a1'] = -spec ['geo'][-1]['a1']
        if rng.random () < 0.25:
            h = dict ( k = 'h', n = int (rng.integers (6, 14)), length = float (lam * rng.uniform (0.05, 0.2) * rng.choice ([1, -1])), turn = float (lam * rng.uniform (0.03, 0.08) * rng.choice ([1, -1]))
                     , r = float (lam * 5e-4), rx1 = float (lam * rng.uniform (0.01, 0.03)), ry1 = float (lam * rng.uniform (0.01, 0.03)), tag = None, far = True)
            if rng.random () < 0.5:
                h ['rx2'] = float (lam * rng.uniform (0.01, 0.03))
                h ['ry2'] = float (lam * rng.uniform (0.01, 0.03))
            spec ['geo'].append (h)
    else:
        med = 'ideal'
        if env == 'real1':
            med = [[float (rng.uniform (2, 80)), float (10 ** rng.uniform (-4, 1)), 0.0]]
        elif env in ('real2', 'real3', 'radials'):
            med = [[float (rng.uniform (2, 30)), float (10 ** rng.uniform (-3, 0)), 0.0, float (10 ** rng.uniform (0, 2.5))]]
            med.append ([float (rng.uniform (2, 80)), float (10 ** rng.uniform (-4, 0)), float (-rng.choice ([0, 0.5, 2]))])
            if env == 'real3':
                med [1].append (med [0][3] * float (rng.uniform (1.5, 10)))
                med.append ([float (rng.uniform (2, 80)), float (10 ** rng.uniform (-4, 0)), float (-rng.choice ([0, 1, 5]))])
        spec = gen.fam_ground (rng, media = med, shift = bool (rng.random () < 0.3))
        if env in ('real2', 'real3', 'radials'):
            spec ['boundary'] = 'circular' if env == 'radials' else str (rng.choice (['linear', 'circular']))
        if env == 'radials':
            spec ['radials'] = [int (rng.integers (4, 120)), float (10 ** rng.uniform (-4, -2.5))]
    geo = spec ['geo']
    n   = len (geo)
    # tags
    style = str (rng.choice (['auto', 'explicit', 'permuted', 'sparse', 'mixed']))
    if style == 'explicit':
        for i, g in enumerate (geo):
            g ['tag'] = i + 1
    elif style == 'permuted':
        for g, t in zip (geo, rng.permutation (n) + 1):
            g ['tag'] = int (t)
    elif style == 'sparse':
        for g, t in zip (geo, rng.permutation (sorted (rng.choice (np.arange (1, 40), size = n, replace = False)))):
            g ['tag'] = int (t)
    elif style == 'mixed':
        for g, t in zip (geo, rng.choice (np.arange (1, 25), size = n, replace = False)):
            if rng.random () < 0.5:
                g ['tag'] = int (t)
    order, tags = georef.object_tags (geo)
    tag_of = {id (g): t for g, t in zip (order, tags)}
    alltags = sorted (tags)
    lam = gen.C_MHZ / spec ['f']
    # move the curves away from the rest
    tr = []
    for g in geo:
        if g.pop ('far', None):
            tr.append (['translate', float (len (tr) + 1), [float (lam * 4 * (len (tr) + 1)), 0.0, float (lam * 2) if spec ['media'] else 0.0], tag_of [id (g)]])
    # taper (needs a tag in the option)
    for g in geo:
        if g ['k'] == 'w' and g ['n'] >= 3 and rng.random () < 0.25:
            sl = np.linalg.norm (np.array (g ['p1']) - np.array (g ['p2'])) / g ['n']
            g ['taper'] = [int (rng.integers (1, 4)), None if rng.random () < 0.5 else float (sl * rng.uniform (0.1, 0.6)), None if rng.random () < 0.6 else float (sl * rng.uniform (1.3, 3))]
    if any (g.get ('taper') for g in geo) or tr:
        # options that name a tag: make every tag explicit (turning one automatic tag into an
        # explicit one would renumber the remaining automatic ones)
        for g in geo:
            g ['tag'] = tag_of [id (g)]
    # transformations
    gnd = spec ['media'] is not None
    for k in range (int (rng.choice ([0, 0, 1, 2]))):
        tag = None if rng.random () < 0.5 else int (rng.choice (alltags))
        key = float (10 + k * 2 + rng.integers (0, 2))
        if c ['i'] % 5 == 0:
            key = 10.0      # several requests under one key: they apply in the order given
        if rng.random () < 0.5:
            ang = [0.0, 0.0, float (np.round (rng.uniform (-180, 180), 3))] if gnd else [float (np.round (rng.uniform (-180, 180), 3)) for j in range (3)]
            if tag is not None and gnd:
                continue        # rotating one wire of a connected grounded structure would tear it apart: harmless but pointless
            tr.append (['rotate', key, ang, tag if not gnd else None])
        else:
            v = [float (np.round (x, 4)) for x in rng.uniform (-1, 1, 3) * lam]
            if gnd:
                v [2] = 0.0
            tr.append (['translate', key, v, None])
    if c ['i'] % 7 == 3 and not gnd and len (alltags) >= 2:
        # one object moved on its own, then the whole antenna moved (same kind of request, the tagged one first)
        rt = np.random.default_rng ([c ['seed'], 155, c ['i']])
        for g in geo:
            g ['tag'] = tag_of [id (g)]
        t1 = int (rt.choice (alltags))
        if rt.random () < 0.5:
            two = [['rotate', 5.0, [float (np.round (rt.uniform (-180, 180), 2)) for j in range (3)], t1], ['rotate', 8.0, [float (np.round (rt.uniform (-180, 180), 2)) for j in range (3)], None]]
        else:
            two = [['translate', 5.0, [float (np.round (x, 3)) for x in rt.uniform (-1, 1, 3) * lam], t1], ['translate', 8.0, [float (np.round (x, 3)) for x in rt.uniform (-1, 1, 3) * lam], None]]
        # (given in either order on the command line: the keys decide, and the written list has them in key order)
        tr += two if rt.random () < 0.5 else two [::-1]
    spec ['tr'] = tr
    if rng.random () < 0.3:
        spec ['sc'] = [[float (np.round (10 ** rng.uniform (-0.3, 0.3), 4)), None]]
        if not gnd and rng.random () < 0.5:
            # scale factors for single objects, possibly several
            spec ['sc'] = [[float (np.round (10 ** rng.uniform (-0.3, 0.3), 4)), int (t)] for t in rng.permutation (alltags) [: int (rng.integers (1, 3))]]
    # sources: CLI addressing
    nsrc = int (rng.integers (1, 4))
    src  = []
    wires = [g for g in geo if g ['k'] == 'w' and g ['n'] >= 3]
    used = set ()
    for k in range (nsrc):
        if not wires:
            break
        g = wires [int (rng.integers (0, len (wires)))]
        kk = int (rng.integers (1, g ['n'] - 1)) if g ['n'] > 2 else 1
        p = [kk, tag_of [id (g)]]
        if tuple (p) in used:
            continue
        used.add (tuple (p))
        v = [1.0, 0.0] if rng.random () < 0.35 else gen.rand_voltage (rng)
        src.append (dict (p = p, v = v))
    if not src:
        src = [dict (p = [1], v = [1.0, 0.0])]
    if rng.random () < 0.3:
        src [0]['p'] = [1 + int (rng.integers (0, 2))]
    # the program's default pulse (5) named explicitly, alone or next to other sources
    r5 = np.random.default_rng ([c ['seed'], 152, c ['i']])
    if r5.random () < 0.2 and sum (g ['n'] for g in geo if g ['k'] == 'w') >= 8:
        src [int (r5.integers (0, len (src)))]['p'] = [5]
    spec ['src'] = src
    # loads
    loads = []
    for k in range (int (rng.choice ([0, 1, 1, 2, 3]))):
        kind = str (rng.choice (['z', 'rlc', 'trap', 'lap']))
        forms = []
        for j in range (int (rng.integers (1, 3))):
            u = rng.random ()
            if u < 0.25:
                forms.append (['all'])
            elif u < 0.5:
                forms.append (['all', int (rng.choice (alltags))])
            elif u < 0.75:
                forms.append ([1 + int (rng.integers (0, 2))])
            else:
                forms.append ([1, int (rng.choice (alltags))])
        forms = [list (x) for x in dict.fromkeys (tuple (f) for f in forms)]
        if k == 0 and len (alltags) > 1 and np.random.default_rng ([c ['seed'], 154, c ['i']]).random () < 0.15:
            forms = [['all', int (t)] for t in alltags]     # every object named by its tag: the load sits on every pulse of the antenna
        if rng.random () < 0.25:
            forms.append (list (forms [0]))     # the same attachment twice: the load counts twice
        if kind == 'z':
            loads.append (dict (k = 'z', z = [float (10 ** rng.uniform (-1, 3)), float (rng.choice ([0, 1, -1]) * 10 ** rng.uniform (-1, 3))], att = forms))
        elif kind == 'rlc':
            d = dict (k = 'rlc', R = None, L = None, C = None, att = forms)
            for x, lo, hi in (('R', -1, 3), ('L', -8, -5), ('C', -12, -8)):
                if rng.random () < 0.7:
                    d [x] = float (10 ** rng.uniform (lo, hi))
            if d ['R'] is None and d ['L'] is None and d ['C'] is None:
                d ['L'] = 1e-6
            if d ['R'] is None and (c ['i'] + k) % 2:
                d ['R'] = 0.0       # no resistor, written as a zero (the program writes it as an empty first field)
            loads.append (d)
        elif kind == 'trap':
            loads.append (dict (k = 'trap', R = float (10 ** rng.uniform (-1, 1)), L = float (10 ** rng.uniform (-7, -5)), C = float (10 ** rng.uniform (-12, -10)), att = forms))
        else:
            loads.append (dict (k = 'lap', a = [1.0, float (10 ** rng.uniform (-9, -7))], b = [float (10 ** rng.uniform (0, 2)), float (10 ** rng.uniform (-7, -5)), float (10 ** rng.uniform (-15, -12))] [: int (rng.integers (1, 4))], att = forms))
    rng.shuffle (loads)
    for kind in ('skin', 'ins'):
        u = rng.random ()
        if u < 0.5:
            continue
        tgs = [None] if u < 0.7 else [int (t) for t in rng.choice (alltags, size = int (rng.integers (1, len (alltags) + 1)), replace = False)]
        for t in tgs:
            if kind == 'skin':
                sg = float (10 ** rng.uniform (4, 7.8))
                loads.append (dict (k = 'skin', cond = sg, tag = t) if rng.random () < 0.5 else dict (k = 'skin', res = 1 / sg, tag = t))
            else:
                rmax = max (g ['r'] for g in geo) * max ([s [0] for s in spec.get ('sc') or [[1.0]]] + [1.0])
                loads.append (dict (k = 'ins', radius = float (rmax * rng.uniform (1.3, 3)), eps = float (rng.uniform (1.2, 5)), tag = t))
    spec ['loads'] = loads
    if rng.random () < 0.3:
        # a load attached pulse by pulse to all pulses of one object but one (resolved in check (),
        # where the number of pulses of the object is known)
        spec ['partial'] = dict (tag = int (rng.choice (alltags)), skip = str (rng.choice (['first', 'last'])), z = [float (10 ** rng.uniform (0, 2)), float (rng.uniform (-50, 50))])
    r3 = np.random.default_rng ([c ['seed'], 153, c ['i']])
    if spec.get ('sc') and r3.random () < 0.3:
        # the same target scaled twice (inches to metres, then a correction)
        spec ['sc'] = list (spec ['sc']) + [[float (np.round (10 ** r3.uniform (-0.1, 0.1), 4)), spec ['sc'][-1][1]]]
    spec ['style'] = style
    spec ['attach_shuffle'] = int (rng.integers (0, 1000))
    rd = np.random.default_rng ([c ['seed'], 151, c ['i']])
    u  = rd.random ()
    if u < 0.1:
        spec ['defaults'] = str (rd.choice (['nosrc', 'volt', 'nogeo']))
    return gen.clean (spec)
# end def make

def argv_of (spec):
    """ like gen.to_argv but with the --attach-load options in shuffled order """
    a = gen.to_argv (spec)
    idx = [i for i, x in enumerate (a) if x == '--attach-load']
    if len (idx) > 1:
        rng = np.random.default_rng (spec.get ('attach_shuffle', 0))
        vals = [a [i + 1] for i in idx]
        perm = rng.permutation (len (vals))
        for i, j in zip (idx, perm):
            a [i + 1] = vals [j]
    dflt = spec.get ('defaults')
    if dflt:
        # the program's own defaults: no --excitation-pulse (pulse 5, with or without a voltage of its own),
        # no geometry option at all (the built-in ten-segment wire)
        out, i, nv = [], 0, 0
        while i < len (a):
            x = a [i]
            nm, has = (x.split ('=') [0], '=' in x)
            if nm == '--excitation-pulse':
                i += 1 if has else 2
                continue
            if nm == '--excitation-voltage':
                nv += 1
                if nv > 1 or dflt == 'nosrc':
                    i += 1 if has else 2
                    continue
            if dflt == 'nogeo' and nm in ('-w', '-a', '--helix', '--taper-wire', '--geo-rotate', '--geo-translate', '--geo-scale', '--attach-load',
                                          '--skin-effect-conductivity', '--skin-effect-resistivity', '--insulation-load', '-l', '--load', '--rlc-load', '--trap-load', '--medium', '--boundary', '--radial-count', '--radial-radius',
                                          '--laplace-load-a', '--laplace-load-b'):
                i += 1 if has else 2
                continue
            out.append (x)
            if not has and i + 1 < len (a) and nm not in ('-T',):
                out.append (a [i + 1])
                i += 1
            i += 1
        a = out
    return a
# end def argv_of

def written_options (argv, m_check = None):
    """ run main with --output-cmdline, return (text, argv read back from it) """
    tmp = tempfile.mkdtemp (prefix = 'pmv-c15-')
    try:
        fn = os.path.join (tmp, 'o.pym')
        r  = common.run_main (argv + ['--output-cmdline', fn, '--option', 'none'])
        if r ['kind'] == 'exception':
            raise common.Repo_Crash (r ['exc'], 'main(--output-cmdline)')
        if r ['ret'] is not None or not os.path.exists (fn):
            raise common.Rejected ((r ['out'] + r ['err']).strip () [-100:])
        text = open (fn).read ()
    finally:
        shutil.rmtree (tmp, ignore_errors = True)
    back = []
    for line in text.split ('\n'):
        back += line.split ()
    return text, back
# end def written_options

def describe (m):
    """ comparable description of a model """
    MM = common.repo ()
    d  = {}
    d ['f'] = m.f
    d ['objects'] = []
    for g in m.geo:
        nodes = [np.asarray (g.segments [0].p1, float)] + [np.asarray (s.p2, float) for s in g.segments]
        d ['objects'].append (dict ( cls = g.__class__.__name__, tag = g.tag, n = g.n_segments, r = g.r_orig, nodes = np.array (nodes)
                                   , taper = (getattr (g, 'segtype', 0), getattr (g, 'taper_min', None), getattr (g, 'taper_max', None))))
    d ['transforms'] = [(k, t, tuple (x), tag) for k, t, x, tag in m.geo.transforms]
    d ['scales'] = list (m.geo.scales)
    d ['sources'] = [(s.idx, complex (s.voltage)) for s in m.sources]
    per = {}
    kinds = {}
    parts = {}
    for l in m.loads:
        for p in l.pulses:
            z = complex (l.impedance (m.f, p))
            per [p.idx] = per.get (p.idx, 0j) + z
            kinds.setdefault (p.idx, []).append (l.__class__.__name__)
            parts.setdefault (p.idx, []).append ((l.__class__.__name__, z))
    d ['load_z'] = per
    d ['load_parts'] = {k: sorted (v, key = lambda x: (x [0], x [1].real, x [1].imag)) for k, v in parts.items ()}
    d ['load_kinds'] = {k: sorted (v) for k, v in kinds.items ()}
    dist = []
    for l in m.loads:
        nm = l.__class__.__name__
        if nm == 'Insulation_Load':
            dist.append ((nm, l.geobj.tag, float (l.radius), float (l.epsilon_r)))
        elif nm == 'Skin_Effect_Load':
            dist.append ((nm, l.geobj.tag, float (l.conductivity), 0.0))
    d ['dist'] = sorted (dist)
    d ['media'] = None if m.media is None else [(x.permittivity, x.conductivity, x.height, x.coord if x.next else None, x.boundary if len (m.media) > 1 else None, x.nradials, x.radius) for x in m.media]
    return d
# end def describe

def close (a, b, rel):
    if a is None or b is None:
        return a is None and b is None
    return abs (a - b) <= rel * max (abs (a), abs (b)) + 1e-300
# end def close

def check (c):
    spec = c if 'geo' in c else make (c)
    if spec.get ('partial'):
        pa = spec.pop ('partial')
        m0 = common.build_argv (gen.to_argv (dict (spec, loads = [])))
        w  = {g.tag: g for g in m0.geo}.get (pa ['tag'])
        if w is not None and len (w.pulses) >= 3:
            ks = list (range (1, len (w.pulses) + 1))
            ks.remove (1 if pa ['skip'] == 'first' else len (w.pulses))
            spec ['loads'] = [dict (k = 'z', z = pa ['z'], att = [[k, pa ['tag']] for k in ks])] + spec ['loads']
    argv = argv_of (spec)
    viol = []
    mon  = {}
    def bad (monitor, key, msg):
        if len (viol) < 8:
            viol.append (dict (monitor = monitor, key = key, msg = msg))
    m = common.build_argv (argv)           # Rejected -> discard (the generator produced something the program refuses)
    text1, argv2 = written_options (argv)
    mon ['accepted'] = 1
    r2 = common.run_main (argv2, return_mininec = True)
    if r2 ['kind'] == 'exception':
        raise common.Repo_Crash (r2 ['exc'], 'main(read back)')
    if r2 ['model'] is None:
        msg = (r2 ['out'] + r2 ['err']).strip ().split ('\n') [-1] [:160]
        bad ('accepted', 'written-options-rejected', 'the written option file is rejected: %s' % msg)
        return dict (status = 'violation', sig = 'rejected|' + spec ['style'], nontrivial = True, monitors = mon, violations = viol)
    m2 = r2 ['model']
    a, b = describe (m), describe (m2)
    size = max (np.abs (o ['nodes']).max () for o in a ['objects']) + 1e-300
    mon ['model-equality'] = 1
    if not close (a ['f'], b ['f'], 1e-7):
        bad ('model-equality', 'frequency', 'frequency %r read back as %r' % (a ['f'], b ['f']))
    if len (a ['objects']) != len (b ['objects']):
        bad ('model-equality', 'object-count', '%d objects read back as %d' % (len (a ['objects']), len (b ['objects'])))
    for oa, ob in zip (a ['objects'], b ['objects']):
        if (oa ['cls'], oa ['tag'], oa ['n']) != (ob ['cls'], ob ['tag'], ob ['n']):
            bad ('model-equality', 'object-identity', '%s tag %s with %d segments read back as %s tag %s with %d' % (oa ['cls'], oa ['tag'], oa ['n'], ob ['cls'], ob ['tag'], ob ['n']))
            continue
        # a taper request the program did not honour (documented fall-back, segmentation type 0) is not written
        if oa ['taper'][0] != ob ['taper'][0] or (oa ['taper'][0] and (not close (oa ['taper'][1] or None, ob ['taper'][1] or None, 1e-9) or not close (oa ['taper'][2], ob ['taper'][2], 1e-9))):
            bad ('model-equality', 'taper', 'object %s: taper %r read back as %r' % (oa ['tag'], oa ['taper'], ob ['taper']))
        if oa ['nodes'].shape != ob ['nodes'].shape or np.abs (oa ['nodes'] - ob ['nodes']).max () > 1e-9 * size:
            bad ('model-equality', 'geometry', 'object %s: segment end points differ by %.3g of the size' % (oa ['tag'], np.abs (oa ['nodes'] - ob ['nodes']).max () / size if oa ['nodes'].shape == ob ['nodes'].shape else np.inf))
        if not close (oa ['r'], ob ['r'], 1e-9):
            bad ('model-equality', 'radius', 'object %s: radius %r read back as %r' % (oa ['tag'], oa ['r'], ob ['r']))
    if len (a ['sources']) != len (b ['sources']):
        bad ('model-equality', 'source-count', '%d sources read back as %d' % (len (a ['sources']), len (b ['sources'])))
    for (ia, va), (ib, vb) in zip (a ['sources'], b ['sources']):
        if ia != ib or abs (va - vb) > 6e-6 * abs (va):
            bad ('model-equality', 'source', 'source on pulse %d with %r read back as pulse %d with %r' % (ia + 1, va, ib + 1, vb))
    if set (a ['load_z']) != set (b ['load_z']):
        bad ('model-equality', 'loaded-pulses', 'loaded pulses %s read back as %s' % (sorted (x + 1 for x in a ['load_z']), sorted (x + 1 for x in b ['load_z'])))
    else:
        for i in a ['load_z']:
            za, zb = a ['load_z'][i], b ['load_z'][i]
            if a ['load_kinds'][i] != b ['load_kinds'][i]:
                bad ('model-equality', 'load-kinds', 'pulse %d: loads %s read back as %s' % (i + 1, a ['load_kinds'][i], b ['load_kinds'][i]))
            # printed with six digits: resonant circuits amplify that; allow the amplification of a 6e-6 parameter change
            amp = load_sensitivity (spec, m.f)
            # compared load by load (a sum of an inductive and a capacitive load may cancel)
            for (ka, pa), (kb, pb) in zip (a ['load_parts'][i], b ['load_parts'][i]):
                if abs (pa - pb) > (6e-6 * amp + 1e-12) * max (abs (pa), abs (pb), 1e-300) + 1e-15:
                    bad ('model-equality', 'load-impedance', 'pulse %d: %s %r read back as %r' % (i + 1, ka, pa, pb))
    if len (a ['dist']) != len (b ['dist']):
        bad ('model-equality', 'distributed-loads', 'distributed loads %r read back as %r' % (a ['dist'], b ['dist']))
    else:
        for (na, ta, xa, ya), (nb, tb, xb, yb) in zip (a ['dist'], b ['dist']):
            # the insulation defines the equivalent wire radius: geometry precision; conductivity: six digits
            rel = 1e-9 if na == 'Insulation_Load' else 6e-6
            if (na, ta) != (nb, tb) or not close (xa, xb, rel) or not close (ya, yb, rel):
                bad ('model-equality', 'distributed-load-parameters', '%s of object %s (%r, %r) read back as %s of object %s (%r, %r)' % (na, ta, xa, ya, nb, tb, xb, yb))
    ma, mb = a ['media'], b ['media']
    if (ma is None) != (mb is None) or (ma and len (ma) != len (mb)):
        bad ('model-equality', 'media-count', 'media %r read back as %r' % (ma, mb))
    elif ma:
        for xa, xb in zip (ma, mb):
            ok = all (close (p, q, 6e-6) if isinstance (p, (int, float)) and not isinstance (p, bool) and p is not None and q is not None else p == q for p, q in zip (xa, xb))
            if not ok:
                bad ('model-equality', 'medium', 'medium %r read back as %r' % (xa, xb))
    def same_tr (ta, tb):
        if len (ta) != len (tb):
            return False
        # requests under one key keep their order (the sort is stable)
        for (ka, kinda, xa, taga), (kb, kindb, xb, tagb) in zip (sorted (ta, key = lambda t: t [0]), sorted (tb, key = lambda t: t [0])):
            if kinda != kindb or taga != tagb or not close (ka, kb, 1e-9):
                return False
            if any (abs (p - q) > 1e-9 * max (abs (p), abs (q), 1e-300) for p, q in zip (xa, xb)):
                return False
        return True
    def same_sc (sa, sb):
        return len (sa) == len (sb) and all (ta == tb and close (fa, fb, 1e-12) for (fa, ta), (fb, tb) in zip (sorted (sa, key = lambda t: (str (t [1]), t [0])), sorted (sb, key = lambda t: (str (t [1]), t [0]))))
    if not same_tr (a ['transforms'], b ['transforms']) or not same_sc (a ['scales'], b ['scales']):
        bad ('model-equality', 'transforms', 'transformations %r / %r read back as %r / %r' % (a ['transforms'], a ['scales'], b ['transforms'], b ['scales']))
    # ---- fixed point of the text
    text2, argv3 = written_options (argv2)
    mon ['fixed-point'] = 1
    if sorted (text1.split ('\n')) != sorted (text2.split ('\n')):
        d1 = sorted (set (text1.split ('\n')) - set (text2.split ('\n'))) [:3]
        d2 = sorted (set (text2.split ('\n')) - set (text1.split ('\n'))) [:3]
        bad ('fixed-point', 'second-generation-differs', 'options written for the re-read model differ: only first %r, only second %r' % (d1, d2))
    # ---- options written, a further load registered on the same object (one of a kind that is numbered before the
    # loads already there, and a second one), options written again: the second list describes the model as it is now
    ra = np.random.default_rng ([int (common.sha (json.dumps (common.jsonable (argv))) [:8], 16), 151])
    if ra.random () < 0.6 and len (m.pulses) >= 2:
        MM = common.repo ()
        mx = common.build_argv (argv)       # an object of its own: the one above is judged further below
        common.guarded (lambda: mx.as_cmdline (), 'as_cmdline')
        p1, p2 = (int (x) for x in ra.permutation (len (mx.pulses)) [:2])
        common.guarded (lambda: mx.register_load (MM.Impedance_Load (complex (37.0, -11.0)), p1), 'register_load')
        if ra.random () < 0.5:
            common.guarded (lambda: mx.register_load (MM.Series_RLC_Load (4.0, 1.5e-6, None), p2), 'register_load')
        t3 = common.guarded (lambda: mx.as_cmdline (), 'as_cmdline')
        mon ['written-again'] = 1
        r3 = common.run_main (t3.split (), return_mininec = True)
        if r3 ['kind'] == 'exception':
            raise common.Repo_Crash (r3 ['exc'], 'main(read back)')
        if r3 ['model'] is None:
            bad ('written-again', 'written-options-rejected', 'options written again after a further load was registered are rejected: %s' % (r3 ['out'] + r3 ['err']).strip ().split ('\n') [-1] [:140])
        else:
            da, db = describe (mx), describe (r3 ['model'])
            # (which kinds of load sit on which pulse, exactly; their sum to one percent - the six written digits of a
            # circuit near resonance are judged by the monitors above)
            if da ['load_kinds'] != db ['load_kinds'] or any (abs (da ['load_z'][k] - db ['load_z'][k]) > 1e-2 * abs (da ['load_z'][k]) + 1e-9 for k in da ['load_z']):
                bad ('written-again', 'loads-after-late-registration', 'after registering a further load the written list puts loads on pulses %s with %s, the model has %s with %s'
                     % (sorted (k + 1 for k in db ['load_z']), [np.round (db ['load_z'][k], 3) for k in sorted (db ['load_z'])] [:4], sorted (k + 1 for k in da ['load_z']), [np.round (da ['load_z'][k], 3) for k in sorted (da ['load_z'])] [:4]))
    # ---- field requests handed to as_cmdline (angles, near-field grid, power levels, distance, print options):
    # the written list must be accepted and ask for the same tables (six printed digits)
    rq = np.random.default_rng ([int (common.sha (json.dumps (common.jsonable (argv))) [:8], 16), 15])
    if rq.random () < 0.5:
        MM  = common.repo ()
        dig = lambda x: float ('%.*g' % (int (rq.integers (2, 9)), x))
        zen = (dig (rq.uniform (0, 80)), dig (rq.uniform (1, 30)), int (rq.integers (1, 4)))
        azi = (dig (rq.uniform (0, 300)), dig (rq.uniform (1, 90)), int (rq.integers (1, 4)))
        big = 50 * size + 5 * gen.C_MHZ / m.f
        near = [dig (big * rq.uniform (1, 2)) for k in range (3)] + [dig (rq.uniform (0.01, 2)) for k in range (3)] + [int (x) for x in rq.permutation ([1, 2, int (rq.integers (1, 4))])]
        kw  = dict (azi = MM.Angle (*azi), zen = MM.Angle (*zen), near = near)
        opt = ['near-field', 'far-field']
        if rq.random () < 0.6:
            kw ['pwr_nf'] = dig (10 ** rq.uniform (-2, 3))
        if rq.random () < 0.6:
            kw ['pwr_ff'] = dig (10 ** rq.uniform (-2, 3))
        if rq.random () < 0.6:
            kw ['ff_dist'] = dig (10 ** rq.uniform (1, 4))
            opt.append ('far-field-absolute')
        if rq.random () < 0.3:
            kw ['load_by_geo'] = True
        rq.shuffle (opt)
        kw ['opt'] = tuple (opt)
        textf = common.guarded (lambda: m.as_cmdline (**kw), 'as_cmdline')
        argvf = textf.split ()
        mon ['field-requests'] = 1
        rf = common.run_main (argvf)
        if rf ['kind'] == 'exception':
            raise common.Repo_Crash (rf ['exc'], 'main(read back, field requests)')
        if kw.get ('load_by_geo'):
            # attachments written as (pulse of object, tag): same loaded pulses, same impedances
            rg = common.run_main (argvf, return_mininec = True)
            if rg ['kind'] == 'exception':
                raise common.Repo_Crash (rg ['exc'], 'main(read back, loads by object)')
            if rg ['model'] is not None:
                bg = describe (rg ['model'])
                if {k: len (v) for k, v in a ['load_parts'].items ()} != {k: len (v) for k, v in bg ['load_parts'].items ()}:
                    bad ('field-requests', 'loaded-pulses-by-object', 'attachments written by object: loads per pulse %r read back as %r'
                         % ({k + 1: len (v) for k, v in sorted (a ['load_parts'].items ())}, {k + 1: len (v) for k, v in sorted (bg ['load_parts'].items ())}))
        if rf ['ret'] is not None and 'Computation failed' in (rf ['out'] + rf ['err']):
            pass        # the first run did not ask for these tables (e. g. sources that absorb net power and a power level)
        elif rf ['ret'] is not None:
            msg = (rf ['out'] + rf ['err']).strip ().split ('\n') [-1] [:160]
            bad ('field-requests', 'written-field-options-rejected', 'as_cmdline with field requests %r is rejected: %s' % ({k: v for k, v in kw.items () if k not in ('azi', 'zen')}, msg))
        else:
            from pmv.oracles import report
            rep = report.parse (rf ['out'])
            # six digits in the option file; the report shows numbers below 0.1 with six decimals
            six = lambda got, want: abs (got - want) <= max (6e-6 * abs (want), 1.1e-6)
            th  = instrument.exact_grid (*zen)
            ph  = instrument.exact_grid (*azi)
            want = [(t, q) for q in ph for t in th]
            rows = (rep ['far'] or dict (rows = [])) ['rows']
            if len (rows) != len (want) or not all (six (report.num (r [0]), t) and six (report.num (r [1]), q) for r, (t, q) in zip (rows, want)):
                bad ('field-requests', 'far-field-request', 'angles %r / %r written as %r give pattern rows %r ...' % (zen, azi, [x for x in argvf if 'theta' in x or 'phi' in x], [r [:2] for r in rows [:3]]))
            if 'ff_dist' in kw and len ((rep ['far_abs'] or dict (rows = [])) ['rows']) != len (want):
                bad ('field-requests', 'far-field-request', 'no V/m table of %d rows for --ff-distance %r' % (len (want), kw ['ff_dist']))
            g = [instrument.exact_grid (near [k], near [3 + k], near [6 + k]) for k in range (3)]
            wantn = [(x, y, z) for z in g [2] for y in g [1] for x in g [0]]
            for nm, pts in (('E', rep ['near_e']), ('H', rep ['near_h'])):
                if len (pts) != len (wantn) or not all (all (six (report.num (tk), c) for tk, c in zip (pt ['point'], w)) for pt, w in zip (pts, wantn)):
                    bad ('field-requests', 'near-field-request', 'near-field grid %r written as %r gives %d %s points, first %r' % (near, [x for x in argvf if 'near-field=' in x], len (pts), nm, pts [0]['point'] if pts else None))
                    break
            for key, pat in (('pwr_ff', r'NEW POWER LEVEL =\s*(\S+)'), ('pwr_nf', r'NEW POWER LEVEL \(WATTS\) =\s*(\S+)'), ('ff_dist', r'RADIAL DISTANCE =\s*(\S+)')):
                found = [report.num (x) for x in re.findall (pat, rf ['out'])]
                if key == 'pwr_ff' and 'ff_dist' not in kw:
                    continue            # the dBi table does not depend on the power level and does not show it
                if key in kw:
                    # the report shows a number below one with as few as four digits (number formatting is C19's business)
                    if not found or not all (abs (x - kw [key]) <= 2e-4 * kw [key] for x in found):
                        bad ('field-requests', 'level-request', '%s = %r: the report of the written options shows %r' % (key, kw [key], found [:3]))
                elif found:
                    bad ('field-requests', 'level-request', '%s not requested, the report of the written options shows %r' % (key, found [:3]))
    # ---- feed impedance
    if not viol:
        observe.solve (m)
        observe.solve (m2)
        cond = observe.cond_number (m)
        amp  = load_sensitivity (spec, m.f)
        if np.isfinite (cond) and cond < 1e5 and amp < 5:
            mon ['feed-impedance'] = 1
            for sa, sb in zip (m.sources, m2.sources):
                d = abs (sa.impedance - sb.impedance) / abs (sa.impedance)
                # six printed digits of the load / medium parameters, amplified by the conditioning of the system
                if d > 1e-3 + 2e-5 * cond:
                    bad ('feed-impedance', 'feed-impedance', 'feed impedance %r, from the re-read model %r' % (sa.impedance, sb.impedance))
    lk = sorted (set (l ['k'] + ('T' if l.get ('tag') else '') for l in spec ['loads']))
    extra = [spec ['style'], 'tr%d' % len (spec.get ('tr') or []), 'sc%d' % len (spec.get ('sc') or [])
            , 'tap%d' % sum (1 for g in spec ['geo'] if g.get ('taper')), 'v1' if any (s ['v'] == [1.0, 0.0] for s in spec ['src']) else '']
    # ---- a model made with the classes of the library whose tapered wires have a longest segment only: its option
    # list describes the same wires (the list names minimum and maximum by position)
    tp = [g for g in spec ['geo'] if g ['k'] == 'w' and g.get ('taper') and g.get ('tag') is not None]
    if tp and not spec.get ('tr') and not spec.get ('sc'):
        sa = copy.deepcopy ({k: v for k, v in spec.items () if k in ('f', 'geo', 'media', 'boundary', 'radials')})
        sa.update (src = [dict (p = [1], v = [1.0, 0.0])], loads = [], tr = [], sc = [])
        for g in sa ['geo']:
            if g ['k'] == 'w' and g.get ('taper'):
                sl = np.linalg.norm (np.array (g ['p1']) - np.array (g ['p2'])) / g ['n']
                g ['taper'] = [g ['taper'][0], None, float (sl * (1.1 + 0.9 * ((int (sl * 1e6) % 100) / 100.0)))]
        try:
            mA = gen.build (sa, route = 'api')
        except common.Rejected:
            mA = None
        if mA is not None:
            mon ['library-model'] = 1
            rA = common.run_main (common.guarded (mA.as_cmdline, 'as_cmdline').split (), return_mininec = True)
            if rA ['kind'] == 'exception':
                raise common.Repo_Crash (rA ['exc'], 'main(read back, library model)')
            if rA ['model'] is None:
                bad ('library-model', 'written-options-rejected', 'option list of a model made with the classes (taper maximum alone) is rejected: %s' % (rA ['out'] + rA ['err']).strip ().split ('\n') [-1] [:140])
            else:
                da, db = describe (mA), describe (rA ['model'])
                for oa, ob in zip (da ['objects'], db ['objects']):
                    if oa ['nodes'].shape != ob ['nodes'].shape or np.abs (oa ['nodes'] - ob ['nodes']).max () > 1e-9 * size:
                        bad ('library-model', 'geometry', 'model made with the classes, object %s (taper %r): segment end points of the model read back differ by %.3g of the size' % (oa ['tag'], oa ['taper'], np.abs (oa ['nodes'] - ob ['nodes']).max () / size if oa ['nodes'].shape == ob ['nodes'].shape else np.inf))
                        break
    sig = gen.signature (spec, m, extra = extra)
    nontrivial = spec ['style'] != 'auto' or bool (spec ['loads']) or bool (spec.get ('tr'))
    return dict (status = 'violation' if viol else 'held', sig = sig, nontrivial = bool (nontrivial), monitors = mon, violations = viol)
# end def check

def lap_cond (l, f):
    """ condition of evaluating the rational function b (s) / a (s) at s = j w against relative changes of single
        coefficients (six printed digits): sum of |terms| over |sum of terms|, numerator plus denominator """
    w = 2 * np.pi * f * 1e6
    c = 0.0
    for co in (l ['a'], l ['b']):
        t = [complex (x) * (1j * w) ** k for k, x in enumerate (co)]
        c += sum (abs (x) for x in t) / max (abs (sum (t)), 1e-300)
    return float (c)
# end def lap_cond

def load_sensitivity (spec, f):
    """ amplification of a relative parameter change in the impedance of the resonant load kinds """
    w = 2 * np.pi * f * 1e6
    amp = 1.0
    for l in spec ['loads']:
        if l ['k'] == 'trap':
            # Z ~ j w L / (1 - x), x = w^2 L C: d ln Z = d ln L / (1 - x) + x d ln C / (1 - x)
            x = w * w * l ['L'] * l ['C']
            amp = max (amp, 2.0 * (1 + x) / max (abs (1 - x), 1e-9))
        elif l ['k'] == 'rlc' and l.get ('L') and l.get ('C'):
            x = w * l ['L'] - 1 / (w * l ['C'])
            amp = max (amp, 3.0 * (w * l ['L'] + 1 / (w * l ['C'])) / max (abs (complex (l.get ('R') or 0.0, x)), 1e-9))
        elif l ['k'] == 'lap':
            # (coefficients of S^4 and higher: six digits of each of up to seven numbers, the same error on every loaded pulse)
            amp = max (amp, 10.0, (3.0 if len (l ['a']) <= 4 else 8.0) * lap_cond (l, f))
        elif l ['k'] == 'ins':
            # L' ~ (1 - 1 / eps) ln (b / a): six printed digits of b and eps are amplified by 1 / ln (b / a) and 1 / (eps - 1)
            sc = 1.0
            for fct, t in spec.get ('sc') or []:
                sc *= fct
            for g in spec ['geo']:
                a = g ['r'] * sc
                if l ['radius'] > a:
                    amp = max (amp, 2.0 / np.log (l ['radius'] / a), 2.0 / max (l ['eps'] - 1, 1e-9))
    return amp
# end def load_sensitivity
