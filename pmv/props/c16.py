""" C16 - field tables contain exactly the requested sample points.
    Deciding monitors: the grid contracts of pmv.instrument
    (compute_far_field.table, compute_near_field.grid: exact rational
    start + i * inc, counts, order) evaluated on API calls and on CLI
    runs, plus the parsed report (row counts, angles / points in order).
"""
import numpy as np
from fractions import Fraction
from pmv import common, gen, observe, instrument
from pmv.oracles import report

ID   = 'C16'
RULE = ( 'starts/steps from a hostile pool (0.1, 0.05, 0.7, 1/3, -0.1, 1e-3, 1e6+0.1, 0 with count 1, '
         'negative, tiny, random decimals) x counts 1..100 per axis; far field computed for real, '
         'near field for real up to 40 points and grid-only (field evaluation stubbed) up to 100 per axis; '
         'API and command-line route (report rows parsed back). non-trivial = count > 1 on some axis with a '
         'step that is not exactly representable or negative; distinct = (route, kind, count classes, step classes)'
       )
MIN_EVAL = dict (quick = 150, thorough = 2500)
ANCHORS  = ['Mininec.compute_near_field', 'Angle.angle_deg', 'Mininec.compute_far_field']
ANCHORS_REQUIRED = ['Mininec.compute_near_field', 'Angle.angle_deg']
ASSUMPTIONS = ['expected grid = start + i * inc in exact rational arithmetic, tolerance (n + 4) ulp of the largest coordinate']

POOL_START = [0.0, 0.1, -0.1, 0.7, 1 / 3., 0.05, 1.0, -2.5, 1e-3, 10.0, 45.0, 1e3 + 0.1, 1e6 + 0.1, -1e4 + 0.3]
POOL_STEP  = [0.1, 0.05, 0.7, 1 / 3., -0.1, 1e-3, 1.0, -1.0, 0.3, 2.5, 10.0, -0.05, 1e-6, 0.2, 0.6, 1.1]

def plan (tier, seed):
    n = 320 if tier == 'quick' else 5000
    return [dict (i = i, seed = seed) for i in range (n)]
# end def plan

def klass (n):
    return '1' if n == 1 else ('s' if n <= 5 else ('m' if n <= 30 else 'l'))

def sclass (st):
    if st == 0:
        return '0'
    ex = Fraction (st).denominator <= 1024
    return ('-' if st < 0 else '+') + ('e' if ex else 'i')

def draw_axis (rng, nmax):
    n = int (rng.choice ([1, 2, 3, 4, 5, 7, 10, 11, 13, 30, 50, 99, 100]))
    n = max (1, min (n, nmax))
    if rng.random () < 0.7:
        s  = float (rng.choice (POOL_START))
        st = float (rng.choice (POOL_STEP))
    else:
        s  = float (np.round (rng.uniform (-50, 50), int (rng.integers (0, 4))))
        st = float (np.round (rng.uniform (-3, 3), int (rng.integers (1, 4))))
    if n == 1 and rng.random () < 0.5:
        st = 0.0
    if st == 0 and n > 1:
        st = 0.1
    return s, st, n
# end def draw_axis

_model = {}
ENV_ARGV = dict (free = [], ideal = ['--medium=0,0,0'], real = ['--medium=13,0.005,0'])
def model (env = 'free'):
    """ the antenna the tables are asked of: in free space, or (lifted) over ideal or real ground - the tables
        hold the requested points whatever the environment, also points in or below the ground plane """
    if env not in _model:
        MM = common.repo ()
        z0 = -2.5 if env == 'free' else 1.0
        w = [MM.Wire (6, 0, 0, z0, 0, 0.3, z0 + 5.0, 0.002)]
        md = None if env == 'free' else [MM.ideal_ground if env == 'ideal' else MM.Medium (13, 0.005, 0)]
        m = MM.Mininec (28.0, w, media = md)
        m.register_source (MM.Excitation (1+0j), 2)
        m.compute ()
        _model [env] = m
    return _model [env]
# end def model

def make (spec0):
    rng   = np.random.default_rng ([spec0 ['seed'], 16, spec0 ['i']])
    route = str (rng.choice (['api', 'api', 'cli']))
    kind  = str (rng.choice (['far', 'near', 'near-grid'] if route == 'api' else ['far', 'near']))
    if kind == 'far':
        ax = [draw_axis (rng, 100), draw_axis (rng, 100 if route == 'api' else 40)]
        # a step of zero with several rows (the same direction printed several times) is a valid request for angles
        rz = np.random.default_rng ([spec0 ['seed'], 162, spec0 ['i']])
        if rz.random () < 0.15:
            k = int (rz.integers (0, 2))
            ax [k] = (ax [k][0], 0.0, max (2, min (ax [k][2], 7)))
        elif rz.random () < 0.2:
            # one axis in whole numbers, the other in fractions (Angle (0, 10, 10) with Angle (0, 22.5, 17))
            k = int (rz.integers (0, 2))
            ax [k]     = (float (rz.choice ([0, 5, 10, -30])), float (rz.choice ([10, 15, 30, -5])), ax [k][2])
            ax [1 - k] = (float (rz.choice ([0, 7.5, 0.5])), float (rz.choice ([22.5, 0.5, 2.25, -7.5])), ax [1 - k][2])
    elif kind == 'near':
        ax = [draw_axis (rng, 4) for k in range (3)]
        while ax [0][2] * ax [1][2] * ax [2][2] > 40:
            ax [int (rng.integers (0, 3))] = draw_axis (rng, 2)
        # keep the points away from the wire (field values themselves are C04's business)
        ax [0] = (ax [0][0] + 300.0, ax [0][1], ax [0][2]) if abs (ax [0][0]) < 100 else ax [0]
    else:
        ax = [draw_axis (rng, 100) for k in range (3)]
    if kind == 'near' and rng.random () < 0.2:
        # totals that are multiples of one hundred, computed for real
        cnt = [(100, 1, 1), (1, 100, 1), (1, 1, 100), (10, 10, 1), (10, 5, 2), (4, 5, 5), (25, 4, 1), (5, 5, 8), (2, 50, 1), (50, 2, 2)] [int (rng.integers (0, 10))]
        ax  = [(a [0], a [1] if a [1] != 0 else 0.1, n) for a, n in zip (ax, cnt)]
    rs = np.random.default_rng ([spec0 ['seed'], 163, spec0 ['i']])
    if kind == 'near' and rs.random () < 0.35:
        # small tables: every way of placing one to six points along the axes (three points on one axis, two by three ...)
        small = [(a, b, c_) for a in range (1, 7) for b in range (1, 7) for c_ in range (1, 7) if a * b * c_ <= 6]
        cnt = small [int (rs.integers (0, len (small)))]
        ax  = [(a [0], a [1] if (a [1] != 0 or n == 1) else 0.1, n) for a, n in zip (ax, cnt)]
    env = str (np.random.default_rng ([spec0 ['seed'], 161, spec0 ['i']]).choice (['free', 'free', 'ideal', 'real']))
    return dict (route = route, kind = kind, ax = [list (a) for a in ax], env = env)
# end def make

def tok_close (tok, want):
    v = report.num (tok)
    return abs (v - want) <= max (6e-6 * abs (want), 1.1e-6)
# end def tok_close

def check (spec0):
    spec = spec0 if 'ax' in spec0 else make (spec0)
    MM   = common.repo ()
    ax   = spec ['ax']
    viol = []
    mon  = {}
    before = dict (instrument.EVALS)
    if spec ['route'] == 'api':
        m = model (spec.get ('env', 'free'))
        if spec ['kind'] == 'far':
            # (whole numbers as python ints, as one writes Angle (0, 10, 10) by hand)
            wi  = lambda v: int (v) if float (v).is_integer () and (ax [0][2] + ax [1][2]) % 4 else v
            zen = MM.Angle (wi (ax [0][0]), wi (ax [0][1]), ax [0][2])
            azi = MM.Angle (wi (ax [1][0]), wi (ax [1][1]), ax [1][2])
            common.guarded (lambda: m.compute_far_field (zen, azi), 'compute_far_field')
            # both tables of one pattern, each printed twice
            mon ['far.rows'] = 1
            for nm, fn in (('dBi', m.far_field.db_as_mininec), ('V/m', m.far_field.abs_gain_as_mininec), ('dBi again', m.far_field.db_as_mininec), ('V/m again', m.far_field.abs_gain_as_mininec)):
                rows = [x for x in fn ().split ('\n') if x.strip ()]
                if len (rows) != ax [0][2] * ax [1][2]:
                    viol.append (dict (monitor = 'far.rows', key = 'far-row-count'
                                      , msg = '%s table: %d rows for %d x %d angles' % (nm, len (rows), ax [0][2], ax [1][2])))
                    break
            # the caller keeps its two Angle objects and asks again after changing their start, step and number: the
            # table is the one of the angles the objects describe now (the contract recomputes them from the objects)
            zen.initial, zen.inc, zen.number = zen.initial + 2.5, zen.inc * 0.5, max (1, min (zen.number + 1, 60))
            azi.initial, azi.number = azi.initial - 10, max (1, azi.number - 1)
            common.guarded (lambda: m.compute_far_field (zen, azi), 'compute_far_field')
            mon ['far.objects-reused'] = 1
            rows = [x for x in m.far_field.db_as_mininec ().split ('\n') if x.strip ()]
            if len (rows) != zen.number * azi.number:
                viol.append (dict (monitor = 'far.objects-reused', key = 'far-row-count', msg = 'Angle objects changed and used again: %d rows for %d x %d angles' % (len (rows), zen.number, azi.number)))
        else:
            start = [a [0] for a in ax]
            inc   = [a [1] for a in ax]
            nvec  = [a [2] for a in ax]
            if spec ['kind'] == 'near-grid':
                m._pmv_stub = True
                m.near_field_iter = lambda: iter (())
            try:
                common.guarded (lambda: m.compute_near_field (start, inc, nvec), 'compute_near_field')
                # a second request on the same object that shares the X axis with the first (grid contract again)
                r2 = np.random.default_rng ([int (abs (start [0]) * 1000) % 100000, nvec [0], nvec [1], nvec [2]])
                a2 = [ax [0], draw_axis (r2, 4 if spec ['kind'] == 'near' else 100), draw_axis (r2, 3 if spec ['kind'] == 'near' else 100)]
                if spec ['kind'] == 'near' and a2 [0][2] * a2 [1][2] * a2 [2][2] > 60:
                    a2 [1] = (a2 [1][0], a2 [1][1], 1)
                common.guarded (lambda: m.compute_near_field ([a [0] for a in a2], [a [1] for a in a2], [a [2] for a in a2]), 'compute_near_field')
                mon ['near.second-request'] = 1
                n2 = a2 [0][2] * a2 [1][2] * a2 [2][2]
                got = np.asarray (m.near_field_coord)
                if got.size != 3 * n2:
                    viol.append (dict (monitor = 'near.second-request', key = 'near-point-count'
                                      , msg = 'second request on the same object (%d x %d x %d after %d x %d x %d): %d points' % (a2 [0][2], a2 [1][2], a2 [2][2], nvec [0], nvec [1], nvec [2], got.size // 3)))
                common.guarded (lambda: m.compute_near_field (start, inc, nvec), 'compute_near_field')
                # ... and once more, the very same request twice in a row
                first = np.array (m.near_field_coord)
                common.guarded (lambda: m.compute_near_field (start, inc, nvec), 'compute_near_field')
                mon ['near.repeat'] = 1
                if not np.array_equal (first, np.array (m.near_field_coord)):
                    viol.append (dict (monitor = 'near.repeat', key = 'near-points-repeat', msg = 'the same near-field request twice in a row: the second table has other points than the first'))
                if spec ['kind'] == 'near':
                    # the points the fields are evaluated at, in the order of the tables (X runs fastest)
                    gx = [instrument.exact_grid (*a) for a in ax]
                    want_p = [(x, y, z) for z in gx [2] for y in gx [1] for x in gx [0]]
                    got_p  = [tuple (float (v) for v in p) for p in m.near_field_iter ()]
                    mon ['near.iter'] = 1
                    scl = max ([abs (v) for p in want_p for v in p] + [1e-300])
                    if len (got_p) != len (want_p) or any (abs (a - b) > 1e-12 * scl for p, q in zip (got_p, want_p) for a, b in zip (p, q)):
                        bad_i = next ((i for i, (p, q) in enumerate (zip (got_p, want_p)) if any (abs (a - b) > 1e-12 * scl for a, b in zip (p, q))), None)
                        viol.append (dict (monitor = 'near.iter', key = 'near-points-evaluated'
                                          , msg = 'the fields of a %d x %d x %d request are evaluated at %d points; point %s is %r, requested %r'
                                                  % (nvec [0], nvec [1], nvec [2], len (got_p), bad_i, None if bad_i is None else got_p [bad_i], None if bad_i is None else want_p [bad_i])))
                    mon ['near.values'] = 1
                    N = nvec [0] * nvec [1] * nvec [2]
                    if len (m.e_field) != N or len (m.h_field) != N:
                        viol.append (dict (monitor = 'near.values', key = 'near-point-count'
                                          , msg = '%d E and %d H field values for %d x %d x %d points' % (len (m.e_field), len (m.h_field), nvec [0], nvec [1], nvec [2])))
            finally:
                if spec ['kind'] == 'near-grid':
                    del m.near_field_iter
                    del m._pmv_stub
    else:
        argv = ['-f', '28', '-w', '6,0,0,-2.5,0,0.3,2.5,0.002' if spec.get ('env', 'free') == 'free' else '6,0,0,1,0,0.3,6,0.002', '--excitation-pulse', '3'] + ENV_ARGV [spec.get ('env', 'free')]
        if spec ['kind'] == 'far':
            argv += ['--theta=%r,%r,%d' % tuple (ax [0]), '--phi=%r,%r,%d' % tuple (ax [1])]
            if (ax [0][2] + ax [1][2]) % 2:
                argv += ['--option', 'far-field', '--option', 'far-field-absolute', '--ff-distance', '100']
        else:
            argv += ['--near-field=' + ','.join ([repr (a [0]) for a in ax] + [repr (a [1]) for a in ax] + [str (a [2]) for a in ax])]
        if (ax [0][2] + ax [1][2]) % 3 == 0:
            argv += ['--geo-scale', '2.5']          # the structure is scaled, the requested points are not
        r = common.run_main (argv)
        if r ['kind'] == 'exception':
            raise common.Repo_Crash (r ['exc'], 'main')
        if r ['ret'] is not None:
            return dict (status = 'discard', reason = 'rejected: ' + (r ['out'] + r ['err']).strip () [:60])
        rep = report.parse (r ['out'])
        if spec ['kind'] == 'far':
            th = instrument.exact_grid (*ax [0])
            ph = instrument.exact_grid (*ax [1])
            want = [(t, p) for p in ph for t in th]
            rows = (rep ['far'] or dict (rows = [])) ['rows']
            mon ['report.far'] = 1
            if '--ff-distance' in argv:
                arows = (rep ['far_abs'] or dict (rows = [])) ['rows']
                if len (arows) != len (want):
                    viol.append (dict (monitor = 'report.far', key = 'far-row-count'
                                      , msg = '%d rows in the V/m table for %d x %d angles' % (len (arows), len (th), len (ph))))
            if len (rows) != len (want):
                viol.append (dict (monitor = 'report.far', key = 'far-row-count'
                                  , msg = '%d PATTERN DATA rows for %d x %d angles' % (len (rows), len (th), len (ph))))
            else:
                for row, (t, p) in zip (rows, want):
                    if not (tok_close (row [0], t) and tok_close (row [1], p)):
                        viol.append (dict (monitor = 'report.far', key = 'far-row-angle'
                                          , msg = 'row %s should be at theta %r phi %r' % (row [:2], t, p)))
                        break
        else:
            g = [instrument.exact_grid (*a) for a in ax]
            want = [(x, y, z) for z in g [2] for y in g [1] for x in g [0]]
            mon ['report.near'] = 1
            for name, pts in (('E', rep ['near_e']), ('H', rep ['near_h'])):
                if len (pts) != len (want):
                    viol.append (dict (monitor = 'report.near', key = 'near-point-count'
                                      , msg = '%d near %s-field points for %d x %d x %d' % (len (pts), name, ax [0][2], ax [1][2], ax [2][2])))
                    continue
                for pt, w in zip (pts, want):
                    if not all (tok_close (tk, c) for tk, c in zip (pt ['point'], w)):
                        viol.append (dict (monitor = 'report.near', key = 'near-point-order'
                                          , msg = 'field point %s should be %r' % (pt ['point'], w)))
                        break
    after = dict (instrument.EVALS)
    for k in ('compute_far_field.table', 'compute_near_field.grid'):
        d = after.get (k, 0) - before.get (k, 0)
        if d:
            mon ['contract:' + k] = d
    if not any (k.startswith ('contract:') for k in mon):
        return dict (status = 'inconclusive', reason = 'grid contract not evaluated')
    nontrivial = any (a [2] > 1 and sclass (a [1]) in ('+i', '-i', '-e') for a in ax)
    sig = '|'.join ([spec ['route'], spec ['kind'], spec.get ('env', 'free')] + [klass (a [2]) + sclass (a [1]) for a in ax])
    return dict ( status = 'violation' if viol else 'held', sig = sig, nontrivial = nontrivial
                , monitors = mon, violations = viol)
# end def check
