""" C17 - pulse addressing: sources and loads act on exactly the pulse
    the user named. Oracle: object blocks expected by construction of the
    wire graph vs the parsed ANTENNA GEOMETRY table vs Excitation.idx /
    load.pulses; both addressing forms; listings; attachment forms.
"""
import copy
import numpy as np
from pmv import common, gen, graphs, observe
from pmv.oracles import report

ID   = 'C17'
RULE = ( 'random wire graphs (wires, optional arc / helix with wires on its ends, ground nodes, single-segment '
         'wires) with automatic, explicit, permuted, sparse and mixed tags. Per model: geometry table blocks vs '
         'expected blocks; EVERY valid pulse number in absolute and in per-object form (API), a sample of three '
         'through the command line with solve (identical impedance, listings name the pulse); loads in all four '
         'attachment forms (multiset of loaded pulses, listing, equality of both forms). non-trivial = some junction '
         'or grounded end and non-automatic tags or a curve; distinct = (tag style, env, junction multiset, curve, seg1)'
       )
MIN_EVAL = dict (quick = 150, thorough = 3000)
ANCHORS  = ['Geo_Container.compute_tags', 'Geobj.compute_connections', 'Mininec.register_source', 'Mininec.register_load']
ANCHORS_REQUIRED = ['Geo_Container.compute_tags', 'Mininec.register_source', 'Mininec.register_load']
ASSUMPTIONS = ['expected blocks follow the ownership rule stated in the property (junction pulse belongs to the later-tagged object)']

def plan (tier, seed):
    n = 260 if tier == 'quick' else 6000
    return [dict (i = i, seed = seed) for i in range (n)]
# end def plan

def make (spec0):
    rng  = np.random.default_rng ([spec0 ['seed'], 17, spec0 ['i']])
    spec = graphs.make_graph (rng)
    spec ['pick'] = [float (x) for x in rng.random (12)]
    return spec
# end def make

def tok_close (tok, want):
    v = report.num (tok)
    return abs (v - want) <= max (6e-6 * abs (want), 1.1e-6)
# end def tok_close

def check (spec0):
    spec = spec0 if 'geo' in spec0 else make (spec0)
    MM   = common.repo ()
    tags, blocks, tag_of, members = graphs.expected_blocks (spec)
    N    = sum (len (b) for b in blocks.values ())
    if N < 2:
        return dict (status = 'discard', reason = 'fewer than 2 pulses')
    m    = gen.build (spec)
    tol  = spec ['tol']
    viol = []
    mon  = {}
    def bad (monitor, key, msg):
        viol.append (dict (monitor = monitor, key = key, msg = msg))
    # ---- the number a pulse has within its object (what the writer of per-object attachments names) counts the
    # object's own pulses in table order
    mon ['relative-numbers'] = 1
    for gx in m.geo:
        if [p.n for p in gx.pulses] != list (range (len (gx.pulses))):
            bad ('relative-numbers', 'per-object-index', 'object %s: pulses numbered %s within the object, its block has rows 1..%d' % (gx.tag, [p.n + 1 for p in gx.pulses] [:14], len (gx.pulses)))
            break
    # ---- geometry table vs expected blocks
    rep = report.parse (common.guarded (m.wires_as_mininec, 'wires_as_mininec'))
    mon ['table'] = 1
    gtags = [int (b ['tag']) for b in rep ['geometry']]
    table = {}      # tag -> list of absolute numbers in block order
    if gtags != tags:
        bad ('table', 'block-order', 'blocks %s, expected tag order %s' % (gtags, tags))
    for b in rep ['geometry']:
        t   = int (b ['tag'])
        exp = blocks.get (t, [])
        table [t] = [int (r ['no']) for r in b ['rows']]
        if len (b ['rows']) != len (exp):
            bad ('table', 'block-size', 'object %d: %d rows, expected %d (%s)'
                 % (t, len (b ['rows']), len (exp), ''.join (x ['kind'] for x in exp)))
            continue
        for r, x in zip (b ['rows'], exp):
            if not all (tok_close (r [c], v) or abs (report.num (r [c]) - v) < 1.01 * tol for c, v in zip ('xyz', x ['at'])):
                bad ('table', 'row-position', 'object %d pulse %s printed at (%s %s %s), expected %s (%s)'
                     % (t, r ['no'], r ['x'], r ['y'], r ['z'], np.round (x ['at'], 6), x ['kind']))
                break
    nos = [n for t in gtags for n in table [t]]
    if nos != list (range (1, N + 1)):
        bad ('table', 'numbering', 'PULSE NO. column %s..., expected 1..%d' % (nos [:10], N))
    if viol:
        return dict (status = 'violation', sig = 'table', nontrivial = True, monitors = mon, violations = viol [:6])
    # expected absolute number of the k-th pulse of object t and its location
    absno = {}
    loc   = {}
    n = 0
    for t in tags:
        for k, x in enumerate (blocks [t]):
            n += 1
            absno [(t, k + 1)] = n
            loc [n] = x ['at']
    # ---- every pulse number, both forms, through the API
    mon ['abs-addressing'] = N
    for a in range (1, N + 1):
        m.sources = []
        s = MM.Excitation (1+0j)
        common.guarded (lambda: m.register_source (s, a - 1), 'register_source')
        if s.idx != a - 1 or np.linalg.norm (np.asarray (m.pulses [s.idx].point, float) - loc [a]) > 1.01 * tol:
            bad ('abs-addressing', 'abs-pulse', 'absolute pulse %d -> idx %d at %s, table row %d is at %s'
                 % (a, s.idx, m.pulses [s.idx].point, a, loc [a]))
    mon ['obj-addressing'] = N
    for (t, k), a in absno.items ():
        m.sources = []
        s = MM.Excitation (1+0j, geo_tag = t, geo_idx = k - 1)
        common.guarded (lambda: m.register_source (s, k - 1, t), 'register_source')
        if s.idx != a - 1:
            bad ('obj-addressing', 'obj-pulse', 'pulse %d of object %d -> absolute %d, table says %d' % (k, t, s.idx + 1, a))
    # one past the end must be rejected
    for t in tags:
        m.sources = []
        try:
            m.register_source (MM.Excitation (1+0j), len (blocks [t]), t)
            bad ('obj-addressing', 'obj-pulse-range', 'pulse %d of object %d (which has %d) accepted' % (len (blocks [t]) + 1, t, len (blocks [t])))
        except ValueError:
            pass
    m.sources = []
    # ---- sample through the command line with solve
    pick  = spec ['pick']
    keys  = sorted (absno)
    for j in range (3):
        t, k = keys [int (pick [j] * len (keys)) % len (keys)]
        a = absno [(t, k)]
        sa = copy.deepcopy (spec)
        sa ['src'] = [dict (p = [a], v = [1.0, 0.5])]
        sb = copy.deepcopy (spec)
        sb ['src'] = [dict (p = [k, t], v = [1.0, 0.5])]
        ma, mb = gen.build (sa), gen.build (sb)
        mon ['cli'] = mon.get ('cli', 0) + 1
        if ma.sources [0].idx != a - 1 or mb.sources [0].idx != a - 1:
            bad ('cli', 'cli-pulse', '--excitation-pulse %d -> %d, --excitation-pulse %d,%d -> %d'
                 % (a, ma.sources [0].idx + 1, k, t, mb.sources [0].idx + 1))
            continue
        try:
            observe.solve (ma)
            observe.solve (mb)
        except common.Repo_Crash as e:
            if 'LinAlgError' in e.key:
                continue        # overlapping wires of the random graph: singular system, addressing already checked
            raise
        za, zb = ma.sources [0].impedance, mb.sources [0].impedance
        if not (abs (za - zb) <= 1e-12 * abs (za)):
            bad ('cli', 'cli-impedance', 'absolute and per-object form give %r / %r' % (za, zb))
        for mm, nm in ((ma, 'abs'), (mb, 'obj')):
            r1 = report.parse (mm.sources_as_mininec () + '\n' + mm.source_data_as_mininec ())
            got = [int (x ['pulse']) for x in r1 ['sources_short']] + [int (x ['pulse']) for x in r1 ['source_data']]
            if got != [a, a]:
                bad ('cli', 'listing-source', 'source listings name pulses %s, source is on %d (%s form)' % (got, a, nm))
    # ---- several sources in mixed forms and random order on one command line
    if len (keys) >= 3:
        sel  = [keys [int (pick [5 + j] * len (keys)) % len (keys)] for j in range (3)]
        sel  = list (dict.fromkeys (sel))
        srcs, want = [], []
        for j, (t, k) in enumerate (sel):
            form = int (pick [8 + j] * 2)
            want.append (absno [(t, k)])
            srcs.append (dict (p = ([k, t] if form else [absno [(t, k)]]), v = [1.0 + j, 0.25 * j]))
        sm = copy.deepcopy (spec)
        sm ['src'] = srcs
        mm = gen.build (sm)
        mon ['cli-multi'] = 1
        got = [x.idx + 1 for x in mm.sources]
        if got != want:
            bad ('cli-multi', 'cli-multi-source', 'sources %s land on pulses %s, expected %s' % ([x ['p'] for x in srcs], got, want))
        else:
            r3 = report.parse (mm.sources_as_mininec ())
            if [int (x ['pulse']) for x in r3 ['sources_short']] != want:
                bad ('cli-multi', 'listing-source', 'source listing names %s, expected %s' % ([x ['pulse'] for x in r3 ['sources_short']], want))
            # each voltage acts on the pulse it was given for, in whatever order the sources are written: the same
            # sources in ascending pulse order give the same currents
            so = copy.deepcopy (spec)
            so ['src'] = [dict (p = [a], v = s ['v']) for a, s in sorted (zip (want, srcs), key = lambda x: x [0])]
            mo = gen.build (so)
            try:
                observe.solve (mm)
                observe.solve (mo)
                mon ['cli-multi.order'] = 1
                d = np.abs (np.array (mm.current) - np.array (mo.current)).max () / max (np.abs (np.array (mo.current)).max (), 1e-300)
                if np.isfinite (d) and d > 1e-9:
                    bad ('cli-multi.order', 'source-order', 'sources %s with voltages %s: currents differ by %.3g from the same sources written in ascending pulse order' % ([x ['p'] for x in srcs], [x ['v'] for x in srcs], d))
            except common.Repo_Crash as e:
                if 'LinAlgError' not in e.key:
                    raise
    # ---- loads: all four attachment forms
    t1, k1 = keys [int (pick [3] * len (keys)) % len (keys)]
    t2     = tags [int (pick [4] * len (tags)) % len (tags)]
    forms  = [ ('abs',     [[absno [(t1, k1)]]],       [absno [(t1, k1)]])
             , ('obj',     [[k1, t1]],                  [absno [(t1, k1)]])
             , ('all-obj', [['all', t2]],               [absno [(t2, k + 1)] for k in range (len (blocks [t2]))])
             , ('all',     [['all']],                   list (range (1, N + 1)))
             ]
    # one load attached by several requests (every attachment counts, the load itself is registered once)
    allof = lambda t: [absno [(t, k + 1)] for k in range (len (blocks [t]))]
    t3 = tags [(tags.index (t2) + 1) % len (tags)]
    forms += [ ('obj+all-obj', [[k1, t1], ['all', t2]], [absno [(t1, k1)]] + allof (t2))
             , ('abs+all',     [[absno [(t1, k1)]], ['all']], [absno [(t1, k1)]] + list (range (1, N + 1)))
             ]
    if t3 != t2:
        forms.append (('all-obj+all-obj', [['all', t2], ['all', t3]], allof (t2) + allof (t3)))
    def extra_stages (name, sl, want, att, zdiag, ml, k1, t1):
        if '+' in name or name == 'obj':
            # every attachment acts: the same structure with one load object per attachment (absolute pulse
            # numbers) gives the same matrix; and a load registered after a first solve acts like one given at once
            sm = copy.deepcopy (sl)
            sm ['loads'] = [dict (k = 'z', z = [50.0, -20.0], att = [[k]]) for k in want]
            mm = gen.build (sm)
            observe.solve (mm)
            mon ['loads.matrix'] = mon.get ('loads.matrix', 0) + 1
            d = np.abs (np.array (mm.Z).diagonal () - zdiag [name][0]).max () / np.abs (zdiag [name][0]).max ()
            if d > 1e-12:
                bad ('loads.matrix', 'load-count-in-matrix', '--attach-load %s: matrix diagonal differs by %.3g from one load per attachment (pulses %s)' % (att, d, sorted (want)))
        if name == 'obj':
            MM = common.repo ()
            s0 = copy.deepcopy (sl)
            s0 ['loads'] = []
            m0 = gen.build (s0)
            observe.solve (m0)
            z0 = complex (m0.sources [0].impedance)
            common.guarded (lambda: m0.register_load (MM.Impedance_Load (50.0-20.0j), k1 - 1, t1), 'register_load')
            observe.solve (m0)
            mon ['loads.late'] = 1
            za, zb = complex (m0.sources [0].impedance), complex (ml.sources [0].impedance)
            if abs (za - zb) > 1e-9 * abs (zb) and abs (zb - z0) > 1e-6 * abs (zb):
                bad ('loads.late', 'load-after-solve', 'load registered on pulse %d of object %d after a first solve: feed impedance %r, with the load from the start %r (unloaded %r)' % (k1, t1, za, zb, z0))
    zdiag = {}
    for name, att, want in forms:
        if not want:
            continue
        sl = copy.deepcopy (spec)
        sl ['src']   = [dict (p = [1], v = [1.0, 0.0])]
        sl ['loads'] = [dict (k = 'z', z = [50.0, -20.0], att = att)]
        ml = gen.build (sl)
        got = sorted (p.idx + 1 for l in ml.loads for p in l.pulses)
        mon ['loads'] = mon.get ('loads', 0) + 1
        if got != sorted (want):
            bad ('loads', 'load-pulses-' + name, '--attach-load %s loads pulses %s, expected %s' % (att, got, sorted (want)))
        r2  = report.parse (ml.loads_as_mininec ())
        lst = sorted (int (x ['pulse']) for x in r2 ['loads'])
        if lst != got or int (r2.get ('nloads', -1)) != len (got):
            bad ('loads', 'listing-load', 'load listing names %s (NUMBER OF LOADS %s), loaded pulses %s' % (lst, r2.get ('nloads'), got))
        try:
            observe.solve (ml)
        except common.Repo_Crash as e:
            if 'LinAlgError' in e.key:
                continue
            raise
        zdiag [name] = (np.array (ml.Z).diagonal ().copy (), ml.sources [0].impedance)
        try:
            extra_stages (name, sl, want, att, zdiag, ml, k1, t1)
        except common.Repo_Crash as e:
            if 'LinAlgError' not in e.key:
                raise
    # ---- a distributed load given for one object: every pulse that has a half on that object carries it exactly once
    # (the pulses of its block and the junction pulses at its ends that belong to later objects)
    for kind, opt in (('skin', dict (k = 'skin', cond = 5.8e7)), ('ins', dict (k = 'ins', radius = 3.0 * max (g ['r'] for g in spec ['geo']), eps = 2.5))):
        sd = copy.deepcopy (spec)
        sd ['src']   = [dict (p = [1], v = [1.0, 0.0])]
        sd ['loads'] = [dict (opt, tag = t2)]
        try:
            md = gen.build (sd)
        except common.Rejected:
            continue
        wantd = sorted (p.idx + 1 for p in md.pulses if any (s.geobj.tag == t2 for s in p.segs))
        gotd  = sorted (p.idx + 1 for l in md.loads for p in l.pulses)
        mon ['loads.distributed'] = mon.get ('loads.distributed', 0) + 1
        if gotd != wantd:
            bad ('loads.distributed', 'distributed-load-pulses', '%s load on object %d: attached to pulses %s, pulses with a half on that object %s' % (kind, t2, gotd, wantd))
        r4 = report.parse (md.loads_as_mininec ())
        if int (r4.get ('nloads', -1)) != len (wantd):
            bad ('loads.distributed', 'listing-load', '%s load on object %d: NUMBER OF LOADS %s, %d pulses have a half on that object' % (kind, t2, r4.get ('nloads'), len (wantd)))
    if 'abs' in zdiag and 'obj' in zdiag:
        if not np.array_equal (zdiag ['abs'][0], zdiag ['obj'][0]) or zdiag ['abs'][1] != zdiag ['obj'][1]:
            bad ('loads', 'load-forms-differ', 'absolute and per-object attachment give different matrices')
    sizes = sorted (len (v) for v in members.values () if len (v) > 1)
    ngnd  = sum (1 for e in spec ['ends'] if e ['gnd'])
    kinds = ''.join (sorted (set (g ['k'] for g in spec ['geo'])))
    sig = '|'.join (str (x) for x in (spec ['style'], 'gnd' if spec ['media'] else 'free', sizes, ngnd, kinds
                                     , 'seg1' if any (g ['n'] == 1 for g in spec ['geo']) else ''))
    nontrivial = bool ((sizes or ngnd) and (spec ['style'] != 'auto' or kinds != 'w'))
    return dict ( status = 'violation' if viol else 'held', sig = sig, nontrivial = nontrivial
                , monitors = mon, violations = viol [:6], info = dict (N = N, tags = tags))
# end def check
