""" C18 - the generated BASIC-MININEC input describes the same antenna.
    Offline checker: the answer stream written by --output-basic-input is
    consumed by a prompt-order state machine (pmv.oracles.basic_reader);
    the rebuilt model must have the same pulses in the same numbering and
    the same feed impedance.
"""
import os, shutil, tempfile, glob
import numpy as np
from pmv import common, gen, observe, corpus as pymcorpus
from pmv.oracles import basic_reader

ID   = 'C18'
RULE = ( 'models expressible in BASIC MININEC from the model grammar: all free-space and ground families, tapered '
         'wires, arcs and helices (emulated as one-segment wires), end points joined only approximately, 1..3 sources with '
         'complex voltages, loads either all impedance-type (lumped, skin effect, insulation) or all Laplace-type (RLC, '
         'trap, Laplace), all media forms, far- and near-field requests, BASIC versions 9, 12, 13. The file written by '
         '--output-basic-input is read back: every prompt answered in order, nothing left over; pulse count, positions '
         'and numbering; junctions must be exact coordinate matches (BASIC joins identical end points only); source '
         'pulse, magnitude, phase in degrees; loads per pulse; feed impedance (1e-4). Plus the 48 hand-made .mini files of '
         'the test directory as corpus for the reader itself. non-trivial = emulated geometry, loads, media or complex '
         'voltage; distinct = feature signature + version + load class'
       )
MIN_EVAL = dict (quick = 150, thorough = 3000)
ANCHORS  = ['Mininec.as_basic_input', 'Excitation.as_basic_input', 'Impedance_Load.as_basic_input', 'Laplace_Load.as_basic_input'
           , 'Distributed_Load.as_basic_input', 'Medium.as_basic_input', 'Geobj.as_basic_input']
ANCHORS_REQUIRED = ['Mininec.as_basic_input', 'Excitation.as_basic_input', 'Medium.as_basic_input', 'Geobj.as_basic_input', 'Laplace_Load.as_basic_input']
ASSUMPTIONS = ['prompt order as documented in the comments of as_basic_input; validated on the 48 .mini files of /repo/test (all consumed without leftover or missing answers)']
MAX_DISCARD = 0.4

def plan (tier, seed):
    n = 260 if tier == 'quick' else 5000
    corpus = sorted (glob.glob (os.path.join (common.REPO, 'test', '*.mini')))
    return [dict (kind = 'corpus', file = os.path.basename (f)) for f in corpus] + [dict (kind = 'model', i = i, seed = seed) for i in range (n)] \
         + [dict (c, kind = 'model') for c in pymcorpus.plan_cases (seed, tier, 1, 3)] + [dict (kind = 'model', edge = k, i = k, seed = seed) for k in range (len (EDGE_H))]
# end def plan

EDGE_H = [(seg, n, fac) for seg, n in ((1.0, 10), (2.0, 5), (0.25, 8), (4.0, 3)) for fac in (1.0, 0.5, 0.999, 1.001, 2.0, -0.5)]

def make (c):
    rng = np.random.default_rng ([c ['seed'], 18, c ['i']])
    if 'edge' in c:
        # a vertical wire whose lower end is at, just inside or just outside the distance (1/1000 of the segment length)
        # up to which the program takes an end as lying on the ground plane
        seg, n, fac = EDGE_H [c ['edge'] % len (EDGE_H)]
        z = seg * 1e-3 * fac
        spec = dict ( f = float (299.8 / (seg * n * 4.2)), geo = [gen.wire (n, [0, 0, z], [0, 0, z + seg * n], seg / 100.0)], fam = 'edge-height'
                    , media = [[0, 0, 0]] if c ['edge'] % 2 == 0 else [[13.0, 0.005, 0.0]], src = [dict (p = [1 + c ['edge'] % 2], v = [1.0, 0.0])], loads = []
                    , lclass = 'none', version = ['9', '12', '13'] [c ['edge'] % 3], fields = 'none')
        return spec
    if 'corpus' in c:
        # the repository's hand-made option files written as BASIC input
        spec = pymcorpus.make (c, 18)
        rng  = pymcorpus.rng_of (c, 18)
        kinds = set (l ['k'] for l in spec ['loads'])
        spec ['lclass']  = 'lap' if kinds & set (('rlc', 'trap', 'lap')) else ('z' if kinds else 'none')
        spec ['version'] = str (rng.choice (['9', '12', '13']))
        spec ['fields']  = str (rng.choice (['none', 'far', 'near', 'abs']))
        return spec
    env = str (rng.choice (['free', 'free', 'ideal', 'real1', 'real2', 'real3', 'radials']))
    if env == 'free':
        spec = gen.fam_free (rng, equal_junction = bool (rng.random () < 0.6), shift = bool (rng.random () < 0.3))
        lam  = gen.C_MHZ / spec ['f']
        if rng.random () < 0.3:
            c1 = dict (k = 'a', n = int (rng.integers (3, 8)), radius = float (lam * rng.uniform (0.03, 0.1)), a1 = 0.0, a2 = float (np.round (rng.uniform (90, 300), 1)), r = float (lam * 1e-3), tag = None)
            if rng.random () < 0.5:
                c1 = dict ( k = 'h', n = int (rng.integers (6, 12)), length = float (lam * 0.15), turn = float (lam * 0.06 * rng.choice ([1, -1])), r = float (lam * 5e-4)
                          , rx1 = float (lam * 0.02), ry1 = float (lam * 0.02), tag = None)
            spec ['geo'].append (c1)
            spec ['far_curve'] = True
    else:
        med = 'ideal'
        if env == 'real1':
            med = [[float (rng.uniform (2, 80)), float (10 ** rng.uniform (-4, 1)), 0.0]]
        elif env in ('real2', 'real3', 'radials'):
            med = [[float (rng.uniform (2, 30)), float (10 ** rng.uniform (-3, 0)), 0.0, float (10 ** rng.uniform (0, 2.5))]]
            med.append ([float (rng.uniform (2, 80)), float (10 ** rng.uniform (-4, 0)), float (-rng.choice ([0, 0.5, 2]))])
            if env == 'real3':
                med [1].append (med [0][3] * float (rng.uniform (1.5, 10)))
                med.append ([float (rng.uniform (2, 80)), float (10 ** rng.uniform (-4, 0)), float (-rng.choice ([0, 1, 5]))])
        spec = gen.fam_ground (rng, media = med, shift = bool (rng.random () < 0.3))
        if env in ('real2', 'real3', 'radials'):
            spec ['boundary'] = 'circular' if env == 'radials' else str (rng.choice (['linear', 'circular']))
        if env == 'radials':
            spec ['radials'] = [int (rng.integers (4, 120)), float (10 ** rng.uniform (-4, -2.5))]
        rg = np.random.default_rng ([c ['seed'], 181, c ['i']])
        if rg.random () < 0.2:
            # a curve standing on the ground: half circle with both ends grounded (the second end is zero only up
            # to rounding of sin (180 degrees)), or a helix rising from the plane; placed far from the rest
            lam = gen.C_MHZ / spec ['f']
            if rg.random () < 0.6:
                c1 = dict (k = 'a', n = int (rg.integers (4, 10)), radius = float (lam * rg.uniform (0.05, 0.12)), a1 = 0.0, a2 = 180.0, r = float (lam * 1e-3), tag = None)
            else:
                c1 = dict ( k = 'h', n = int (rg.integers (6, 12)), length = float (lam * 0.15), turn = float (lam * 0.06 * rg.choice ([1, -1])), r = float (lam * 5e-4)
                          , rx1 = float (lam * 0.02), ry1 = float (lam * 0.02), tag = None)
            spec ['geo'].append (c1)
            spec ['far_curve'] = True
    geo = spec ['geo']
    for i, g in enumerate (geo):
        g ['tag'] = i + 1
    lam = gen.C_MHZ / spec ['f']
    if spec.pop ('far_curve', None):
        spec ['tr'] = [['translate', 1.0, [float (lam * 5), 0.0, 0.0], len (geo)]]
    # approximate junctions: move some wire ends by a fraction of the matching tolerance
    if rng.random () < 0.4:
        segmin = min (np.linalg.norm (np.array (g ['p1']) - np.array (g ['p2'])) / g ['n'] for g in geo if g ['k'] == 'w')
        for g in geo:
            if g ['k'] == 'w' and rng.random () < 0.5:
                e = 'p1' if rng.random () < 0.5 else 'p2'
                if spec ['media'] is not None and g [e][2] == 0:
                    continue
                d = rng.normal (size = 3)
                d = d / np.linalg.norm (d) * segmin * 2e-4
                if spec ['media'] is not None:
                    d [2] = abs (d [2])
                g [e] = [float (x) for x in np.array (g [e]) + d]
        spec ['fuzzy'] = True
    # (wires of two segments tapered from one end have segments of one and two thirds of their length)
    r2 = np.random.default_rng ([c ['seed'], 181, c ['i']])
    if r2.random () < 0.4 and not spec.get ('fuzzy'):
        # (wires of two or three segments: as two tapered segments of one and two thirds they stay within a factor of
        # about two of the segments they had, and of their neighbours)
        cand = [g for g in geo if g ['k'] == 'w' and g ['n'] in (2, 3) and np.linalg.norm (np.array (g ['p2']) - np.array (g ['p1'])) <= gen.C_MHZ / spec ['f'] / 4
                                and np.linalg.norm (np.array (g ['p2']) - np.array (g ['p1'])) / 6 >= 2.6 * g ['r']]
        if len (cand) > 1 or (cand and len (geo) > 1):
            g = cand [int (r2.integers (0, len (cand)))]
            g ['n'] = 2
            g ['taper'] = [int (r2.integers (1, 4)), None, None]
    # (tapers that do not fit their minimum: the program then segments the wire equally and writes one wire)
    for g in geo:
        if g ['k'] == 'w' and g ['n'] >= 2 and r2.random () < 0.07 and not spec.get ('fuzzy') and not g.get ('taper'):
            g ['taper'] = [int (r2.integers (1, 4)), float (1.5 * np.linalg.norm (np.array (g ['p2']) - np.array (g ['p1'])) / g ['n']), None]
    for g in geo:
        if g ['k'] == 'w' and g ['n'] >= 3 and rng.random () < 0.2 and not spec.get ('fuzzy') and not g.get ('taper'):
            # minimum segment length of 8.5 radii keeps most tapered wires inside the thin-wire rules
            g ['taper'] = [int (rng.integers (1, 4)), (float (8.5 * g ['r']) if rng.random () < 0.75 else None), None]
    # sources
    wires = [g for g in geo if g ['k'] == 'w' and g ['n'] >= 3]
    src, used = [], set ()
    for k in range (int (rng.integers (1, 4))):
        if not wires:
            break
        g = wires [int (rng.integers (0, len (wires)))]
        p = (int (rng.integers (1, g ['n'] - 1)) if g ['n'] > 2 else 1, g ['tag'])
        if p in used:
            continue
        used.add (p)
        src.append (dict (p = list (p), v = gen.rand_voltage (rng)))
    spec ['src'] = src or [dict (p = [1], v = [1.0, 0.0])]
    # loads: one class only
    loads = []
    cls = str (rng.choice (['none', 'imp', 'imp', 'lap', 'lap']))
    if cls == 'imp':
        for k in range (int (rng.integers (1, 3))):
            kind = str (rng.choice (['z', 'skin', 'ins']))
            if kind == 'z':
                loads.append (dict (k = 'z', z = [float (10 ** rng.uniform (-1, 3)), float (rng.choice ([0, 1, -1]) * 10 ** rng.uniform (-1, 3))], att = [[1 + int (rng.integers (0, 2))]] if rng.random () < 0.7 else [['all']]))
            elif kind == 'skin' and not any (l ['k'] == 'skin' for l in loads):
                loads.append (dict (k = 'skin', cond = float (10 ** rng.uniform (4, 7.8)), tag = None if rng.random () < 0.6 else 1))
            elif kind == 'ins' and not any (l ['k'] == 'ins' for l in loads):
                loads.append (dict (k = 'ins', radius = float (max (g ['r'] for g in geo) * rng.uniform (1.3, 3)), eps = float (rng.uniform (1.2, 5)), tag = None if rng.random () < 0.6 else 1))
    elif cls == 'lap':
        for k in range (int (rng.integers (1, 3))):
            kind = str (rng.choice (['rlc', 'trap', 'lap']))
            att = [[1 + int (rng.integers (0, 2))]] if rng.random () < 0.7 else [['all', 1]]
            if kind == 'rlc':
                loads.append (dict (k = 'rlc', R = float (10 ** rng.uniform (-1, 3)), L = float (10 ** rng.uniform (-8, -5)), C = None if rng.random () < 0.5 else float (10 ** rng.uniform (-12, -9)), att = att))
            elif kind == 'trap':
                loads.append (dict (k = 'trap', R = float (10 ** rng.uniform (-1, 1)), L = float (10 ** rng.uniform (-7, -5)), C = float (10 ** rng.uniform (-12, -10)), att = att))
            elif rng.random () < 0.5:
                loads.append (dict (k = 'lap', a = [1.0, float (10 ** rng.uniform (-9, -7))], b = [float (10 ** rng.uniform (0, 2)), float (10 ** rng.uniform (-7, -5))], att = att))
            else:
                # two or three traps in series folded into one rational function: order four to six
                w_ = 2 * np.pi * spec ['f'] * 1e6
                a_, b_ = np.array ([1.0]), np.array ([0.0])
                for j in range (int (rng.integers (2, 4))):
                    R, L = float (10 ** rng.uniform (-1, 1)), float (10 ** rng.uniform (-7, -5))
                    x    = float (rng.choice ([rng.uniform (0.05, 0.6), rng.uniform (1.6, 8)]))      # w^2 L C away from resonance
                    C    = x / (w_ * w_ * L)
                    ta, tb = np.array ([1.0, R * C, L * C]), np.array ([R, L])
                    b_ = np.polynomial.polynomial.polyadd (np.polynomial.polynomial.polymul (b_, ta), np.polynomial.polynomial.polymul (tb, a_))
                    a_ = np.polynomial.polynomial.polymul (a_, ta)
                n_ = max (len (a_), len (b_))
                loads.append (dict (k = 'lap', a = [float (x) for x in a_] + [0.0] * (n_ - len (a_)), b = [float (x) for x in b_] + [0.0] * (n_ - len (b_)), att = att))
    # an object without a pulse (a one-segment wire standing alone) among wires that all carry a distributed load: it
    # owns no pulse, so there is nothing to write for it
    rp = np.random.default_rng ([c ['seed'], 183, c ['i']])
    if any (l ['k'] in ('skin', 'ins') and l.get ('tag') is None for l in loads) and rp.random () < 0.5:
        lam_ = gen.C_MHZ / spec ['f']
        sl_  = min (np.linalg.norm (np.array (g ['p2']) - np.array (g ['p1'])) / g ['n'] for g in geo if g ['k'] == 'w')
        z0_  = 3 * lam_
        geo.append (gen.wire (1, [5 * lam_, 0.0, z0_], [5 * lam_, 0.0, z0_ + sl_], min (g ['r'] for g in geo)))
        spec ['pulseless'] = True
    # elements of value zero are elements (a load table entry of 0 + 0j, insulation with the permittivity of air)
    rz = np.random.default_rng ([c ['seed'], 182, c ['i']])
    for l in loads:
        if l ['k'] == 'z' and rz.random () < 0.15:
            l ['z'] = [0.0, 0.0]
        elif l ['k'] == 'ins' and rz.random () < 0.15:
            l ['eps'] = 1.0
    # the same load attached more than once to a pulse counts as often
    for l in loads:
        if 'att' in l and rng.random () < 0.25:
            if l ['att'][0][0] == 'all':
                l ['att'] = l ['att'] + [[1, l ['att'][0][1]] if len (l ['att'][0]) > 1 else [1]]
            else:
                l ['att'] = l ['att'] + [list (l ['att'][0])] * int (rng.integers (1, 3))
            spec ['dupatt'] = True
    spec ['loads'] = loads
    spec ['lclass'] = cls
    spec ['version'] = str (rng.choice (['9', '12', '13']))
    spec ['fields'] = str (rng.choice (['none', 'far', 'near', 'abs']))
    return gen.clean (spec)
# end def make

def basic_text (argv, version, fields, lam):
    tmp = tempfile.mkdtemp (prefix = 'pmv-c18-')
    try:
        fn = os.path.join (tmp, 'o.mini')
        a  = argv + ['--output-basic-input', fn, '--mininec-version', version, '--theta=0,30,3', '--phi=0,90,2']
        if fields == 'near':
            a += ['--near-field=%r,%r,%r,1,1,1,2,1,1' % (2 * lam, 2 * lam, 2 * lam), '--nf-power', '10']
        elif fields == 'abs':
            a += ['--option', 'far-field-absolute', '--ff-distance', '1000', '--ff-power', '100']
        elif fields == 'none':
            a += ['--option', 'none']
        r = common.run_main (a)
        if r ['kind'] == 'exception':
            raise common.Repo_Crash (r ['exc'], 'main(--output-basic-input)')
        if r ['ret'] is not None or not os.path.exists (fn):
            raise common.Rejected ((r ['out'] + r ['err']).strip () [-100:])
        return open (fn).read ()
    finally:
        shutil.rmtree (tmp, ignore_errors = True)
# end def basic_text

def check_corpus (c):
    fn = os.path.join (common.REPO, 'test', c ['file'])
    try:
        r = basic_reader.read (open (fn).read ())
    except basic_reader.Read_Error as e:
        return dict (status = 'inconclusive', reason = 'reader rejects hand-made file %s: %s' % (c ['file'], e))
    return dict (status = 'held', sig = 'corpus|' + c ['file'], nontrivial = False, monitors = dict (corpus = 1)
                , info = dict (answers = len (r ['log']), pulses = len (r ['model'].pulses)))
# end def check_corpus

def check (c):
    if c.get ('kind') == 'corpus':
        return check_corpus (c)
    spec = c if 'geo' in c else make (c)
    argv = gen.to_argv (spec)
    m    = common.build_argv (argv)
    lam  = gen.C_MHZ / m.f
    text = basic_text (argv, spec ['version'], spec ['fields'], lam)
    viol = []
    mon  = {}
    def bad (monitor, key, msg):
        if len (viol) < 8:
            viol.append (dict (monitor = monitor, key = key, msg = msg))
    mon ['prompts'] = 1
    try:
        r = basic_reader.read (text, spec ['version'])
    except basic_reader.Read_Error as e:
        bad ('prompts', 'prompt-order', 'the answers do not follow the prompts: %s' % e)
        return dict (status = 'violation', sig = 'prompts', nontrivial = True, monitors = mon, violations = viol)
    except Exception as e:
        if common.repo_frames (e):
            bad ('prompts', 'rebuild-rejected', 'the described antenna is rejected when rebuilt: %s: %s' % (type (e).__name__, str (e) [:120]))
            return dict (status = 'violation', sig = 'rebuild', nontrivial = True, monitors = mon, violations = viol)
        raise
    mb = r ['model']
    # ---- the same writer through the API with field requests (V/m pattern with power level and distance,
    # gain file, near fields with power level): the answers must still follow the prompts
    import argparse
    MM  = common.repo ()
    ns  = argparse.Namespace (mininec_version = spec ['version'])
    kw  = dict (azi = MM.Angle (0, 90, 2), zen = MM.Angle (0, 30, 3))
    variants = [ dict (kw, ff_abs = True, ff_dist = 1000.0), dict (kw, ff_abs = True, ff_dist = 50.0, pwr_ff = 100.0, gainfile = 'GAIN.OUT')
               , dict (kw, near = [lam, lam, lam, 1, 1, 1, 2, 1, 1]), dict (near = [lam, 2 * lam, lam, 0.5, 0.5, 0.5, 1, 2, 1], pwr_nf = 10.0)]
    for k, v in enumerate (variants):
        try:
            t2 = common.guarded (lambda: m.as_basic_input (ns, **v), 'as_basic_input')
        except common.Repo_Crash as e:
            if 'NotImplementedError' in e.key:
                break
            raise
        mon ['prompts.api'] = mon.get ('prompts.api', 0) + 1
        try:
            r2 = basic_reader.read (t2, spec ['version'])
        except basic_reader.Read_Error as e:
            bad ('prompts.api', 'prompt-order', 'field requests %s: the answers do not follow the prompts: %s' % (sorted (set (v) - set (kw)), e))
            continue
        want_cmds = ['C'] + (['P'] if 'zen' in v else []) + (['N', 'N'] if 'near' in v else [])
        if r2 ['commands'] != want_cmds:
            bad ('prompts.api', 'commands', 'commands %s written for requests %s' % (r2 ['commands'], want_cmds))
    # ---- the file written in a run that sweeps the frequency is the file of the run at the start frequency alone
    if c.get ('i', 0) % 4 == 1 and 'edge' not in c:
        mon ['sweep-file'] = 1
        try:
            ts = basic_text (argv + ['--frequency-steps', '3', '--frequency-increment=%r' % (0.031 * m.f)], spec ['version'], spec ['fields'], lam)
            if ts != text:
                ls, lt = ts.split ('\n'), text.split ('\n')
                bad ('sweep-file', 'basic-input-of-a-sweep', 'the file written by a run of three frequency steps differs from the file of the single run: %r (%d / %d lines)' % ([(x, y) for x, y in zip (ls, lt) if x != y] [:2], len (ls), len (lt)))
        except common.Rejected:
            pass
    # ---- sources handed to the classes as magnitude and phase, the magnitude negative: the answers give the voltage
    m9 = common.build_argv (argv)
    src9 = [(x.idx, complex (x.voltage)) for x in m9.sources]
    m9.sources = []
    for idx9, v9 in src9:
        m9.register_source (MM.Excitation (-abs (v9), float (np.degrees (np.angle (v9))) + 180.0), idx9)
    try:
        t9 = common.guarded (lambda: m9.as_basic_input (ns, **kw), 'as_basic_input')
        r9 = basic_reader.read (t9, spec ['version'])
        mon ['sources.magnitude-phase'] = 1
        for (idx9, v9), (p9, mag9, ph9) in zip (src9, r9 ['sources']):
            w9 = mag9 * np.exp (1j * np.radians (ph9))
            if p9 != idx9 + 1 or abs (w9 - v9) > 2e-5 * abs (v9):
                bad ('sources.magnitude-phase', 'source-answer', 'source of %r on pulse %d handed over as magnitude %r and phase %r degrees is written as pulse %d, %r, %r' % (v9, idx9 + 1, -abs (v9), float (np.degrees (np.angle (v9))) + 180.0, p9, mag9, ph9))
    except common.Repo_Crash as e:
        if 'NotImplementedError' not in e.key:
            raise
    except basic_reader.Read_Error as e:
        bad ('sources.magnitude-phase', 'prompt-order', 'sources as magnitude and phase: the answers do not follow the prompts: %s' % e)
    # ---- one BASIC file per frequency from one object (a scripted sweep): after the frequency of the object has
    # changed, the file is the one a fresh object at that frequency writes
    f0 = m.f
    try:
        m.f = f0 * 1.27
        ta = common.guarded (lambda: m.as_basic_input (ns, **kw), 'as_basic_input')
        m2 = common.build_argv (gen.to_argv (dict (spec, f = f0 * 1.27)))
        tb = common.guarded (lambda: m2.as_basic_input (ns, **kw), 'as_basic_input')
        mon ['second-frequency'] = 1
        if ta != tb:
            la, lb = ta.split ('\n'), tb.split ('\n')
            bad ('second-frequency', 'basic-after-frequency-change', 'object set from %.6g to %.6g MHz writes %r, a fresh object at that frequency %r' % (f0, m.f, [(x, y) for x, y in zip (la, lb) if x != y] [:2], len (lb)))
    except common.Repo_Crash as e:
        if 'NotImplementedError' not in e.key:
            raise
    finally:
        m.f = f0
    # ---- frequency, wires, pulses
    mon ['frequency'] = 1
    if abs (r ['f'] - m.f) > 1e-10 * m.f:
        bad ('frequency', 'frequency', 'frequency %r written as %r' % (m.f, r ['f']))
    mon ['pulses'] = 1
    size = max (np.abs (np.asarray (p.point, float)).max () for p in m.pulses) + 1e-300
    if len (mb.pulses) != len (m.pulses):
        bad ('pulses', 'pulse-count', '%d pulses, the BASIC description gives %d' % (len (m.pulses), len (mb.pulses)))
    else:
        d = max (np.linalg.norm (np.asarray (a.point, float) - np.asarray (b.point, float)) for a, b in zip (m.pulses, mb.pulses))
        # wire ends joined approximately are written with the consolidated coordinates: up to the matching tolerance
        if d > 1.1e-3 * min (s.seg_len for g in m.geo for s in g.segments) + 1e-12 * size:
            bad ('pulses', 'pulse-numbering', 'pulse positions differ by up to %.3g in the numbering of the BASIC description' % d)
    # every (emulated) wire carries the radius the computation uses for that object (the equivalent
    # radius when it is insulated), written with eight digits
    mon ['radius'] = 1
    k = 0
    for g in m.geo:
        for j in range (g.n_emulated_wires):
            if k < len (r ['wires']):
                wr = r ['wires'][k]['r']
                if abs (wr - g.r) > 1e-7 * g.r:
                    bad ('radius', 'wire-radius', 'object %s (emulated wire %d): radius %r written, the computation uses %r' % (g.tag, j + 1, wr, g.r))
                    break
            k += 1
    if k != len (r ['wires']):
        bad ('radius', 'wire-count', '%d wires written, %d expected' % (len (r ['wires']), k))
    # BASIC grounds a wire end only at Z = 0 exactly
    mon ['ground-ends'] = 1
    for k, g in enumerate (mb.geo):
        if k >= len (r ['wires']):
            break
        for e, key in ((0, 'p1'), (1, 'p2')):
            z = float (r ['wires'][k][key][2])
            if g.is_ground [e] and z != 0.0:
                bad ('ground-ends', 'ground-end-not-zero', 'wire %d end %d stands on the ground plane but is written with Z = %r (BASIC grounds an end only at Z = 0)' % (k + 1, e + 1, z))
                break
    # BASIC joins identical end points only
    mon ['exact-junctions'] = 1
    ends = [tuple (w ['p1']) for w in r ['wires']] + [tuple (w ['p2']) for w in r ['wires']]
    for cl in gen.junction_clusters (mb):
        if len (cl) > 1:
            pts = set (tuple (r ['wires'][g]['p1'] if e == 0 else r ['wires'][g]['p2']) for g, e in cl)
            if len (pts) != 1:
                bad ('exact-junctions', 'junction-not-exact', 'wire ends meant to be joined are written with different coordinates: %s' % sorted (pts) [:2])
                break
    # ---- sources
    mon ['sources'] = 1
    if len (r ['sources']) != len (m.sources):
        bad ('sources', 'source-count', '%d sources written for %d' % (len (r ['sources']), len (m.sources)))
    for s, (p, mag, ph) in zip (m.sources, r ['sources']):
        v = complex (s.voltage)
        if p != s.idx + 1 or abs (mag - abs (v)) > 6e-6 * abs (v) or abs ((ph - np.degrees (np.angle (v)) + 180) % 360 - 180) > 1e-3 + 6e-6 * 180:
            bad ('sources', 'source-answer', 'source on pulse %d with %r written as pulse %d, magnitude %r, phase %r degrees' % (s.idx + 1, v, p, mag, ph))
    # ---- loads per pulse
    mon ['loads'] = 1
    want, got, wabs = {}, {}, {}
    for l in m.loads:
        for p in l.pulses:
            z = complex (l.impedance (m.f, p))
            want [p.idx] = want.get (p.idx, 0j) + z
            wabs [p.idx] = wabs.get (p.idx, 0.0) + abs (z)
    for l in mb.loads:
        for p in l.pulses:
            got [p.idx] = got.get (p.idx, 0j) + complex (l.impedance (mb.f, p))
    if len (r ['loads']) != sum (len (l.pulses) for l in m.loads):
        bad ('loads', 'load-count', '%d load answers for %d loaded pulses' % (len (r ['loads']), sum (len (l.pulses) for l in m.loads)))
    if set (want) != set (got):
        bad ('loads', 'load-pulses', 'loaded pulses %s written as %s' % (sorted (x + 1 for x in want), sorted (x + 1 for x in got)))
    else:
        w_  = 2 * np.pi * m.f * 1e6
        amp_ = 1.0
        for l in spec ['loads']:
            # values are written with six digits; series / parallel resonant circuits amplify that
            if l ['k'] == 'trap':
                amp_ = max (amp_, 3.0 / max (abs (1 - w_ * w_ * l ['L'] * l ['C']), 1e-9))
            elif l ['k'] == 'rlc' and l.get ('L') and l.get ('C'):
                amp_ = max (amp_, 3.0 * (w_ * l ['L'] + 1 / (w_ * l ['C'])) / max (abs (complex (l.get ('R') or 0.0, w_ * l ['L'] - 1 / (w_ * l ['C']))), 1e-9))
            elif l ['k'] == 'lap':
                from pmv.props import c15
                amp_ = max (amp_, 3.0 * c15.lap_cond (l, m.f))
        for i in want:
            if abs (want [i] - got [i]) > 1e-4 * amp_ * max (wabs [i], 1e-300) + 1e-9:
                bad ('loads', 'load-value', 'pulse %d: load %r written as %r' % (i + 1, want [i], got [i]))
    # ---- media
    mon ['media'] = 1
    def med (x):
        return None if x.media is None else [(float (y.permittivity), float (y.conductivity), float (y.height), float (y.coord) if y.next else None, int (y.nradials), float (y.radius), x.boundary if len (x.media) > 1 else None) for y in x.media]
    def same (p, q):
        if isinstance (p, float) and isinstance (q, float):
            return abs (p - q) <= 6e-6 * max (abs (p), abs (q))
        return p == q
    ma, mbm = med (m), med (mb)
    if (ma is None) != (mbm is None) or (ma and (len (ma) != len (mbm) or any (not all (same (p, q) for p, q in zip (xa, xb)) for xa, xb in zip (ma, mbm)))):
        bad ('media', 'media', 'media %r written as %r' % (ma, mbm))
    # ---- requested fields
    want_cmd = ['C'] + dict (none = [], far = ['P'], abs = ['P'], near = ['N', 'N']) [spec ['fields']]
    if spec ['fields'] in ('far', 'abs', 'none', 'near'):
        # --output-basic-input is given theta / phi always; near field only adds the two N commands
        pass
    # ---- feed impedance
    if not viol:
        observe.solve (m)
        observe.solve (mb)
        cond = observe.cond_number (m)
        # the emulation turns every segment of a tapered or curved object into a wire of its own; outside the
        # thin-wire rules (segments shorter than 8 radii ...) the inherited exact-kernel heuristic legitimately
        # depends on which wire a segment belongs to, so the impedance is compared inside the rules only
        ok, why, facts = gen.validity (m, seg_max = 1 / 10., check_junction_ratio = None)
        # ... and so must the emulated description (wires that are neither joined directly nor through a
        # common neighbour at least two segment lengths apart: the first short segments of a wire tapered
        # from a junction break this rule once they are wires of their own)
        ok = ok and gen.validity (mb, seg_max = 1 / 10., check_junction_ratio = None) [0]
        amp = 1.0
        w   = 2 * np.pi * m.f * 1e6
        for l in spec ['loads']:
            if l ['k'] == 'trap':
                amp = max (amp, 3.0 / max (abs (1 - w * w * l ['L'] * l ['C']), 1e-9))
            elif l ['k'] == 'rlc' and l.get ('L') and l.get ('C'):
                amp = max (amp, 3.0 * (w * l ['L'] + 1 / (w * l ['C'])) / max (abs (complex (l.get ('R') or 0.0, w * l ['L'] - 1 / (w * l ['C']))), 1e-9))
        # ends joined approximately are written consolidated (that is the point of the consolidation): the
        # geometry then differs by up to the matching tolerance, which multi-source junction feeds amplify;
        # those models are judged on structure only
        if np.isfinite (cond) and cond < 1e5 and ok and not spec.get ('fuzzy'):
            mon ['feed-impedance'] = 1
            dev = max (abs (complex (a.impedance) - complex (b.impedance)) / abs (complex (a.impedance)) for a, b in zip (m.sources, mb.sources))
            # coefficients are written with six digits; resonant loads amplify that
            # and a feed current much smaller than the largest current carries their error that much enlarged
            from pmv.props import c15
            amp = max (amp, c15.load_sensitivity (spec, m.f))
            allowed = (1e-4 * amp + 1e-6 * cond) * max (1.0, observe.feed_amp (m) / 3)
            if dev > allowed:
                key = 'feed-impedance'
                msg = 'feed impedance %r, BASIC description gives %r' % (m.sources [0].impedance, mb.sources [0].impedance)
                if any (l.__class__.__name__ == 'Insulation_Load' for l in m.loads):
                    # known mechanism: Segment.i6 was computed with the bare radius before the insulation existed
                    for g in m.geo:
                        for sg in g.segments:
                            sg.i6 = (1 + np.log (16 * g.r / sg.seg_len)) / np.pi / g.r
                    m.pulses.reset ()
                    observe.solve (m)
                    dev2 = max (abs (complex (a.impedance) - complex (b.impedance)) / abs (complex (a.impedance)) for a, b in zip (m.sources, mb.sources))
                    if dev2 <= allowed:
                        key = 'stale-i6-insulated-wire'
                        msg += ' (agrees to %.2g once the exact-kernel constant of every segment is recomputed with the equivalent radius)' % dev2
                viol.append (dict (monitor = 'feed-impedance', key = key, msg = msg, measured = dev, allowed = allowed))
    emul = any (g ['k'] != 'w' or g.get ('taper') for g in spec ['geo'])
    sig  = gen.signature (spec, m, extra = ['v' + spec ['version'], spec ['lclass'], spec ['fields'], 'fuzzy' if spec.get ('fuzzy') else ''])
    nontrivial = emul or bool (spec ['loads']) or spec ['media'] is not None or any (s ['v'][1] != 0 for s in spec ['src'])
    return dict (status = 'violation' if viol else 'held', sig = sig, nontrivial = bool (nontrivial), monitors = mon, violations = viol
                , info = dict (answers = len (r ['log']), version = spec ['version']))
# end def check
