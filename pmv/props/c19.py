""" C19 - report text faithfully carries the computed values.
    Offline token checker: every numeric token of every block of the
    report is paired with the in-memory value it reports and judged by
    token kind; structural completeness; plus a direct sweep of
    format_float through its round-trip contract.
"""
import numpy as np
from pmv import common, gen, observe, instrument, corpus
from pmv.oracles import report

ID   = 'C19'
RULE = ( 'random solved models (free space / ideal / real ground, junctions, grounded ends, 1..3 sources with '
         'voltage magnitudes 1e-10..1e10, lumped and distributed loads with values over 12 decades, structures '
         'scaled from millimetres to 100 km via the frequency) printed with far field (dBi and V/m with random '
         'power and distance) and near field; every numeric token paired with its in-memory value. Tokens with '
         'an exponent: 5e-6 relative; fixed-point tokens: 5e-6 relative or 1e-6 absolute. Plus format_float swept '
         'over 1e-30..1e12, both signs, both modes, decade edges +-1 ulp. non-trivial = model case with >= 200 '
         'tokens of >= 6 blocks, or sweep chunk; distinct = feature signature incl. printed blocks'
       )
MIN_EVAL = dict (quick = 120, thorough = 2000)
ANCHORS  = ['format_float', 'Mininec.currents_as_mininec', 'Excitation.as_mininec', 'Pulse.as_mininec'
           , 'Far_Field_Pattern.db_as_mininec', 'Far_Field_Pattern.abs_gain_as_mininec', 'Mininec.near_field_e_as_mininec']
ANCHORS_REQUIRED = ['format_float', 'Mininec.currents_as_mininec', 'Far_Field_Pattern.db_as_mininec']
ASSUMPTIONS = ['tolerances are multiplied by (1 + 1e-6): half a unit of the sixth digit at 0.1 is exactly 5e-6']

def plan (tier, seed):
    n = 200 if tier == 'quick' else 3500
    k = 24 if tier == 'quick' else 200
    return [dict (kind = 'model', i = i, seed = seed) for i in range (n)] \
         + [dict (kind = 'sweep', i = i, seed = seed) for i in range (k)] \
         + [dict (c, kind = 'model') for c in corpus.plan_cases (seed, tier, 1, 3)]
# end def plan

def make (c):
    rng = np.random.default_rng ([c ['seed'], 19, c ['i']])
    if 'corpus' in c:
        spec = corpus.make (c, 19)
        rng  = corpus.rng_of (c, 19)
        return add_out (rng, spec)
    env = str (rng.choice (['free', 'free', 'ideal', 'real']))
    if env == 'free':
        spec = gen.fam_free (rng, equal_junction = True)
    else:
        med = 'ideal' if env == 'ideal' else [[float (rng.uniform (2, 80)), float (10 ** rng.uniform (-4, 1)), 0.0]]
        spec = gen.fam_ground (rng, media = med)
        if env == 'real' and c ['i'] % 2:
            gen.rand_media (np.random.default_rng ([c ['seed'], 193, c ['i']]), spec)      # 1..3 media, radials
    # stretch the whole structure over many decades of size: scale coordinates, divide frequency
    s = float (10 ** rng.uniform (-3, 3)) if rng.random () < 0.5 else 1.0
    spec ['f'] = spec ['f'] / s
    for g in spec ['geo']:
        g ['p1'] = [x * s for x in g ['p1']]
        g ['p2'] = [x * s for x in g ['p2']]
        g ['r']  = g ['r'] * s
    for fd in spec ['feeds']:
        fd ['at'] = [x * s for x in fd ['at']]
    # objects numbered by the user: in any order, with gaps (the listing shows them sorted by their numbers and names
    # them by these numbers everywhere)
    rt = np.random.default_rng ([c ['seed'], 194, c ['i']])
    if rt.random () < 0.4 and not any (g.get ('taper') for g in spec ['geo']):
        ts = [int (x) for x in rt.choice (np.arange (1, 30), size = len (spec ['geo']), replace = False)]
        for g, t in zip (spec ['geo'], ts):
            g ['tag'] = t
    gen.add_sources (rng, spec, nmax = 3)
    for sr in spec ['src']:
        k = 10 ** rng.uniform (-10, 10) if rng.random () < 0.6 else 1.0
        sr ['v'] = [sr ['v'][0] * k, sr ['v'][1] * k]
    loads = []
    if rng.random () < 0.6:
        kind = str (rng.choice (['z', 'rlc', 'lap', 'skin', 'ins']))
        att  = [['all']] if rng.random () < 0.4 else [[1]]
        ra   = np.random.default_rng ([c ['seed'], 191, c ['i']])
        if ra.random () < 0.3:
            # one load attached several times, also twice to one pulse (in series with itself): every attachment is listed
            att = att + [[int (ra.integers (1, 3))]] + ([[1]] if ra.random () < 0.5 else [])
        if kind == 'z':
            loads.append (dict (k = 'z', z = [float (10 ** rng.uniform (-6, 9)), float (rng.choice ([-1, 1]) * 10 ** rng.uniform (-9, 9))], att = att))
        elif kind == 'rlc':
            loads.append (dict (k = 'rlc', R = float (10 ** rng.uniform (-3, 4)), L = float (10 ** rng.uniform (-9, -3)), C = float (10 ** rng.uniform (-13, -7)), att = att))
        elif kind == 'lap':
            loads.append (dict (k = 'lap', a = [1.0, float (10 ** rng.uniform (-9, -6))], b = [float (10 ** rng.uniform (0, 3)), float (10 ** rng.uniform (-8, -5))], att = att))
            ro = np.random.default_rng ([c ['seed'], 192, c ['i']])
            if ro.random () < 0.6:
                # rational functions of higher order (coefficient of S^d of the size 1e-7d): up to S^5
                od = int (ro.integers (2, 6))
                loads [-1]['a'] = [1.0] + [float (10 ** (-7.0 * d + ro.uniform (-1, 1))) for d in range (1, od + 1)]
                loads [-1]['b'] = [float (10 ** ro.uniform (0, 3))] + [float (10 ** (-7.0 * d + ro.uniform (0, 3))) for d in range (1, od + 1)]
        elif kind == 'skin':
            loads.append (dict (k = 'skin', cond = float (10 ** rng.uniform (4, 8)), tag = None))
        else:
            rmax = max (g ['r'] for g in spec ['geo'])
            loads.append (dict (k = 'ins', radius = rmax * float (rng.uniform (1.2, 3)), eps = float (rng.uniform (1.5, 5)), tag = None))
    spec ['loads'] = loads
    return add_out (rng, spec)
# end def make

def add_out (rng, spec):
    lam = gen.C_MHZ / spec ['f']
    spec ['out'] = dict \
        ( opts = sorted (set (['far-field'] + [str (x) for x in rng.choice (['far-field-absolute', 'near-field', 'far-field'], size = 2)]))
        , theta = [float (rng.choice ([0, 5, 12.5, 30, 10])), float (rng.choice ([10, 22.5, 30, 0.1, 0.2])), int (rng.integers (2, 5))]
        , phi   = [float (rng.choice ([0, -45, 7.5])), float (rng.choice ([45, 90, 100, 0.1, 0.7])), int (rng.integers (1, 5))]
        , ff_pwr = None if rng.random () < 0.4 else float (10 ** rng.uniform (-12, 12))
        , ff_dist = float (10 ** rng.uniform (0, 7))
        , nf_pwr = None if rng.random () < 0.4 else float (10 ** rng.uniform (-12, 12))
        , near  = [ [float (x) for x in (rng.uniform (0.3, 3, 3) * lam * rng.choice ([-1, 1], 3))]
                  , [float (lam * 0.1)] * 3, [2, 1, int (rng.integers (1, 3))]]
        )
    return gen.clean (spec)
# end def add_out

class Judge:
    def __init__ (self):
        self.n     = 0
        self.worst = 0.0
        self.viol  = []
        self.blocks = set ()
    def tok (self, where, tok, value, integer = False):
        """ judge one token against the value it reports """
        self.n += 1
        self.blocks.add (where.split ('.') [0])
        t = tok.strip ()
        try:
            v = float (t)
        except ValueError:
            self.viol.append (dict (monitor = 'token', key = 'token-unparsable:' + where.split ('.') [0], msg = '%s: %r is not a number (value %r)' % (where, tok, value)))
            return
        value = float (value)
        if integer:
            if v != value:
                self.viol.append (dict (monitor = 'token', key = 'token-int:' + where.split ('.') [0], msg = '%s: %r for %r' % (where, tok, value)))
            return
        err = abs (v - value)
        if 'E' in t.upper ():
            allowed = 5e-6 * abs (value) * (1 + 1e-6)
        else:
            allowed = max (5e-6 * abs (value), 1e-6) * (1 + 1e-6)
        if value == 0:
            allowed = 1e-6 if 'E' not in t.upper () else 0.0
        m = err / allowed if allowed else (0.0 if err == 0 else np.inf)
        self.worst = max (self.worst, m)
        if not (err <= allowed):
            self.viol.append (dict ( monitor = 'token', key = 'token-value:' + where.split ('.') [0]
                                   , msg = '%s: token %r reports %r (error %.3g, allowed %.3g)' % (where, tok, value, err, allowed)
                                   , measured = err, allowed = allowed))
    def cplx (self, where, toks, z):
        """ re, im, mag, phase tokens of complex z """
        z = complex (z)
        self.tok (where + '.re', toks [0], z.real)
        self.tok (where + '.im', toks [1], z.imag)
        if len (toks) > 2:
            self.tok (where + '.mag', toks [2], abs (z))
            if abs (z) >= 1e-30:
                ph = np.degrees (np.angle (z))
                pv = float (toks [3])
                d  = abs ((pv - ph + 180) % 360 - 180)
                self.n += 1
                if d > 1e-4 + 5e-6 * abs (ph):
                    self.viol.append (dict (monitor = 'token', key = 'token-phase:' + where.split ('.') [0]
                                           , msg = '%s: phase token %r for %r deg' % (where, toks [3], ph)))
                # magnitude / phase columns agree with the real / imaginary columns
                try:
                    zr = complex (float (toks [0]), float (toks [1]))
                    if abs (abs (zr) - float (toks [2])) > 1.5e-5 * abs (zr) + 2e-6 * ('E' not in toks [2].upper ()):
                        self.viol.append (dict (monitor = 'token', key = 'mag-vs-re-im:' + where.split ('.') [0]
                                               , msg = '%s: magnitude %r vs re/im %r %r' % (where, toks [2], toks [0], toks [1])))
                except ValueError:
                    pass
# end class Judge

def check_model (spec):
    MM = common.repo ()
    m  = gen.build (spec)
    observe.solve (m)
    if not np.isfinite (m.current).all ():
        return dict (status = 'discard', reason = 'non-finite currents')
    if not (m.power > 0):
        return dict (status = 'discard', reason = 'sources deliver no net power (fields cannot be scaled to a power level)')
    o    = spec ['out']
    opts = set (o ['opts'])
    zen  = MM.Angle (*o ['theta'])
    azi  = MM.Angle (*o ['phi'])
    if 'near-field' in opts:
        kw = {} if o ['nf_pwr'] is None else dict (pwr = o ['nf_pwr'])
        common.guarded (lambda: m.compute_near_field (o ['near'][0], o ['near'][1], o ['near'][2], **kw), 'compute_near_field')
    kw = {}
    if 'far-field-absolute' in opts:
        kw ['dist'] = o ['ff_dist']
        if o ['ff_pwr'] is not None:
            kw ['pwr'] = o ['ff_pwr']
    common.guarded (lambda: m.compute_far_field (zen, azi, **kw), 'compute_far_field')
    # the report is written twice from the same results; the second copy is the one that is judged token by token
    text0 = common.guarded (lambda: m.as_mininec (opts), 'as_mininec')
    text = common.guarded (lambda: m.as_mininec (opts), 'as_mininec')
    rep  = report.parse (text)
    J    = Judge ()
    viol = J.viol
    if text0 != text:
        la, lb = text0.split ('\n'), text.split ('\n')
        viol.append (dict (monitor = 'second-copy', key = 'report-second-copy', msg = 'the report written a second time from the same results differs: %r' % ([(x, y) for x, y in zip (la, lb) if x != y] [:2],)))
    def bad (key, msg):
        viol.append (dict (monitor = 'structure', key = key, msg = msg))
    if rep ['leftovers']:
        bad ('unparsed-lines', 'lines outside the known block structure: %r' % rep ['leftovers'][:3])
    # ---- header
    J.tok ('header.freq', rep.get ('freq', 'x'), m.f)
    J.tok ('header.wavelen', rep.get ('wavelen', 'x'), m.wavelen)
    if m.media and not m.media [0].is_ideal:
        if len (rep ['media']) != len (m.media):
            bad ('media-count', '%d media printed for %d' % (len (rep ['media']), len (m.media)))
        for rm, mm in zip (rep ['media'], m.media):
            J.tok ('media.eps', rm ['eps'], mm.permittivity)
            J.tok ('media.sigma', rm ['sigma'], mm.conductivity)
        # type of boundary (1 linear, 2 circular) whenever there is more than one medium
        if len (m.media) > 1:
            want = {'linear': 1, 'circular': 2}.get (str (m.media [0].boundary))
            try:
                got = int (str (rep.get ('boundary', '')).split () [0])
            except (ValueError, IndexError):
                got = None
            J.n += 1
            if got != want:
                bad ('media-lines', 'TYPE OF BOUNDARY printed as %r, the ground has a %s boundary' % (rep.get ('boundary'), m.media [0].boundary))
        # interface coordinate of every medium but the last, height of every medium but the first, radial screen
        for k, (rm, mm) in enumerate (zip (rep ['media'], m.media)):
            last, first = k == len (m.media) - 1, k == 0
            for fld, present, val in (('coord', not last, mm.coord), ('height', not first, mm.height)
                                     , ('nradials', bool (mm.nradials), mm.nradials), ('radius', bool (mm.nradials), mm.radius)):
                if present != (fld in rm):
                    bad ('media-lines', 'medium %d of %d: %s line %s' % (k + 1, len (m.media), fld, 'missing' if present else 'printed though it does not apply'))
                elif present:
                    J.tok ('media.' + fld, rm [fld], val, integer = (fld == 'nradials'))
    # ---- objects
    if len (rep ['objects']) != len (m.geo) or int (rep.get ('nobjects', -1)) != len (m.geo):
        bad ('object-count', '%d object blocks for %d objects' % (len (rep ['objects']), len (m.geo)))
    for ro, g in zip (rep ['objects'], m.geo):
        if 'p1' not in ro:
            bad ('object-block', 'malformed object block %r' % ro ['lines'])
            continue
        for k in range (3):
            J.tok ('objects.p1', ro ['p1'][k], g.p1 [k])
            J.tok ('objects.p2', ro ['p2'][k], g.p2 [k])
        J.tok ('objects.r', ro ['r'], g.r_orig)
        J.tok ('objects.nseg', ro ['nseg'], g.n_segments, integer = True)
        J.tok ('objects.tag', ro ['tag'], g.tag, integer = True)
        # END CONNECTION: minus the object's own number for an end on the ground plane, 0 for a free end, else the
        # number of an object defined before it that has an end there (negative when the two run against each other)
        tol_c = 1e-3 * min (float (sg.seg_len) for x in m.geo for sg in x.segments)
        def end_pt (x, e):
            return np.asarray (x.segments [0].p1 if e == 0 else x.segments [-1].p2, float)
        for e, key in ((0, 'ltag'), (1, 'rtag')):
            try:
                val = int (ro [key])
            except ValueError:
                bad ('objects.conn', 'object %s: END CONNECTION %r is not a whole number' % (g.tag, ro [key]))
                continue
            P = end_pt (g, e)
            # (as in the original program an end is listed as connected to objects defined before it - or to its own other end)
            near = [x.tag for x in m.geo for e2 in (0, 1) if (x.tag < g.tag or (x is g and e2 != e)) and np.linalg.norm (end_pt (x, e2) - P) <= 1.05 * tol_c]
            J.n += 1
            if m.media is not None and abs (P [2]) < tol_c and g.is_ground [e]:
                if val != -g.tag:
                    bad ('objects.conn', 'object %s: end %d lies on the ground plane, END CONNECTION is %d instead of %d' % (g.tag, e + 1, val, -g.tag))
            elif not near:
                if val != 0:
                    bad ('objects.conn', 'object %s: end %d meets no end of an earlier object, END CONNECTION is %d' % (g.tag, e + 1, val))
            elif abs (val) not in near:
                bad ('objects.conn', 'object %s: end %d meets objects %s, END CONNECTION is %d' % (g.tag, e + 1, sorted (set (near)), val))
    # ---- geometry table: one row per pulse in its object's block
    if len (rep ['geometry']) != len (m.geo):
        bad ('geometry-blocks', '%d geometry blocks for %d objects' % (len (rep ['geometry']), len (m.geo)))
    for rb, g in zip (rep ['geometry'], m.geo):
        ps = list (g.pulses)
        if len (rb ['rows']) != len (ps):
            bad ('geometry-rows', 'object %s: %d rows for %d pulses' % (g.tag, len (rb ['rows']), len (ps)))
            continue
        for r, p in zip (rb ['rows'], ps):
            for k, c in enumerate ('xyz'):
                J.tok ('geometry.' + c, r [c], p.point [k])
            # the row stands in the block of the object that owns the pulse: its radius
            J.tok ('geometry.r', r ['r'], g.r_orig)
            J.tok ('geometry.no', r ['no'], p.idx + 1, integer = True)
    # ---- sources
    if len (rep ['sources_short']) != len (m.sources) or len (rep ['source_data']) != len (m.sources) \
       or int (rep.get ('nsources', -1)) != len (m.sources):
        bad ('source-blocks', '%d source lines, %d source blocks for %d sources' % (len (rep ['sources_short']), len (rep ['source_data']), len (m.sources)))
    for rs, s in zip (rep ['sources_short'], m.sources):
        J.tok ('sources.pulse', rs ['pulse'], s.idx + 1, integer = True)
        J.tok ('sources.mag', rs ['mag'], abs (s.voltage))
        if abs (s.voltage) > 0:
            ph = np.degrees (np.angle (s.voltage))
            d  = abs ((float (rs ['phase']) - ph + 180) % 360 - 180)
            J.n += 1
            if d > 1e-4 + 5e-6 * abs (ph):
                viol.append (dict (monitor = 'token', key = 'token-phase:sources', msg = 'source phase %r for %r deg' % (rs ['phase'], ph)))
    for rd, s in zip (rep ['source_data'], m.sources):
        J.tok ('srcdata.pulse', rd ['pulse'], s.idx + 1, integer = True)
        for nm, z in (('v', s.voltage), ('i', s.current), ('z', s.impedance)):
            if nm not in rd:
                bad ('source-block-incomplete', 'source block without %s' % nm)
                continue
            J.cplx ('srcdata.' + nm, rd [nm], z)
        J.tok ('srcdata.p', rd.get ('p', 'x'), s.power)
    # ---- loads: one line per loaded pulse
    want = [(l, p) for l in m.loads for p in l.pulses]
    if len (rep ['loads']) != len (want) or int (rep.get ('nloads', -1)) != len (want):
        bad ('load-lines', '%d load lines (NUMBER OF LOADS %s) for %d loaded pulses' % (len (rep ['loads']), rep.get ('nloads'), len (want)))
    else:
        for rl, (l, p) in zip (rep ['loads'], want):
            J.tok ('loads.pulse', rl ['pulse'], p.idx + 1, integer = True)
            if rl ['kind'] == 'z':
                z = l.impedance (m.f, p)
                J.tok ('loads.r', rl ['r'], z.real)
                J.tok ('loads.x', rl ['x'], z.imag)
            else:
                for d, (b, a) in enumerate (rl ['coeff']):
                    J.tok ('loads.b', b.upper (), l.b [d] * 10 ** (6 * d))
                    J.tok ('loads.a', a.upper (), l.a [d] * 10 ** (6 * d))
    # ---- currents: one row per (non-junction) pulse in its object's block
    if len (rep ['currents']) != len (m.geo):
        bad ('current-blocks', '%d current blocks for %d objects' % (len (rep ['currents']), len (m.geo)))
    seen = set ()
    for rb, g in zip (rep ['currents'], m.geo):
        ps = [p for p in g.pulses if p.geo [0] is p.geo [1]]
        rows = [r for r in rb ['rows'] if r ['kind'] == 'P']
        if len (rows) != len (ps):
            bad ('current-rows', 'object %s: %d current rows for %d pulses' % (g.tag, len (rows), len (ps)))
            continue
        for r, p in zip (rows, ps):
            J.tok ('currents.no', r ['no'], p.idx + 1, integer = True)
            J.cplx ('currents', [r ['re'], r ['im'], r ['mag'], r ['ph']], m.current [p.idx])
            seen.add (p.idx)
        for r in rb ['rows']:
            if r ['kind'] == 'J':
                try:
                    z = complex (float (r ['re']), float (r ['im']))
                    J.n += 1
                    if abs (abs (z) - float (r ['mag'])) > 1.5e-5 * abs (z) + 1e-12:
                        viol.append (dict (monitor = 'token', key = 'mag-vs-re-im:currents', msg = 'J line magnitude %r vs %r %r' % (r ['mag'], r ['re'], r ['im'])))
                except ValueError:
                    bad ('current-J-unparsable', repr (r))
    # ---- far field (dBi)
    if 'far-field' in opts:
        ff = rep ['far']
        nt, nph = o ['theta'][2], o ['phi'][2]
        if ff is None or len (ff ['rows']) != nt * nph:
            bad ('far-rows', 'dBi table has %s rows for %d x %d' % (None if ff is None else len (ff ['rows']), nt, nph))
        else:
            g = m.far_field.gain
            k = 0
            for ip in range (nph):
                for it in range (nt):
                    row = ff ['rows'][k]
                    k  += 1
                    J.tok ('far.theta', row [0], o ['theta'][0] + it * o ['theta'][1])
                    J.tok ('far.phi', row [1], o ['phi'][0] + ip * o ['phi'][1])
                    for c in range (3):
                        J.tok ('far.db', row [2 + c], g [it, ip, c])
            for nm, tk, a in (('zen', ff ['zen'], o ['theta']), ('azi', ff ['azi'], o ['phi'])):
                for x, y in zip (tk, a):
                    J.tok ('far.hdr', x, y)
    # ---- far field (V/m): printed with %.3E / %.2f (known finding when inside that format)
    if 'far-field-absolute' in opts:
        fa = rep ['far_abs']
        nt, nph = o ['theta'][2], o ['phi'][2]
        if fa is None or len (fa ['rows']) != nt * nph:
            bad ('far-abs-rows', 'V/m table has %s rows for %d x %d' % (None if fa is None else len (fa ['rows']), nt, nph))
        else:
            et = np.asarray (m.far_field.e_theta)
            ep = np.asarray (m.far_field.e_phi)
            k = 0
            coarse = 0
            for ip in range (nph):
                for it in range (nt):
                    row = fa ['rows'][k]
                    k  += 1
                    for tk, z in ((row [2], et [ip, it]), (row [4], ep [ip, it])):
                        v = float (tk)
                        a = abs (z)
                        J.n += 1
                        if abs (v - a) > 5.0001e-4 * a + 1e-300:
                            viol.append (dict (monitor = 'token', key = 'token-value:far_abs', msg = 'V/m token %r for %r' % (tk, a)))
                        elif abs (v - a) > 5e-6 * a * (1 + 1e-6):
                            coarse += 1
                    for tk, z in ((row [3], et [ip, it]), (row [5], ep [ip, it])):
                        if abs (z) > 1e-30:
                            ph = np.degrees (np.angle (z))
                            d  = abs ((float (tk) - ph + 180) % 360 - 180)
                            J.n += 1
                            if d > 5.001e-3:
                                viol.append (dict (monitor = 'token', key = 'token-phase:far_abs', msg = 'V/m phase %r for %r' % (tk, ph)))
                            elif d > 1e-4 + 5e-6 * abs (ph):
                                coarse += 1
            if coarse:
                viol.append (dict (monitor = 'token', key = 'vm-table-four-digits'
                                  , msg = '%d tokens of the V/m table carry only four significant digits (%%.3E / %%.2f)' % coarse))
            J.tok ('far_abs.dist', fa.get ('dist', 'x'), o ['ff_dist'])
            J.tok ('far_abs.power', fa.get ('power', 'x'), m.ff_power)
    # ---- near field
    if 'near-field' in opts:
        npts = int (np.prod (o ['near'][2]))
        for name, pts, vals in (('near_e', rep ['near_e'], m.e_field), ('near_h', rep ['near_h'], m.h_field)):
            if len (pts) != npts:
                bad ('near-points', '%s: %d points for %d' % (name, len (pts), npts))
                continue
            for pt, val, xyz in zip (pts, vals, np.asarray (m.near_field_coord).T):
                if pt ['point'] is None or len (pt ['comps']) != 3 or pt ['peak'] is None:
                    bad ('near-block', 'incomplete near-field block')
                    continue
                for k in range (3):
                    J.tok (name + '.point', pt ['point'][k], xyz [k])
                for c, z in zip (pt ['comps'], val):
                    J.cplx (name, [c ['re'], c ['im'], c ['mag'], c ['ph']], z)
                # peak field: sqrt ((sum |v|^2 + |sum v^2|) / 2)
                v  = np.asarray (val)
                pk = np.sqrt ((np.sum (np.abs (v) ** 2) + abs (np.sum (v ** 2))) / 2)
                J.tok (name + '.peak', pt ['peak'], pk)
        if len (rep ['near_hdr']) >= 1:
            for k, ax in enumerate ('XYZ'):
                h = rep ['near_hdr'][0].get (ax)
                if h:
                    J.tok ('near_hdr.start', h [0], o ['near'][0][k])
                    J.tok ('near_hdr.inc', h [1], o ['near'][1][k])
                    J.tok ('near_hdr.n', h [2], o ['near'][2][k], integer = True)
    # ---- the same object solved again with other source voltages: the current table printed afterwards
    # shows the new currents in all four columns
    src = [(s_.idx, complex (s_.voltage)) for s_ in m.sources]
    m.sources = []
    for idx, v in src:
        common.guarded (lambda: m.register_source (MM.Excitation (v * (0.3 - 1.7j)), idx), 'register_source')
    observe.solve (m)
    rep2 = report.parse (common.guarded (m.currents_as_mininec, 'currents_as_mininec'))
    if len (rep2 ['currents']) != len (m.geo):
        bad ('current-blocks', 'after a second solve: %d current blocks for %d objects' % (len (rep2 ['currents']), len (m.geo)))
    for rb, g in zip (rep2 ['currents'], m.geo):
        ps = [p for p in g.pulses if p.geo [0] is p.geo [1]]
        rows = [r for r in rb ['rows'] if r ['kind'] == 'P']
        if len (rows) == len (ps):
            for r, p in zip (rows, ps):
                J.cplx ('currents.again', [r ['re'], r ['im'], r ['mag'], r ['ph']], m.current [p.idx])
    sig = gen.signature (spec, m, extra = ['+'.join (sorted (J.blocks))])
    return dict ( status = 'violation' if viol else 'held', sig = sig
                , nontrivial = J.n >= 200 and len (J.blocks) >= 6, margin = J.worst
                , monitors = dict (tokens = J.n), violations = viol [:8]
                , info = dict (tokens = J.n, blocks = sorted (J.blocks)))
# end def check_model

def check_sweep (c):
    import mininec.util as UT
    rng  = np.random.default_rng ([c ['seed'], 191, c ['i']])
    vals = list (10 ** rng.uniform (-30, 12, 600) * rng.choice ([-1, 1], 600))
    for d in range (-30, 13):
        x = 10.0 ** d
        vals += [x, np.nextafter (x, 0), np.nextafter (x, np.inf), -x, 9.9999995 * x, 9.99999949 * x, 0.99999995 * x, 1.0000005 * x]
    vals += [0.0, 0.1, 0.09999999, 0.10000001, 123456.75, 1234567.5, 12345678.5, 99999.995, 0.5, -0.5]
    before = instrument.EVALS ['format_float.roundtrip']
    for use_e in (0, 1):
        for k in range (0, len (vals), 7):
            common.guarded (lambda: UT.format_float (tuple (vals [k:k + 7]), use_e), 'format_float')
    n = instrument.EVALS ['format_float.roundtrip'] - before
    if n == 0:
        return dict (status = 'inconclusive', reason = 'format_float contract not evaluated')
    return dict ( status = 'held', sig = 'sweep|%d' % (c ['i'] % 8), nontrivial = True
                , monitors = {'contract:format_float.roundtrip': n, 'values': 2 * len (vals)})
# end def check_sweep

def check (c):
    if c.get ('kind') == 'sweep':
        return check_sweep (c)
    spec = c if 'geo' in c else make (c)
    return check_model (spec)
# end def check
