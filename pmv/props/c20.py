""" C20 - the command line is fail-safe: complete finite report, or
    one-line diagnostic with return value 23 and no report, or the
    option parser's usage error. Grammar-based fuzzer over main (argv):
    valid generated command lines with 1..3 hostile substitutions, plus a
    stratum of purely random option soup. Outcome classifier keyed by
    mechanism (exception type @ innermost repository function, or kind of
    malformed output).
"""
import os, re, shutil, tempfile
import numpy as np
from pmv import common, gen
from pmv.oracles import report

ID   = 'C20'
RULE = ( 'valid generated command lines (all geometry kinds, media forms, sources, every load kind, transforms, '
         'taper, field requests, sweeps, output files) mutated by 1..3 hostile substitutions (0, negative, huge, '
         'tiny, nan, inf, empty, non-numeric, wrong arity, unknown / zero / negative tags, missing companion option, '
         'duplicate / degenerate / below-ground geometry) + 10 % random option soup. Outcome classes: complete finite '
         'report | one-line diagnostic, return 23, no report | usage error. non-trivial = mutated case that reached '
         'option processing beyond argparse; distinct = (outcome class, sorted mutated option names)'
       )
MIN_EVAL = dict (quick = 5000, thorough = 60000)
ANCHORS  = ['main', 'Medium.__init__', 'Wire.__init__', 'Arc.__init__', 'Helix.__init__', 'taper1', 'taper2', 'Mininec.check_ground']
ANCHORS_REQUIRED = ['main']
CASE_TIMEOUT = 12      # seconds; a normal case takes well under one second
MEM_LIMIT_GB = 6
ASSUMPTIONS = ['a usage error is SystemExit (2) raised by argparse', 'report completeness: known block structure, no unparsed lines, no nan/inf text']

HOSTILE = ['1.7e308+1.7e308j', '1' + '0' * 400, '0', '-1', '1', '1e300', '-1e300', '1e-300', '1e155', '1e-155', '3e153', 'nan', 'inf', '-inf', '', 'abc', '1e9', '-0.0', '0.5', '2', '1e-9', '99999999999', '-7']
TAGS    = ['0', '-1', '99', '1', '2', '3', 'x', '']

# ---- enumerated stratum: every field of every option form x every hostile value, one at a time,
# on fixed valid base command lines (plus: field dropped, extra field appended)
BASES = dict \
    ( free  = [['-f', '7.1'], ['-w', '1,6,0,0,0,0,0,10,0.01'], ['-w', '2,4,0,0,10,6,0,10,0.01'], ['--excitation-pulse', '2']
              , ['--theta', '0,45,2'], ['--phi', '0,90,2']]
    , gnd   = [['-f', '7.1'], ['-w', '1,6,0,0,0,0,0,10,0.01'], ['-w', '2,4,0,0,10,6,0,10,0.01'], ['--excitation-pulse', '1']
              , ['--medium', '13,0.005,0,20'], ['--medium', '5,0.001,-1'], ['--boundary', 'circular']
              , ['--theta', '0,45,2'], ['--phi', '0,90,2']]
    )
FORMS = \
    [ ('free', [['-f', '7.1']], 1)
    , ('free', [['-w', '3,5,20,0,0,20,0,8,0.01']], 0)
    , ('free', [['-w', '5,20,0,0,20,0,8,0.01']], 0)
    , ('free', [['-a', '3,5,4,0,90,0.01']], 0)
    , ('free', [['-a', '5,4,0,90,0.01'], ['--geo-translate', '1,40,0,0,3']], 0)
    , ('free', [['--helix', '3,10,4,2,0.01,1,1,0.8,0.8'], ['--geo-translate', '1,40,0,0,3']], 0)
    , ('free', [['--helix', '10,4,2,0.01,1,1']], 0)
    , ('gnd',  [['--medium', '13,0.005,0,20']], 1)
    , ('gnd',  [['--medium', '5,0.001,-1']], 1)
    , ('gnd',  [['--radial-count', '8'], ['--radial-radius', '0.001']], 0)
    , ('gnd',  [['--radial-count', '8'], ['--radial-radius', '0.001']], 0, 1)
    , ('free', [['--excitation-pulse', '2']], 1)
    , ('free', [['--excitation-pulse', '2,1']], 1)
    , ('free', [['--excitation-voltage', '1+1j']], 0)
    , ('free', [['-l', '50+5j'], ['--attach-load', '1,2']], 0)
    , ('free', [['--rlc-load', '5,1e-6,1e-10'], ['--attach-load', '1,2']], 0)
    , ('free', [['--trap-load', '1,1e-6,1e-10'], ['--attach-load', '1,2']], 0)
    , ('free', [['--laplace-load-a', '1,1e-7'], ['--laplace-load-b', '10,1e-6'], ['--attach-load', '1,2']], 0)
    , ('free', [['--laplace-load-b', '10,1e-6'], ['--laplace-load-a', '1,1e-7'], ['--attach-load', '1,2']], 0)
    , ('free', [['--laplace-load-a', '1'], ['--laplace-load-b', '10,1e-6'], ['--attach-load', '1,2']], 0)
    , ('free', [['--laplace-load-b', '50'], ['--laplace-load-a', '1,1e-7'], ['--attach-load', '1,all']], 0)
    , ('free', [['--attach-load', '1,2'], ['-l', '50']], 0)
    , ('free', [['--attach-load', '1,2,2'], ['-l', '50']], 0)
    , ('free', [['--attach-load', '1,all'], ['-l', '50']], 0)
    , ('free', [['--attach-load', '1,all,2'], ['-l', '50']], 0)
    , ('gnd',  [['--attach-load', '1,1'], ['-l', '50']], 0)
    , ('free', [['--skin-effect-conductivity', '5.8e7']], 0)
    , ('free', [['--skin-effect-conductivity', '5.8e7,2']], 0)
    , ('free', [['--skin-effect-resistivity', '1.7e-8']], 0)
    , ('free', [['--skin-effect-resistivity', '1.7e-8,1']], 0)
    , ('free', [['--insulation-load', '0.02,2.5']], 0)
    , ('free', [['--insulation-load', '0.02,2.5,2']], 0)
    , ('free', [['--taper-wire', '1,3']], 0)
    , ('free', [['--taper-wire', '1,1,0.2,3']], 0)
    , ('free', [['--taper-wire', '2,2,0.2']], 0)
    , ('free', [['--geo-rotate', '1,10,20,30']], 0)
    , ('free', [['--geo-rotate', '1,10,20,30,2']], 0)
    , ('free', [['--geo-translate', '2,1,2,3']], 0)
    , ('gnd',  [['--geo-translate', '2,1,2,3,2']], 0)
    , ('free', [['--geo-scale', '2']], 0)
    , ('free', [['--geo-scale', '2,1']], 0)
    , ('free', [['--theta', '0,45,2']], 1)
    , ('free', [['--phi', '0,90,2']], 1)
    , ('gnd',  [['--theta', '0,45,2']], 1)
    , ('free', [['--near-field', '15,15,15,1,1,1,2,1,1']], 0)
    , ('free', [['--near-field', '15,15,15,1,1,1,2,1,1'], ['--nf-power', '10']], 0, 1)
    , ('free', [['--ff-power', '10'], ['--ff-distance', '100'], ['--option', 'far-field-absolute']], 0)
    , ('free', [['--ff-distance', '100'], ['--ff-power', '10'], ['--option', 'far-field-absolute']], 0)
    , ('free', [['--frequency-steps', '2'], ['--frequency-increment', '0.1']], 0)
    , ('free', [['--frequency-increment', '0.1'], ['--frequency-steps', '2']], 0)
    , ('gnd',  [['--frequency-steps', '2'], ['--frequency-increment', '0.1'], ['--near-field', '15,15,15,1,1,1,2,1,1']], 0)
    ]

def enum_cases ():
    out = []
    for form in FORMS:
        base, groups, replace = form [0], form [1], form [2]
        gi = form [3] if len (form) > 3 else 0
        parts = groups [gi][1].split (',')
        for j in range (len (parts)):
            for h in HOSTILE + ['99', 'all']:
                out.append (dict (kind = 'enum', base = base, groups = groups, replace = replace, gi = gi, j = j, h = h))
        for j in range (len (parts)):
            out.append (dict (kind = 'enum', base = base, groups = groups, replace = replace, gi = gi, j = j, h = None))   # drop field
        for h in ('1', '0', 'x'):
            out.append (dict (kind = 'enum', base = base, groups = groups, replace = replace, gi = gi, j = len (parts), h = h))  # extra field
    return out
# end def enum_cases

# ---- magnitude ladder: one scalable field swept over the decades where squares, cubes and fourth
# powers of a double leave the finite range (10^+-308, +-154, +-103, +-77), on runs that print every table
LADDER_BASE = [['-f', '7.1'], ['-w', '10,0,0,0,0,0,1,0.001'], ['--excitation-pulse', '5'], ['--excitation-voltage', '1']
              , ['--near-field', '0.05,0,0.5,1,1,1,1,1,2'], ['--option', 'near-field'], ['--option', 'far-field']
              , ['--option', 'far-field-absolute'], ['--ff-distance', '100'], ['--theta', '10,40,3'], ['--phi', '0,90,2']]
LADDER_FIELDS = \
    [ ('--excitation-voltage', None, '%s'), ('--excitation-voltage', None, '%sj'), ('--excitation-voltage', None, '1+%sj')
    , ('--nf-power', None, '%s'), ('--ff-power', None, '%s'), ('--ff-distance', None, '%s'), ('-f', None, '%s')
    , ('--geo-scale', None, '%s'), ('-w', 7, '%s'), ('-w', 6, '%s'), ('--near-field', 0, '%s'), ('--near-field', 2, '%s')
    , ('--skin-effect-conductivity', None, '%s'), ('-l', None, '%s'), ('-l', None, '1+%sj'), ('--insulation-load', 0, '%s')
    , ('--insulation-load', 1, '%s'), ('--medium', 0, '%s'), ('--medium', 1, '%s')
    ]
LADDER_EXTRA = {'-l': [['--attach-load', '1,all']], '--medium': [], '--insulation-load': []}
LADDER_DEFAULT = {'--insulation-load': '0.002,2.5', '--medium': '13,0.005,0', '-l': '50'}

def ladder_exponents (tier):
    if tier == 'quick':
        ks = list (range (74, 81)) + list (range (100, 107)) + list (range (150, 159)) + list (range (300, 311))
    else:
        ks = list (range (1, 312))
    return [k for k in ks] + [-k for k in ks]

def ladder_cases (tier):
    return [dict (kind = 'ladder', fi = fi, k = k, m = m) for fi in range (len (LADDER_FIELDS)) for k in ladder_exponents (tier)
            for m in (('1', '3') if tier == 'thorough' else ('1',))]

def make_ladder (c):
    opt, j, fmt = LADDER_FIELDS [c ['fi']]
    val  = fmt % ('%se%d' % (c ['m'], c ['k']))
    base = [list (g) for g in LADDER_BASE]
    hit  = [g for g in base if g [0] == opt]
    if hit:
        g = hit [0]
    else:
        g = [opt, LADDER_DEFAULT.get (opt, '1')]
        base.append (g)
        base.extend ([list (x) for x in LADDER_EXTRA.get (opt, [])])
    if j is None:
        g [1] = val
    else:
        parts = g [1].split (',')
        parts [j] = val
        g [1] = ','.join (parts)
    return dict (groups = base, mutated = ['%s[%s]=1e%s' % (opt, j, ('+' if c ['k'] > 0 else '-') + str (abs (c ['k']) // 10 * 10))], kind = 'ladder')
# end def make_ladder

def make_enum (c):
    groups = [list (g) for g in c ['groups']]
    parts  = groups [c ['gi']][1].split (',')
    if c ['h'] is None:
        parts.pop (c ['j'])
    elif c ['j'] >= len (parts):
        parts.append (c ['h'])
    else:
        parts [c ['j']] = c ['h']
    groups [c ['gi']][1] = ','.join (parts)
    base = [list (g) for g in BASES [c ['base']]]
    if c ['replace']:
        o = groups [c ['gi']][0]
        done = False
        nb = []
        for g in base:
            if g [0] == o and not done and (o != '--medium' or g [1].startswith (c ['groups'][c ['gi']][1][:2])):
                nb.append (groups [c ['gi']])
                done = True
            else:
                nb.append (g)
        base = nb + [g for k, g in enumerate (groups) if k != c ['gi']]
    else:
        base = base + groups
    name = '%s[%d]=%s' % (groups [c ['gi']][0], c ['j'], 'drop' if c ['h'] is None else c ['h'])
    return dict (groups = base, mutated = [name], kind = 'enum')
# end def make_enum

# ---- fixed stratum: valid command lines combining options that interact (every one must give a
# complete finite report)
W2 = [['-f', '7.1'], ['-w', '6,0,0,0,0,0,10,0.01'], ['-w', '4,0,0,10,6,0,10,0.01'], ['--excitation-pulse', '1']]
FIXED = \
    [ W2 + [['--medium', '13,0.005,0,20'], ['--medium', '5,0.001,-1'], ['--radial-count', '16'], ['--radial-radius', '0.001'], ['--option', 'far-field-absolute'], ['--ff-distance', '1000']]
    , W2 + [['--medium', '13,0.005,0,20'], ['--medium', '5,0.001,-1'], ['--radial-count', '16'], ['--radial-radius', '0.001'], ['--boundary', 'linear'], ['--option', 'far-field-absolute'], ['--ff-distance', '1000'], ['--ff-power', '100']]
    , W2 + [['--medium', '13,0.005,0,20'], ['--medium', '5,0.001,-1'], ['--radial-count', '16'], ['--radial-radius', '0.001'], ['--boundary', 'circular'], ['--option', 'far-field-absolute'], ['--ff-distance', '1000']]
    , W2 + [['--medium', '13,0.005,0,20'], ['--medium', '5,0.001,-1'], ['--boundary', 'circular'], ['--option', 'far-field-absolute'], ['--option', 'far-field'], ['--ff-distance', '10']]
    , W2 + [['--medium', '13,0.005,0,5'], ['--medium', '5,0.001,-1,30'], ['--medium', '20,0.01,-2'], ['--theta', '0,15,7'], ['--phi', '0,30,13']]
    , W2 + [['--medium', '0,0,0'], ['--near-field', '15,15,15,1,1,1,2,2,1'], ['--option', 'near-field'], ['--option', 'far-field'], ['--nf-power', '100']]
    , W2 + [['--medium', '13,0.005,0'], ['--frequency-steps', '3'], ['--frequency-increment', '0.05'], ['--skin-effect-conductivity', '5.8e7'], ['--insulation-load', '0.02,2.5,2']]
    , W2 [:3] + [['--excitation-pulse', '2'], ['--excitation-pulse', '1,2'], ['--excitation-voltage', '1+1j'], ['--excitation-voltage', '0.5j'], ['--theta', '90,-10,10'], ['--phi', '0,-45,8']]
    , W2 + [['-l', '50-20j'], ['--rlc-load', '5,1e-6,'], ['--trap-load', '1,1e-6,1e-10'], ['--laplace-load-a', '1,1e-7'], ['--laplace-load-b', '10,1e-6'], ['--attach-load', '4,1'], ['--attach-load', '1,all'], ['--attach-load', '3,2,2'], ['--attach-load', '2,all,1']]
    , [['-f', '14.2'], ['-a', '8,2,0,180,0.005'], ['--helix', '12,3,1.5,0.005,0.5,0.5,0.3,0.3'], ['--geo-translate', '1,10,0,0,2'], ['--geo-rotate', '2,10,20,30'], ['--geo-scale', '0.5'], ['--excitation-pulse', '3,1']]
    , [['-f', '14.2'], ['-w', '1,8,0,0,0,0,0,5,0.01'], ['--taper-wire', '1,3,0.1,2'], ['--medium', '0,0,0'], ['--excitation-pulse', '1'], ['--output-cmdline', '@TMP@/o.pym'], ['--output-basic-input', '@TMP@/o.mini'], ['--mininec-version', '13']]
    , [['-T', None]] + W2
    ]

# ---- boundary stratum: argument lists that sit exactly on a validation boundary (any of the three outcomes
# is acceptable, a traceback or a non-finite number is not)
E1 = [['-f', '7.1'], ['-w', '6,0,0,0,0,0,10,0.01'], ['-w', '4,0,0,10,6,0,10,0.01']]       # 9 pulses, tags 1 and 2
EDGE = \
    [ E1 + [['--frequency-steps', '3'], ['--frequency-increment', '-3.55']]                       # sweep ends exactly at 0 MHz
    , E1 + [['--frequency-steps', '2'], ['--frequency-increment', '-7.1']]
    , E1 + [['--frequency-steps', '3'], ['--frequency-increment', '-3.5']]                        # ends just above 0
    , E1 + [['--frequency-steps', '1'], ['--frequency-increment', '-100']]
    , E1 + [['--frequency-steps', '0']]
    , E1 + [['--excitation-pulse', '9']], E1 + [['--excitation-pulse', '10']], E1 + [['--excitation-pulse', '0']]
    , E1 + [['--excitation-pulse', '5,1']], E1 + [['--excitation-pulse', '6,1']], E1 + [['--excitation-pulse', '4,2']], E1 + [['--excitation-pulse', '5,2']]
    , E1 + [['--excitation-pulse', '1,3']], E1 + [['--excitation-pulse', '1,0']]
    , E1 + [['-l', '50'], ['--attach-load', '1,9']], E1 + [['-l', '50'], ['--attach-load', '1,10']], E1 + [['-l', '50'], ['--attach-load', '1,0']]
    , E1 + [['-l', '50'], ['--attach-load', '1,5,1']], E1 + [['-l', '50'], ['--attach-load', '1,6,1']], E1 + [['-l', '50'], ['--attach-load', '1,all,3']]
    , E1 + [['-l', '50'], ['--attach-load', '2,1']], E1 + [['-l', '50'], ['--attach-load', '0,1']], E1 + [['-l', '50']]
    , E1 + [['-l', '50'], ['-l', '75'], ['--attach-load', '2,1'], ['--attach-load', '1,1']]
    , E1 + [['--skin-effect-conductivity', '5.8e7,2']], E1 + [['--skin-effect-conductivity', '5.8e7,3']], E1 + [['--skin-effect-resistivity', '1.7e-8,3']]
    , E1 + [['--insulation-load', '0.02,2.5,3']], E1 + [['--insulation-load', '0.01,2.5']], E1 + [['--insulation-load', '0.02,1']], E1 + [['--insulation-load', '0.009,2.5']]
    , E1 + [['--taper-wire', '1,3,1,1']], E1 + [['--taper-wire', '1,3,2,1']], E1 + [['--taper-wire', '1,1,10']], E1 + [['--taper-wire', '1,1,0.025']]
    , E1 + [['--taper-wire', '1,1,1.6666666666666667']], E1 + [['--taper-wire', '3,1']], E1 + [['--taper-wire', '1,4']], E1 + [['--taper-wire', '1,0']]
    , E1 + [['--theta', '0,10,0']], E1 + [['--phi', '0,10,0']], E1 + [['--theta', '0,0,3']], E1 + [['--theta', '90,0,1'], ['--phi', '0,0,1']]
    , E1 + [['--near-field', '5,5,5,1,1,1,0,1,1']], E1 + [['--near-field', '5,5,5,0,0,0,2,2,2']], E1 + [['--near-field', '0,0,5,1,1,1,1,1,1']]
    , E1 + [['--near-field', '0,0,10,1,1,1,1,1,1']], E1 + [['--near-field', '0.01,0,5,1,1,1,1,1,1']]
    , E1 + [['--medium', '0,0,0'], ['--near-field', '5,5,0,1,1,1,1,1,1']], E1 + [['--medium', '0,0,0'], ['--near-field', '5,5,-1,1,1,1,1,1,1']]
    , E1 + [['--medium', '1,0,0']], E1 + [['--medium', '0,0,0'], ['--medium', '5,0.001,-1']], E1 + [['--medium', '13,0.005,0,0'], ['--medium', '5,0.001,-1']]
    , E1 + [['--medium', '13,0.005,0,20'], ['--medium', '5,0.001,0']], E1 + [['--medium', '13,0.005,0,20'], ['--medium', '5,0.001,1']]
    , E1 + [['--medium', '13,0.005,0,20'], ['--medium', '5,0.001,-1'], ['--radial-count', '0'], ['--radial-radius', '0.001']]
    , E1 + [['--medium', '13,0.005,0,20'], ['--medium', '5,0.001,-1'], ['--radial-count', '1'], ['--radial-radius', '0.001']]
    , [['-f', '7.1'], ['-w', '6,0,0,0,0,0,10,0.01'], ['-w', '4,0,0,0,6,0,0,0.01'], ['--medium', '0,0,0']]          # second wire lies in the ground plane
    , [['-f', '7.1'], ['-w', '6,0,0,0,0,0,10,0.01'], ['-w', '4,0,0,10,6,0,-0.001,0.01'], ['--medium', '0,0,0']]
    , [['-f', '7.1'], ['-w', '6,0,0,0,0,0,10,1.6666666666666667']], [['-f', '7.1'], ['-w', '6,0,0,0,0,0,10,0']], [['-f', '7.1'], ['-w', '1,0,0,0,0,0,10,0.01']]
    , [['-f', '7.1'], ['-w', '6,0,0,0,0,0,0,0.01']], [['-f', '7.1'], ['-w', '6,0,0,0,0,0,10,0.01'], ['-w', '6,0,0,0,0,0,10,0.01']]
    , [['-f', '7.1'], ['-w', '6,0,0,0,0,0,10,0.01'], ['-w', '3,0,0,0,0,0,5,0.01']], [['-f', '7.1'], ['-a', '4,2,0,360,0.01']], [['-f', '7.1'], ['-a', '4,2,0,0,0.01']]
    , [['-f', '7.1'], ['-a', '4,2,0,720,0.01']], [['-f', '7.1'], ['-a', '4,2,0,180,0.01'], ['--medium', '0,0,0']], [['-f', '7.1'], ['-a', '4,2,0,181,0.01'], ['--medium', '0,0,0']]
    , [['-f', '7.1'], ['--helix', '8,0,1,0.01,1,1']], [['-f', '7.1'], ['--helix', '8,4,0,0.01,1,1']], [['-f', '7.1'], ['--helix', '8,4,1,0.01,0,0']]
    , [['-f', '7.1'], ['--helix', '0,1e-300,-1e300,0.01,1,1']], [['-f', '7.1'], ['--helix', '1,1e-300,-1e300,0.01,1,1']], [['-f', '7.1'], ['--helix', '1,0.5,4,0.01,1,1']]
    , [['-f', '7.1'], ['--helix', '8,4,1,0.01,1,1'], ['--medium', '0,0,0']], [['-f', '7.1'], ['--helix', '8,-4,1,0.01,1,1'], ['--medium', '0,0,0']]
    , E1 + [['--geo-scale', '1e-9']], E1 + [['--geo-scale', '1e9']], E1 + [['--geo-translate', '1,0,0,-10'], ['--medium', '0,0,0']], E1 + [['--geo-translate', '1,0,0,-10.001'], ['--medium', '0,0,0']]
    , E1 + [['--geo-rotate', '1,180,0,0'], ['--medium', '0,0,0']], E1 + [['--geo-rotate', '1,90,0,0'], ['--medium', '0,0,0']]
    , E1 + [['--ff-distance', '0'], ['--option', 'far-field-absolute']], E1 + [['--ff-power', '0'], ['--ff-distance', '10'], ['--option', 'far-field-absolute']]
    , E1 + [['--nf-power', '0'], ['--near-field', '5,5,5,1,1,1,1,1,1']], E1 + [['--excitation-voltage', '0']], E1 + [['--excitation-voltage', '0'], ['--near-field', '5,5,5,1,1,1,1,1,1'], ['--nf-power', '10']]
    , E1 + [['--excitation-pulse', '2'], ['--excitation-pulse', '2']], E1 + [['--excitation-pulse', '2'], ['--excitation-pulse', '3'], ['--excitation-voltage', '1'], ['--excitation-voltage', '-1']]
    , E1 + [['--excitation-pulse', '2'], ['--excitation-voltage', '1'], ['--excitation-voltage', '2']]
    # the auxiliary files together with every kind of field request (with and without the optional companions)
    ] + [ E1 + o + x + y
          for o in ([['--output-basic-input', '@TMP@/o.mini']], [['--output-cmdline', '@TMP@/o.pym']], [['--output-basic-input', '@TMP@/o.mini'], ['--mininec-version', '13']])
          for x in ([['--option', 'far-field-absolute']], [['--option', 'far-field-absolute'], ['--option', 'far-field']], [['--option', 'near-field'], ['--near-field', '5,5,5,1,1,1,2,1,1']], [['--option', 'none']])
          for y in ([], [['--ff-power', '100']], [['--ff-distance', '500']], [['--nf-power', '10']], [['--medium', '0,0,0']])
    ] + [ E1 + [['--excitation-pulse', '2']]
    # output files that cannot be written: directory missing, path is a directory, no permission to create
    , E1 + [['--output-cmdline', '@TMP@/missing/o.pym']], E1 + [['--output-basic-input', '@TMP@/missing/o.mini']]
    , E1 + [['--output-cmdline', '@TMP@']], E1 + [['--output-basic-input', '@TMP@']]
    , E1 + [['--output-cmdline', '/proc/version/o.pym']], E1 + [['--output-basic-input', '/proc/o.mini']], E1 + [['--output-cmdline', '']]
    , E1 + [['--output-cmdline', '@TMP@/o.pym'], ['--output-basic-input', '@TMP@/o.pym']]
    # Laplace loads of high order (the listing multiplies the coefficient of S^k by 10^(6k))
    ] + [ [['-f', f], ['-w', '10,0,0,0,0,0,10,0.01'], ['--laplace-load-a', ','.join (['1'] * n)], ['--laplace-load-b', ','.join (['1'] * n)], ['--attach-load', '1,2']] + x
          for f in ('7.1', '0.001', '1e-6') for n in (12, 30, 51, 52, 53, 60, 120) for x in ([], [['--output-basic-input', '@TMP@/o.mini']], [['--output-cmdline', '@TMP@/o.pym']])
    ] + [ [['-f', f], ['-w', '10,0,0,0,0,0,10,0.01'], ['--laplace-load-a', '1,' + ','.join (['0'] * n) + ',' + v], ['--laplace-load-b', '1,1'], ['--attach-load', '1,2']]
          for f in ('7.1', '0.001') for n in (0, 3, 20, 49) for v in ('1e-300', '1e290', '1e300', '1e308', '1e5')
    ] + [ [['-f', f], ['-w', '10,0,0,0,0,0,10,0.01'], ['--laplace-load-a', '1,' + ','.join (['0'] * n)], ['--laplace-load-b', '1,1' + ',0' * m], ['--attach-load', '1,2']] + x
          for f in ('7.1', '0.001') for n in (49, 50, 51, 52, 55, 80) for m in (0, 60) for x in ([], [['--output-basic-input', '@TMP@/o.mini']])
    ]

def pole_cases ():
    """ lumped loads whose denominator polynomial is exactly zero in floating point at the frequency of the run (the
        documented hazard 'trap with R = 0 at resonance'), found with plain float arithmetic: x = L C within a few
        ulp of 1 / w^2 with fl (x w^2) == 1, split exactly into L and C = 2^-33; and denominators whose only term
        underflows to zero """
    out = []
    W   = ['-w', '10,0,0,0,0,0,10.0838,0.0127']
    for f in (7.1, 7.15, 7.0, 14.2, 3.65, 28.5, 1.9, 10.1, 21.3, 1.8):
        w  = 2 * np.pi * f * 1e6
        w2 = -(((1j * w) * (1j * w)).real)
        xs = []
        for k in range (-8, 9):
            y = 1.0 / w2
            for i in range (abs (k)):
                y = float (np.nextafter (y, np.inf if k > 0 else 0.0))
            if 1.0 + y * -w2 == 0.0 or y * (w * w) == 1.0:
                xs.append (y)
        for x in xs [:2]:
            C = 2.0 ** -33
            L = x / C
            for r in ('0', '1', '1e-300'):
                out.append ([['-f', repr (f)], W, ['--trap-load', '%s,%r,%r' % (r, L, C)], ['--attach-load', '1,3']])
            out.append ([['-f', repr (f)], W, ['--laplace-load-a', '1,0,%r' % x], ['--laplace-load-b', '50'], ['--attach-load', '1,3']])
            out.append ([['-f', repr (f)], W, ['--laplace-load-a', '1,0,%r' % x], ['--laplace-load-b', '0,0,1'], ['--attach-load', '1,all']])
    for f in ('1e-10', '1e-300', '5e-324'):
        out.append ([['-f', f], W, ['--rlc-load', '0,0,5e-324'], ['--attach-load', '1,3']])
        out.append ([['-f', f], W, ['--rlc-load', '0,0,1e-310'], ['--attach-load', '1,3']])
        out.append ([['-f', f], W, ['--laplace-load-a', '0,5e-324'], ['--laplace-load-b', '1'], ['--attach-load', '1,3']])
        out.append ([['-f', f], W, ['--laplace-load-a', '0,0,1e-300'], ['--laplace-load-b', '1,1,1'], ['--attach-load', '1,3']])
        out.append ([['-f', f], W, ['--trap-load', '0,1e-300,1e-300'], ['--attach-load', '1,3']])
    out.append ([['-f', '7.1'], W, ['--laplace-load-a', '0'], ['--laplace-load-b', '1'], ['--attach-load', '1,3']])
    out.append ([['-f', '7.1'], W, ['--laplace-load-a', '0,0,0'], ['--laplace-load-b', '0,0,0'], ['--attach-load', '1,3']])
    out.append ([['-f', '7.1'], W, ['--rlc-load', '0,0,0'], ['--attach-load', '1,3']])
    return out
# end def pole_cases

def dead_source_cases ():
    """ every source at zero (or vanishing) voltage: impedance 0 / 0, together with every way of asking for no field """
    out = []
    for v in ('0', '0j', '-0.0', '1e-320', '1e-200', '0+0j'):
        for srcs in ([['--excitation-pulse', '3']], [['--excitation-pulse', '3'], ['--excitation-pulse', '7']]):
            vv = [['--excitation-voltage', v]] * len (srcs)
            for fld in ( [['--option', 'none']], [['--theta', '0,10,0']], [['--phi', '0,10,0']], [['--option', 'far-field-absolute'], ['--theta', '45,0,0'], ['--phi', '0,0,-1']]
                       , [['--near-field', '1,1,1,1,1,1,0,1,1']], [['--near-field', '1,1,1,1,1,1,2,-1,2']], [['--near-field', '1,1,1,1,1,1,1,1,1']], []
                       , [['--option', 'none'], ['--output-basic-input', '@TMP@/o.mini']], [['--option', 'none'], ['--output-cmdline', '@TMP@/o.pym']]):
                out.append (E1 + srcs + vv + fld)
    return out
# end def dead_source_cases

# complex numbers whose parts are finite but whose magnitude is not
EDGE = EDGE + [ E1 + [['--excitation-voltage', v]] + x + o for v in ('1.7e308+1.7e308j', '-1.5e308-1.5e308j', '1e308+1.6e308j')
                for x in ([], [['--load', '1.7e308+1.7e308j'], ['--attach-load', '1,2']], [['--load', '1.7e308+1.7e308j'], ['--attach-load', '1,all']])
                for o in ([], [['--option', 'none']]) ]
def option_orders ():
    """ every ordered selection of one to three of the four --option values, with and without a near-field grid """
    import itertools
    out = []
    vals = ['far-field', 'far-field-absolute', 'near-field', 'none']
    for k in (1, 2, 3):
        for sel in itertools.permutations (vals, k):
            for nf in ([], [['--near-field', '5,5,5,1,1,1,2,1,1']]):
                out.append (E1 + nf + [['--option', v] for v in sel])
    return out
# end def option_orders

# field strengths whose real and imaginary part are finite but whose magnitude is not (1.5e308 each)
EDGE = EDGE + [ [['-f', '7.1'], ['-w', '10,0,0,0,0,0,10,0.01'], ['--excitation-pulse', '5'], ['--option', 'far-field-absolute'], ['--theta', '45,0,1'], ['--phi', '0,0,1']
                , ['--ff-power', '1e300'], ['--ff-distance', d]] for d in ('3.307739118246094e-158', '3.2e-158', '3.25e-158', '3.35e-158', '3.4e-158', '3.5e-158', '3e-158') ]
EDGE = EDGE + pole_cases () + dead_source_cases () + option_orders ()

def plan (tier, seed):
    n = 3000 if tier == 'quick' else 100000
    return [dict (kind = 'fixed', k = k) for k in range (len (FIXED))] + [dict (kind = 'edge', k = k) for k in range (len (EDGE))] + enum_cases () + ladder_cases (tier) + [dict (i = i, seed = seed) for i in range (n)]
# end def plan

def base (rng):
    """ a valid command line as list of [option, value] groups (value None for flags) """
    env = str (rng.choice (['free', 'free', 'ideal', 'real', 'real2']))
    if env == 'free':
        spec = gen.fam_free (rng, nmax = 14)
        if rng.random () < 0.25:
            lam = gen.C_MHZ / spec ['f']
            spec ['geo'].append (dict (k = 'a', n = int (rng.integers (3, 8)), radius = lam * 0.1, a1 = 10.0, a2 = 200.0, r = lam * 1e-3, tag = None))
        if rng.random () < 0.2:
            lam = gen.C_MHZ / spec ['f']
            spec ['geo'].append (dict (k = 'h', n = int (rng.integers (6, 12)), length = lam * 0.2, turn = lam * 0.1, r = lam * 1e-3, rx1 = lam * 0.03, ry1 = lam * 0.03, tag = None))
            spec ['tr'] = [['translate', 1.0, [lam * 3, 0, 0], len (spec ['geo'])]]
            for g in spec ['geo']:
                pass
    else:
        med = 'ideal'
        if env == 'real':
            med = [[float (rng.uniform (2, 80)), float (10 ** rng.uniform (-4, 0)), 0.0]]
        elif env == 'real2':
            med = [[13.0, 0.005, 0.0, 20.0], [5.0, 0.001, float (rng.choice ([0, -1, -3]))]]
        spec = gen.fam_ground (rng, media = med)
        if env == 'real2':
            spec ['boundary'] = str (rng.choice (['linear', 'circular']))
            if spec ['boundary'] == 'circular' and rng.random () < 0.6:
                spec ['radials'] = [int (rng.integers (4, 60)), 0.001]
                if rng.random () < 0.5:
                    spec ['boundary'] = None      # radials imply a circular boundary
    ntag = len (spec ['geo'])
    if rng.random () < 0.3:
        for i, g in enumerate (spec ['geo']):
            g ['tag'] = i + 1
    n0 = spec ['geo'][0]['n'] if spec ['geo'][0]['k'] == 'w' else 3
    if rng.random () < 0.3 and all (g.get ('tag') for g in spec ['geo']) and spec ['geo'][0]['k'] == 'w' and n0 >= 3:
        g0  = spec ['geo'][0]
        sl0 = float (np.linalg.norm (np.array (g0 ['p1']) - np.array (g0 ['p2'])) / g0 ['n'])
        spec ['geo'][0]['taper'] = [ int (rng.integers (1, 4)), None if rng.random () < 0.5 else float (sl0 * rng.uniform (0.02, 0.9))
                                   , None if rng.random () < 0.5 else float (sl0 * rng.uniform (1.05, 4))]
    spec ['src'] = [dict (p = [max (1, n0 // 2)], v = gen.rand_voltage (rng))]
    if rng.random () < 0.3 and n0 >= 4:
        spec ['src'].append (dict (p = [1, 1] if all (g.get ('tag') for g in spec ['geo']) else [1], v = gen.rand_voltage (rng)))
        if spec ['src'][1]['p'] == spec ['src'][0]['p']:
            spec ['src'].pop ()
    loads = []
    for k in range (int (rng.choice ([0, 0, 1, 1, 2]))):
        kind = str (rng.choice (['z', 'rlc', 'trap', 'lap', 'skin', 'ins']))
        att  = [['all']] if rng.random () < 0.3 else [[1]]
        if kind == 'z':
            loads.append (dict (k = 'z', z = [50.0, -20.0], att = att))
        elif kind == 'rlc':
            loads.append (dict (k = 'rlc', R = 5.0, L = 1e-6, C = (None if rng.random () < 0.5 else 1e-10), att = att))
        elif kind == 'trap':
            loads.append (dict (k = 'trap', R = 1.0, L = 1e-6, C = 1e-10, att = att))
        elif kind == 'lap':
            loads.append (dict (k = 'lap', a = [1.0, 1e-7], b = [10.0, 1e-6], att = att))
        elif kind == 'skin' and not any (l ['k'] == 'skin' for l in loads):
            loads.append (dict (k = 'skin', cond = 5.8e7, tag = None))
        elif kind == 'ins' and not any (l ['k'] == 'ins' for l in loads):
            loads.append (dict (k = 'ins', radius = max (g ['r'] for g in spec ['geo']) * 2, eps = 2.5, tag = None))
    spec ['loads'] = loads
    if rng.random () < 0.25:
        spec.setdefault ('tr', []).append (['rotate', 2.0, [0.0, 0.0, 30.0], None])
    if rng.random () < 0.15:
        spec ['sc'] = [[float (rng.choice ([0.5, 2.0])), None]]
    flat = gen.to_argv (gen.clean (spec))
    groups = []
    i = 0
    while i < len (flat):
        a = flat [i]
        if a.startswith ('--') and '=' in a:
            o, v = a.split ('=', 1)
            groups.append ([o, v])
            i += 1
        elif a.startswith ('-') and i + 1 < len (flat) and not re.match (r'^--?[a-zA-Z]', flat [i + 1]):
            groups.append ([a, flat [i + 1]])
            i += 2
        else:
            groups.append ([a, None])
            i += 1
    lam = gen.C_MHZ / spec ['f']
    u = rng.random ()
    if u < 0.45:
        groups.append (['--theta', '%g,%g,%d' % (rng.choice ([0, 10, 45]), rng.choice ([10, 30, 45]), rng.integers (1, 4))])
        groups.append (['--phi', '%g,%g,%d' % (rng.choice ([0, 90]), rng.choice ([45, 180]), rng.integers (1, 3))])
    elif u < 0.6:
        groups.append (['--phi', '0,60,6'])
    elif u < 0.65:
        pass        # default angle grids
    else:
        groups.append (['--theta', '0,45,2'])
        groups.append (['--phi', '0,90,2'])
    if rng.random () < 0.3:
        zs, zi = lam, lam * 0.1
        if rng.random () < 0.35:
            # field points in and below the plane z = 0 (below ground when there is one)
            zs, zi = float (rng.choice ([0.0, -lam, lam * 0.05])), float (rng.choice ([-lam * 0.1, lam * 0.1]))
        groups.append (['--near-field', '%g,%g,%g,%g,%g,%g,2,1,%d' % (lam, lam, zs, lam * 0.1, lam * 0.1, zi, int (rng.integers (1, 3)))])
        if rng.random () < 0.5:
            groups.append (['--nf-power', '100'])
    if rng.random () < 0.3:
        groups.append (['--option', str (rng.choice (['far-field', 'near-field', 'far-field-absolute', 'none']))])
        if groups [-1][1] == 'near-field' and not any (g [0] == '--near-field' for g in groups):
            groups.append (['--near-field', '%g,%g,%g,1,1,1,1,1,1' % (lam, lam, lam)])
        if (groups [-1][1] == 'far-field-absolute' and rng.random () < 0.7) or rng.random () < 0.2:
            groups.append (['--ff-distance', '1000'])
            if rng.random () < 0.5:
                groups.append (['--ff-power', '50'])
    if rng.random () < 0.15:
        groups.append (['--frequency-steps', str (int (rng.integers (2, 4)))])
        groups.append (['--frequency-increment', '%g' % (spec ['f'] * 0.02)])
    if rng.random () < 0.12:
        groups.append (['--output-cmdline', '@TMP@/o.pym'])
    if rng.random () < 0.2:
        groups.append (['--output-basic-input', '@TMP@/o.mini'])
        if rng.random () < 0.5:
            groups.append (['--mininec-version', str (rng.choice (['9', '12', '13']))])
    if rng.random () < 0.05:
        groups.append (['-T', None])
    return groups
# end def base

EXTRA = [ ['--ff-power', None], ['--nf-power', None], ['--ff-distance', None], ['--laplace-load-a', None]
        , ['--laplace-load-b', None], ['--attach-load', None], ['--excitation-voltage', None], ['--excitation-pulse', None]
        , ['--geo-scale', None], ['--geo-rotate', None], ['--geo-translate', None], ['--taper-wire', None]
        , ['--skin-effect-conductivity', None], ['--skin-effect-resistivity', None], ['--insulation-load', None]
        , ['--radial-count', None], ['--radial-radius', None], ['--medium', None], ['--frequency-steps', None]
        , ['--frequency-increment', None], ['-f', None], ['--option', None], ['--near-field', None], ['--theta', None]
        , ['--phi', None], ['-w', None], ['-a', None], ['--helix', None], ['-l', None], ['--rlc-load', None]
        , ['--trap-load', None], ['--boundary', None], ['--mininec-version', None]
        ]
ARITY = { '--ff-power': 1, '--nf-power': 1, '--ff-distance': 1, '--laplace-load-a': 2, '--laplace-load-b': 2
        , '--attach-load': 2, '--excitation-voltage': 1, '--excitation-pulse': 1, '--geo-scale': 1, '--geo-rotate': 4
        , '--geo-translate': 4, '--taper-wire': 2, '--skin-effect-conductivity': 1, '--skin-effect-resistivity': 1
        , '--insulation-load': 2, '--radial-count': 1, '--radial-radius': 1, '--medium': 3, '--frequency-steps': 1
        , '--frequency-increment': 1, '-f': 1, '--near-field': 9, '--theta': 3, '--phi': 3, '-w': 8, '-a': 5
        , '--helix': 6, '-l': 1, '--rlc-load': 3, '--trap-load': 3
        }

def hostile_value (rng, opt):
    if opt == '--option':
        return str (rng.choice (['near-field', 'far-field-absolute', 'none', 'far-field']))
    if opt == '--boundary':
        return str (rng.choice (['linear', 'circular']))
    if opt == '--mininec-version':
        return str (rng.choice (['9', '12', '13']))
    n = ARITY.get (opt, 1) + int (rng.choice ([0, 0, 0, 1, -1]))
    n = max (1, n)
    pool = HOSTILE + ['1', '2', '3', '0.1', '10', '5']
    return ','.join (str (rng.choice (pool)) for k in range (n))
# end def hostile_value

def mutate (rng, groups):
    """ apply 1..3 hostile substitutions, returns (groups, names of mutated options) """
    groups = [list (g) for g in groups]
    names  = []
    for k in range (int (rng.choice ([1, 1, 2, 3]))):
        kind = str (rng.choice (['field', 'field', 'field', 'arity', 'tag', 'add', 'add', 'drop', 'dup', 'degenerate', 'long', 'path']))
        cand = [i for i, g in enumerate (groups) if g [1] is not None and not g [1].startswith ('@TMP@')]
        if kind in ('field', 'arity', 'tag') and cand:
            i = int (rng.choice (cand))
            o, v = groups [i]
            parts = v.split (',')
            if kind == 'field':
                j = int (rng.integers (0, len (parts)))
                parts [j] = str (rng.choice (HOSTILE))
            elif kind == 'arity':
                if rng.random () < 0.5 and len (parts) > 1:
                    parts.pop (int (rng.integers (0, len (parts))))
                else:
                    parts.insert (int (rng.integers (0, len (parts) + 1)), str (rng.choice (HOSTILE)))
            else:
                j = 0 if rng.random () < 0.5 else len (parts) - 1
                parts [j] = str (rng.choice (TAGS))
            groups [i][1] = ','.join (parts)
            names.append (o)
        elif kind == 'long':
            # a value list far longer than anything the option expects
            ll = [i for i, g in enumerate (groups) if g [0] in ('--laplace-load-a', '--laplace-load-b', '--rlc-load', '--trap-load', '-w', '--medium', '--near-field')]
            if ll:
                i = int (rng.choice (ll))
                parts = groups [i][1].split (',')
                groups [i][1] = ','.join ((parts * 70) [: int (rng.choice ([9, 10, 20, 52, 53, 64, 200]))])
                names.append ('long:' + groups [i][0])
        elif kind == 'path':
            o = str (rng.choice (['--output-cmdline', '--output-basic-input']))
            groups.append ([o, str (rng.choice (['@TMP@/missing/x', '@TMP@', '/proc/version/x', '/dev/null', '/dev/full', '@TMP@/' + 'n' * 300]))])
            names.append ('path:' + o)
        elif kind == 'add':
            o = EXTRA [int (rng.integers (0, len (EXTRA)))][0]
            groups.append ([o, hostile_value (rng, o)])
            names.append ('+' + o)
        elif kind == 'drop' and len (groups) > 2:
            i = int (rng.integers (0, len (groups)))
            names.append ('-' + groups [i][0])
            groups.pop (i)
        elif kind == 'dup' and cand:
            i = int (rng.choice (cand))
            groups.append (list (groups [i]))
            names.append ('2x' + groups [i][0])
        elif kind == 'degenerate':
            wi = [i for i, g in enumerate (groups) if g [0] == '-w']
            if wi:
                i = int (rng.choice (wi))
                parts = groups [i][1].split (',')
                off = len (parts) - 8
                what = str (rng.choice (['zero-length', 'below-ground', 'both-grounded', 'zero-radius', 'neg-seg']))
                if what == 'zero-length':
                    parts [off + 4: off + 7] = parts [off + 1: off + 4]
                elif what == 'below-ground':
                    parts [off + 3] = '-1'
                elif what == 'both-grounded':
                    parts [off + 3] = '0'
                    parts [off + 6] = '0'
                elif what == 'zero-radius':
                    parts [off + 7] = '0'
                else:
                    parts [off] = str (rng.choice (['0', '-3']))
                groups [i][1] = ','.join (parts)
                names.append ('-w:' + what)
    return groups, names
# end def mutate

def soup (rng):
    groups = []
    for k in range (int (rng.integers (1, 9))):
        o = EXTRA [int (rng.integers (0, len (EXTRA)))][0]
        groups.append ([o, hostile_value (rng, o)])
    return groups
# end def soup

def make (c):
    if c.get ('kind') == 'enum':
        return make_enum (c)
    if c.get ('kind') == 'ladder':
        return make_ladder (c)
    if c.get ('kind') == 'edge':
        g = [list (x) for x in EDGE [c ['k']]]
        if not any (x [0] == '--excitation-pulse' for x in g):
            g.append (['--excitation-pulse', '2'])
        return dict (groups = g, mutated = ['edge%d' % c ['k']], kind = 'edge')
    if c.get ('kind') == 'fixed':
        return dict (groups = [list (g) for g in FIXED [c ['k']]], mutated = ['fixed%d' % c ['k']], kind = 'fixed')
    rng = np.random.default_rng ([c ['seed'], 20, c ['i']])
    if rng.random () < 0.1:
        g = soup (rng)
        return dict (groups = g, mutated = ['soup'], kind = 'soup')
    g = base (rng)
    if rng.random () < 0.06:
        return dict (groups = g, mutated = [], kind = 'valid')
    u = rng.random ()
    if u < 0.08:
        # pulse numbers exactly on the end of the table and of an object's block (last / one beyond / two beyond),
        # in both addressing forms, for sources and for loads; counts taken from the model the valid line builds
        r = common.run_main (flatten ([x for x in g if x [0] not in ('--output-cmdline', '--output-basic-input')], '/tmp'), return_mininec = True)
        m = r.get ('model')
        if m is not None:
            N    = len (m.pulses)
            objs = [(gg.tag, len (gg.pulses)) for gg in m.geo]
            tag, n = objs [int (rng.integers (0, len (objs)))]
            k    = int (rng.choice ([0, 1, 2]))
            form = ['%d' % (N + k), '%d,%d' % (n + k, tag)] [int (rng.integers (0, 2))]
            g = [x for x in g if x [0] not in ('--excitation-pulse', '--excitation-voltage')] if rng.random () < 0.5 else g
            if rng.random () < 0.5:
                g.append (['--excitation-pulse', form])
            else:
                nl = sum (1 for x in g if x [0] in ('-l', '--load', '--rlc-load', '--trap-load', '--laplace-load-a'))
                g.append (['-l', '50+10j'])
                g.append (['--attach-load', '%d,%s' % (nl + 1, form)])
            return dict (groups = g, mutated = ['pulse-edge+%d' % k], kind = 'pulse-edge')
    elif u < 0.14:
        # thick wires with a taper request: segment length between one and six radii
        wi = [i for i, x in enumerate (g) if x [0] == '-w']
        if wi:
            i = int (rng.choice (wi))
            parts = g [i][1].split (',')
            off = len (parts) - 8
            if off == 0:
                parts = [str (90 + i)] + parts
                off = 1
            p1 = np.array ([float (x) for x in parts [off + 1: off + 4]])
            p2 = np.array ([float (x) for x in parts [off + 4: off + 7]])
            n  = max (1, int (float (parts [off])))
            parts [off + 7] = repr (float (np.linalg.norm (p2 - p1) / n / rng.uniform (1.0, 6.0)))
            g [i][1] = ','.join (parts)
            g = [x for x in g if not (x [0] == '--taper-wire' and x [1].split (',') [0] == parts [0])]
            tp = [parts [0], str (int (rng.integers (1, 4)))]
            if rng.random () < 0.4:
                tp.append (repr (float (np.linalg.norm (p2 - p1) / n * rng.uniform (0.2, 3))))
                if rng.random () < 0.5:
                    tp.append (repr (float (np.linalg.norm (p2 - p1) / n * rng.uniform (0.2, 3))))
            g.append (['--taper-wire', ','.join (tp)])
            return dict (groups = g, mutated = ['thick-taper'], kind = 'thick-taper')
    g, names = mutate (rng, g)
    return dict (groups = g, mutated = sorted (set (names)), kind = 'mutated')
# end def make

def flatten (groups, tmp):
    a = []
    for o, v in groups:
        if v is None:
            a.append (o)
        elif o.startswith ('--') and (v.startswith ('-') or rngless_eq (o)):
            a.append ('%s=%s' % (o, v.replace ('@TMP@', tmp)))
        else:
            a += [o, v.replace ('@TMP@', tmp)]
    return a
# end def flatten

def rngless_eq (o):
    return True
# end def rngless_eq

NONFINITE = re.compile (r'(?<![A-Za-z])(nan|inf|infinity)(?![A-Za-z])', re.I)

def classify (r):
    """ returns (outcome class, mechanism key or None, message) """
    out, err = r ['out'], r ['err']
    if r ['kind'] == 'exception' and isinstance (r ['exc'], MemoryError):
        return 'crash', 'crash:MemoryError:huge-table-count', 'MemoryError: %s' % str (r ['exc']) [:120]
    if r ['kind'] == 'exception':
        return 'crash', 'crash:' + r ['key'], '%s: %s' % (type (r ['exc']).__name__, str (r ['exc']) [:200])
    if r ['kind'] == 'exit':
        if r ['ret'] == 2 and 'usage:' in err:
            return 'usage', None, ''
        return 'bad-exit', 'exit:%r' % (r ['ret'],), 'SystemExit (%r) %s' % (r ['ret'], err [-200:])
    has_report = ('CURRENT DATA' in out) or ('SOURCE DATA' in out) or ('ANTENNA GEOMETRY' in out)
    if r ['ret'] == 23:
        lines = [l for l in (out + '\n' + err).split ('\n') if l.strip ()
                 and not re.match (r'^Time\s+[-\d.]+ for \w+$', l.strip ())]    # -T timing lines on stderr
        if has_report and r.get ('sweep'):
            return 'diag+report', 'diag-after-partial-sweep-report', 'frequency sweep: return 23 after earlier parts of the report were printed; diagnostic: %r' % (lines [-1] [:120],)
        if has_report:
            return 'diag+report', 'diag-with-report', 'return 23 after (part of) a report was printed; diagnostic: %r' % (lines [-1] [:120],)
        if len (lines) != 1:
            return 'diag-lines', 'diag-%d-lines' % min (len (lines), 9), 'return 23 with %d diagnostic lines: %r' % (len (lines), lines [:3])
        return 'diag', None, lines [0][:100]
    if r ['ret'] is not None:
        return 'bad-return', 'return:%r' % (r ['ret'],), 'main returned %r' % (r ['ret'],)
    # success: must be a complete finite report
    m = NONFINITE.search (out)
    if m:
        # which block: nearest preceding block header
        heads = [ 'SOURCE DATA', 'CURRENT DATA', 'FAR FIELD', 'PATTERN DATA', 'NEAR FIELDS', 'NEAR ELECTRIC FIELDS'
                , 'NEAR MAGNETIC FIELDS', 'NUMBER OF LOADS', 'NO. OF SOURCES', 'ANTENNA GEOMETRY', 'NO. OF GEO-OBJECTS'
                , 'ENVIRONMENT', 'FREQUENCY (MHZ)']
        best = ('header', -1)
        for h in heads:
            p = out.rfind (h, 0, m.start ())
            if p > best [1]:
                best = (h, p)
        blk = best [0]
        return 'nan-report', 'nan-in-report:' + blk, 'report contains %r (block %s)' % (m.group (0), blk)
    rep = report.parse (out)
    # a table row whose (finite) numbers are wider than their columns runs the columns together: the
    # property asks for finite numbers, not for a column layout, so purely numeric rows are accepted
    rep ['leftovers'] = [l for l in rep ['leftovers'] if not re.fullmatch (r'[-+0-9.,eEjJ() \t]+', l)]
    if rep ['leftovers']:
        return 'malformed', 'report-unparsed-lines', 'unparsed report lines: %r' % rep ['leftovers'][:2]
    if not rep ['source_data'] or not rep ['currents'] or not rep ['geometry']:
        return 'partial', 'report-incomplete', 'report without source data / currents / geometry'
    return 'report', None, ''
# end def classify

def run (groups):
    tmp = tempfile.mkdtemp (prefix = 'pmv-c20-')
    cwd = os.getcwd ()
    try:
        argv = flatten (groups, tmp)
        os.chdir (tmp)          # output files named by hostile values ('0', 'x', '1e300') land in the scratch directory
        r = common.run_main (argv)
        r ['sweep'] = any (g [0] in ('--frequency-steps', '--n-f') for g in groups)
        return r, argv
    finally:
        os.chdir (cwd)
        shutil.rmtree (tmp, ignore_errors = True)
# end def run

def shrink (groups, key):
    """ greedy removal of option groups while the same mechanism persists """
    g = [list (x) for x in groups]
    budget = 40
    changed = True
    while changed and budget > 0:
        changed = False
        for i in range (len (g)):
            if budget <= 0:
                break
            h = g [:i] + g [i + 1:]
            budget -= 1
            r, argv = run (h)
            if classify (r) [1] == key:
                g = h
                changed = True
                break
    return g
# end def shrink

def check (c):
    spec = c if 'mutated' in c else make (c)
    r, argv = run (spec ['groups'])
    cls, key, msg = classify (r)
    viol = []
    if key is None and spec ['kind'] == 'fixed' and cls != 'report':
        key = 'valid-command-line-refused'
        msg = 'a valid command line does not give a report: outcome %s (%s)' % (cls, msg)
    if key is not None:
        small = shrink (spec ['groups'], key) if not c.get ('noshrink') else spec ['groups']
        viol.append (dict ( monitor = 'outcome', key = key, msg = msg + ' | minimal argv: ' + ' '.join (flatten (small, '/tmp/x')) [:900]
                          , tb = r.get ('tb')))
    # contracts are stated for valid-domain workloads; hostile argument lists (overflowing
    # geometry, zero counts) are outside their domain: what they record here is dropped
    from pmv import instrument
    instrument.reset_case ()
    past_argparse = cls not in ('usage',)
    sig = cls + '|' + ','.join (re.sub (r'=.*', '', x) if spec ['kind'] == 'enum' else x for x in spec ['mutated'])
    return dict ( status = 'violation' if viol else 'held', sig = sig
                , nontrivial = bool (past_argparse and spec ['kind'] != 'valid'), monitors = {'outcome:' + cls: 1}
                , violations = viol, info = dict (cls = cls, argv = ' '.join (argv) [:300]))
# end def check

def evidence_extra (cases):
    import collections
    cnt = collections.Counter ()
    opts = collections.Counter ()
    for c in cases:
        info = c ['res'].get ('info') or {}
        cnt [info.get ('cls')] += 1
        for o in re.findall (r'(?<!\S)(--?[a-zA-Z][-a-zA-Z]*)', info.get ('argv', '')):
            opts [o] += 1
    return dict (outcome_classes = dict (cnt), options_exercised = dict (opts))
# end def evidence_extra
