""" Check driver:  python -m pmv.run <ID> [--tier quick|thorough] [--replay FILE]
    Shards the property's planned cases over worker subprocesses, folds
    the results into a three-valued verdict, writes evidence/<ID>.json and
    replay files, prints KNOWN-FINDING / VIOLATION lines.
    exit 0: held on everything explored; 1: violation; 2: inconclusive.
"""
import os, sys, json, time, shutil, argparse, subprocess, importlib, collections
from pmv import common, setup

def known_findings ():
    p = os.path.join (common.VERIF, 'known_findings.json')
    try:
        d = json.load (open (p))
    except FileNotFoundError:
        return {}
    out = {}
    for e in d.get ('findings', []):
        if e.get ('status') == 'known':
            out [(e ['property'], e ['key'])] = e
    return out
# end def known_findings

def classify (pid, res, known):
    """ split res ['violations'] into unknown violations and known findings """
    viol, kn = [], []
    for v in res.get ('violations', []):
        owner = v.get ('owner', pid)
        k = (owner, v.get ('key', ''))
        if k in known:
            kn.append (dict (v, what = known [k]['what'], owner = owner))
        else:
            viol.append (dict (v, owner = owner))
    return viol, kn
# end def classify

def worker_env ():
    env = dict (os.environ)
    env [common.GUARD] = '1'
    env.setdefault ('PYTHONHASHSEED', '0')
    env ['PYTHONPATH'] = os.pathsep.join ([common.VERIF, common.REPO])
    env ['PMV_REPO']   = common.REPO
    env ['OMP_NUM_THREADS'] = env ['OPENBLAS_NUM_THREADS'] = env ['MKL_NUM_THREADS'] = '1'
    env ['PYTHONDONTWRITEBYTECODE'] = '1'
    return env
# end def worker_env

def main (argv = None):
    ap = argparse.ArgumentParser ()
    ap.add_argument ('pid')
    ap.add_argument ('--tier', default = os.environ.get ('VERIF_TIER') or 'quick')
    ap.add_argument ('--seed', type = int, default = int (os.environ.get ('VERIF_SEED') or 0))
    ap.add_argument ('--jobs', type = int, default = min (16, os.cpu_count () or 4))
    ap.add_argument ('--replay')
    ap.add_argument ('--keep', action = 'store_true')
    args = ap.parse_args (argv)
    pid  = args.pid.upper ()
    tier = args.tier if args.tier in ('quick', 'thorough') else 'quick'
    setup.ensure ()
    os.environ [common.GUARD] = '1'
    mod   = importlib.import_module ('pmv.props.' + pid.lower ())
    known = known_findings ()
    if args.replay:
        return replay (mod, pid, args.replay, known)
    t0   = time.time ()
    work = os.path.join (common.VERIF, '.work', '%s-%s-%d' % (pid, tier, os.getpid ()))
    os.makedirs (work, exist_ok = True)
    timeout = getattr (mod, 'TIMEOUT', {}).get (tier, 1800 if tier == 'quick' else 4 * 3600)
    n     = max (1, args.jobs)
    procs = []
    env   = worker_env ()
    for s in range (n):
        out = os.path.join (work, 'shard%02d.jsonl' % s)
        cmd = [ sys.executable, '-m', 'pmv.worker', pid, tier, str (args.seed)
              , str (s), str (n), out
              ]
        log = open (os.path.join (work, 'shard%02d.log' % s), 'w')
        procs.append ((subprocess.Popen (cmd, env = env, cwd = common.VERIF, stdout = log, stderr = log), out, log))
    deadline = time.time () + timeout
    shard_state = collections.Counter ()
    for p, out, log in procs:
        try:
            p.wait (timeout = max (1, deadline - time.time ()))
            shard_state ['ok' if p.returncode == 0 else 'died'] += 1
        except subprocess.TimeoutExpired:
            p.kill ()
            p.wait ()
            shard_state ['watchdog'] += 1
        log.close ()
    # ---------------------------------------------------------- aggregate
    cases    = []
    trailers = []
    for p, out, log in procs:
        if not os.path.exists (out):
            continue
        for line in open (out):
            try:
                d = json.loads (line)
            except ValueError:
                continue
            if d.get ('trailer'):
                trailers.append (d)
            else:
                cases.append (d)
    planned = trailers [0]['planned'] if trailers else None
    stat    = collections.Counter ()
    discard = collections.Counter ()
    inconc  = collections.Counter ()
    sigs    = set ()
    monitors = collections.Counter ()
    known_hits = collections.OrderedDict ()
    violations = []
    samples  = []
    worst    = []
    harness_tb = None
    by_monitor = {}
    for c in cases:
        res = c ['res']
        st  = res.get ('status')
        viol, kn = classify (pid, res, known)
        for k in kn:
            key = (k ['owner'], k ['key'])
            e = known_hits.setdefault (key, dict (what = k ['what'], n = 0, example = k.get ('msg')))
            e ['n'] += 1
        if st == 'discard':
            stat ['discard'] += 1
            discard [res.get ('reason', '?')] += 1
            continue
        if st == 'inconclusive':
            stat ['inconclusive'] += 1
            inconc [res.get ('reason', '?')] += 1
            if res.get ('reason') == 'harness-error' and harness_tb is None:
                harness_tb = res.get ('tb')
            continue
        stat ['evaluated'] += 1
        for m, k in (res.get ('monitors') or {}).items ():
            monitors [m] += k
        if res.get ('nontrivial') and res.get ('sig') is not None:
            sigs.add (res ['sig'])
        if viol:
            violations.append ((c, viol))
        if len (samples) < 4 and not viol:
            samples.append (dict ( case = c ['spec'], signature = res.get ('sig')
                                 , margin = res.get ('margin'), info = res.get ('info')))
        if res.get ('margin') is not None:
            worst.append ((res ['margin'], res.get ('sig'), c ['spec']))
        for k, v in (res.get ('margins') or {}).items ():
            if isinstance (v, (int, float)) and v == v:
                by_monitor [k] = max (by_monitor.get (k, 0.0), v)
    worst.sort (key = lambda x: -x [0] if isinstance (x [0], (int, float)) else 0)
    # anchors / contract evaluations over all workers
    anchors = {}
    evals   = collections.Counter ()
    events  = collections.Counter ()
    for t in trailers:
        for q, (h, tot) in (t.get ('anchors') or {}).items ():
            a = anchors.setdefault (q, [0, tot])
            a [0] = max (a [0], h)
        evals.update (t.get ('evals') or {})
        events.update (t.get ('events') or {})
    missing_anchors = [q for q in getattr (mod, 'ANCHORS_REQUIRED', []) if anchors.get (q, [0, 0]) [0] == 0]
    # some mechanisms decide only when a specific branch ran: minimum fraction of the function's lines
    for q, frac in getattr (mod, 'ANCHORS_MIN', {}).items ():
        h, tot = anchors.get (q, [0, 0])
        if not tot or h < frac * tot:
            missing_anchors.append ('%s (%d of %d lines, %d %% required)' % (q, h, tot, int (frac * 100)))
    # ------------------------------------------------------------ verdict
    rdir = os.path.join (common.VERIF, 'replays', pid)
    lines = []
    for key, e in known_hits.items ():
        lines.append ('KNOWN-FINDING: property=%s %s [%s; %d case(s)]' % (key [0], e ['what'], key [1], e ['n']))
    vcount = collections.Counter ()
    for c, viol in violations:
        os.makedirs (rdir, exist_ok = True)
        path = os.path.join (rdir, common.sha (c ['spec']) + '.json')
        with open (path, 'w') as f:
            json.dump (dict ( property = pid, tier = tier, seed = args.seed
                            , spec = c ['spec'], violations = viol), f, indent = 1)
        owners = sorted (set (v ['owner'] for v in viol))
        for o in owners:
            vcount [o] += 1
            if vcount [o] <= 25:
                v = [x for x in viol if x ['owner'] == o][0]
                lines.append ('VIOLATION property=%s replay=%s' % (o, path))
                lines.append ('   monitor=%s key=%s: %s' % (v.get ('monitor'), v.get ('key'), str (v.get ('msg')) [:300]))
    min_eval = getattr (mod, 'MIN_EVAL', {}).get (tier, 1)
    reasons  = []
    if stat ['evaluated'] < min_eval:
        reasons.append ('deciding oracle evaluated on %d < %d cases' % (stat ['evaluated'], min_eval))
    if missing_anchors:
        reasons.append ('deciding mechanism never executed: %s' % ', '.join (missing_anchors))
    if inconc.get ('harness-error'):
        reasons.append ('%d case(s) ended in a harness error' % inconc ['harness-error'])
    if shard_state ['died']:
        reasons.append ('%d worker(s) died' % shard_state ['died'])
    tot = stat ['evaluated'] + stat ['discard'] + stat ['inconclusive']
    if tot and stat ['discard'] > getattr (mod, 'MAX_DISCARD', 0.3) * tot:
        reasons.append ('%d of %d cases discarded' % (stat ['discard'], tot))
    if len (sigs) < 2:
        reasons.append ('fewer than 2 distinct non-trivial cases')
    nviol = sum (vcount.values ())
    wall  = time.time () - t0
    # ----------------------------------------------------------- evidence
    cov = dict \
        ( evaluations         = stat ['evaluated']
        , distinct_nontrivial = len (sigs)
        , rule                = getattr (mod, 'RULE', '')
        , samples             = samples or [dict (case = c ['spec']) for c, v in violations [:2]]
        , planned             = planned
        , discarded           = dict (discard)
        , inconclusive        = dict (inconc)
        , monitor_evaluations = dict (monitors)
        , contract_evaluations = dict (evals)
        , events_observed     = dict (events)
        , anchor_lines_hit    = {q: '%d/%d' % tuple (v) for q, v in anchors.items ()}
        , worst_margin_by_monitor = {k: round (v, 4) for k, v in sorted (by_monitor.items ())}
        , worst_margins       = [dict (margin = w [0], signature = w [1], case = w [2]) for w in worst [:5]]
        , known_findings_matched = [dict (property = k [0], key = k [1], cases = e ['n'], what = e ['what'])
                                    for k, e in known_hits.items ()]
        , shards              = dict (shard_state)
        , verdict             = 'violated' if nviol else ('inconclusive' if reasons else 'held on what was observed')
        , inconclusive_reasons = reasons
        , extra               = getattr (mod, 'evidence_extra', lambda cases: {}) (cases)
        )
    ev = dict \
        ( property_id = pid, tier = tier, seed = args.seed, level = 'exploration'
        , coverage = common.jsonable (cov)
        , assumptions = list (getattr (mod, 'ASSUMPTIONS', []))
        , wall_s = round (wall, 2), violations = nviol
        )
    evdir = os.environ.get ('PMV_EVIDENCE_DIR') or os.path.join (common.VERIF, 'evidence')
    os.makedirs (evdir, exist_ok = True)
    with open (os.path.join (evdir, pid + '.json'), 'w') as f:
        json.dump (ev, f, indent = 1)
    for l in lines:
        print (l)
    print ( '%s %s seed=%d: %d evaluated (%d distinct non-trivial), %d discarded, %d inconclusive, '
            '%d violation case(s), %d known-finding key(s), %.1fs'
          % ( pid, tier, args.seed, stat ['evaluated'], len (sigs), stat ['discard']
            , stat ['inconclusive'], nviol, len (known_hits), wall))
    if worst:
        print ('   worst margin (measured/allowed) %.3g  signature %s' % (worst [0][0], worst [0][1]))
    if harness_tb and (reasons or args.keep):
        print (harness_tb)
    if not args.keep:
        shutil.rmtree (work, ignore_errors = True)
    if nviol:
        return 1
    if reasons:
        print ('INCONCLUSIVE property=%s: %s' % (pid, '; '.join (reasons)))
        return 2
    return 0
# end def main

def replay (mod, pid, path, known):
    from pmv import instrument, worker
    import warnings, numpy as np
    warnings.simplefilter ('ignore')
    np.seterr (all = 'ignore')
    common.repo ()
    instrument.install ()
    d   = json.load (open (path))
    res = worker.run_case (mod, d ['spec'])
    viol, kn = classify (pid, res, known)
    print (json.dumps (common.jsonable (dict (res, violations = viol, known = kn)), indent = 1) [:6000])
    for k in kn:
        print ('KNOWN-FINDING: property=%s %s' % (k ['owner'], k ['what']))
    if viol:
        for o in sorted (set (v ['owner'] for v in viol)):
            print ('VIOLATION property=%s replay=%s' % (o, path))
        return 1
    return 0
# end def replay

if __name__ == '__main__':
    sys.exit (main ())
