""" Offline setup: put icontract (and its dependency asttokens) beside the
    framework in /verif/.deps from the local wheelhouse. Called by
    MANIFEST.setup_cmd and lazily by every check (git-ignored directories
    are not restored). Failure is not fatal: pmv.instrument falls back to
    plain wrappers evaluating the very same condition functions.
"""
import os, sys, subprocess
from pmv.common import DEPS, VERIF

WHEELS = '/opt/veriftools/wheels'

def ensure (verbose = False):
    if os.path.isdir (os.path.join (DEPS, 'icontract')):
        return True
    cmd = [ '/venv/bin/python', '-m', 'pip', 'install', '-q', '--no-index'
          , '--find-links', WHEELS, '--target', DEPS, '--no-deps'
          , 'icontract', 'asttokens', 'six', 'typing_extensions'
          ]
    try:
        r = subprocess.run (cmd, capture_output = True, text = True, timeout = 300)
        ok = r.returncode == 0
        if verbose or not ok:
            print (r.stdout [-2000:], r.stderr [-2000:], file = sys.stderr)
    except Exception as e:
        print ('pmv.setup: pip failed: %s' % e, file = sys.stderr)
        ok = False
    return ok and os.path.isdir (os.path.join (DEPS, 'icontract'))
# end def ensure

if __name__ == '__main__':
    ok = ensure (verbose = True)
    print ('pmv.setup: icontract %s' % ('installed in %s' % DEPS if ok else 'NOT available, using fallback wrappers'))
    # never fail setup: the fallback is functionally equivalent
    sys.exit (0)
