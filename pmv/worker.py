""" One shard of one check: python -m pmv.worker ID tier seed shard nshards out
    Writes one JSON line per case and a trailer line with what the
    instrumentation observed in this process.
"""
import os, sys, json, time, importlib, traceback, warnings
from pmv import common, instrument, gen, corpus

def load (pid):
    return importlib.import_module ('pmv.props.' + pid.lower ())
# end def load

class Case_Timeout (BaseException):
    pass

def _alarm (signum, frame):
    raise Case_Timeout ()

def run_case (mod, spec):
    """ Run one case through the property's check, fold broken contracts
        in, classify escaped exceptions. A per-case wall-clock watchdog
        turns a case that does not finish into an *inconclusive* case
        (never into a verdict).
    """
    import signal
    instrument.reset_case ()
    t0 = time.time ()
    limit = getattr (mod, 'CASE_TIMEOUT', 600)
    signal.signal (signal.SIGALRM, _alarm)
    signal.setitimer (signal.ITIMER_REAL, limit)
    try:
        res = mod.check (spec)
    except Case_Timeout:
        res = dict (status = 'inconclusive', reason = 'case-watchdog %ds' % limit)
    except common.Repo_Crash as e:
        res = dict \
            ( status = 'violation', sig = 'crash', nontrivial = True
            , violations = [dict ( monitor = 'crash', key = 'crash:' + e.key
                                 , msg = 'exception from repository code in %s: %s'
                                       % (e.where, str (e.exc) [:300])
                                 , tb = e.tb)]
            )
    except gen.Locate_Error as e:
        res = dict \
            ( status = 'violation', sig = 'locate', nontrivial = True
            , violations = [dict ( monitor = 'locate', key = 'pulse-not-at-expected-location'
                                 , msg = 'source / load placed by location: %s (the geometry is not where the documented construction puts it)' % e)]
            )
    except common.Rejected as e:
        res = dict (status = 'discard', reason = 'rejected: ' + str (e) [:80])
    except corpus.Not_Convertible as e:
        res = dict (status = 'discard', reason = 'corpus file not expressible for this check: ' + str (e) [:60])
    except Exception as e:
        if common.repo_frames (e):
            key = common.crash_key (e)
            res = dict \
                ( status = 'violation', sig = 'crash', nontrivial = True
                , violations = [dict ( monitor = 'crash', key = 'crash:' + key
                                     , msg = 'exception from repository code: %s: %s'
                                           % (type (e).__name__, str (e) [:300])
                                     , tb = ''.join (traceback.format_exception (e)) [-3000:])]
                )
        else:
            res = dict \
                ( status = 'inconclusive', reason = 'harness-error'
                , tb = ''.join (traceback.format_exception (e)) [-3000:]
                )
    finally:
        signal.setitimer (signal.ITIMER_REAL, 0)
    res.setdefault ('violations', [])
    res.setdefault ('known', [])
    for rec in instrument.take_records ():
        v = dict ( monitor = 'contract:' + rec ['contract'], key = 'contract:' + rec ['contract']
                 , msg = rec ['msg'], measured = rec ['measured'], allowed = rec ['allowed']
                 , owner = rec ['owner'])
        res ['violations'].append (v)
    if res ['violations'] and res.get ('status') in ('held', None):
        res ['status'] = 'violation'
    res ['wall'] = round (time.time () - t0, 3)
    return res
# end def run_case

def main ():
    pid, tier, seed, shard, nshards, out = sys.argv [1:7]
    seed, shard, nshards = int (seed), int (shard), int (nshards)
    warnings.simplefilter ('ignore')
    import numpy as np
    np.seterr (all = 'ignore')
    cov = None
    if os.environ.get ('PMV_COVER'):
        # reach measurement (tools/reach.sh): which lines of the repository the workloads execute at all
        import coverage
        cov = coverage.Coverage ( data_file = os.environ ['PMV_COVER'], data_suffix = True, branch = True
                                , include = [os.path.join (os.environ.get ('PMV_REPO', '/repo'), 'mininec', '*.py')])
        cov.start ()
    common.repo ()
    instrument.install ()      # also routes numpy floating-point errors to the recorder
    mod = load (pid)
    gb = getattr (mod, 'MEM_LIMIT_GB', None)
    if gb:
        import resource
        resource.setrlimit (resource.RLIMIT_AS, (int (gb * 2 ** 30), int (gb * 2 ** 30)))
    cases = mod.plan (tier, seed)
    mine  = cases [shard::nshards]
    with open (out, 'w') as f:
        for spec in mine:
            res = run_case (mod, spec)
            f.write (json.dumps (common.jsonable (dict (spec = spec, res = res))) + '\n')
            f.flush ()
        trailer = dict \
            ( trailer = True
            , planned = len (cases), mine = len (mine)
            , evals   = dict (instrument.EVALS)
            , events  = dict (instrument.EVENTS)
            , anchors = instrument.anchor_report (getattr (mod, 'ANCHORS', []))
            )
        f.write (json.dumps (common.jsonable (trailer)) + '\n')
    if cov is not None:
        cov.stop ()
        cov.save ()
# end def main

if __name__ == '__main__':
    main ()
