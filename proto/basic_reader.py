import numpy as np
from common import *
class ReadErr(Exception): pass
def read_basic(text, version='9'):
    """ consume the answer stream in MININEC prompt order, rebuild a Mininec model via API """
    ans = [l.strip() for l in text.replace('\r','\n').split('\n')]
    ans = [a for a in ans if a != '']
    it = iter(ans); pos=[0]
    def nxt(what):
        try:
            v = next(it); pos[0]+=1; return v
        except StopIteration:
            raise ReadErr('missing answer for '+what)
    def floats(s): return [float(x) for x in s.split(',')]
    dev = nxt('output device')
    if dev.upper()=='D': nxt('filename')
    f = float(nxt('frequency'))
    env = int(nxt('environment'))
    media=None
    if env==-1:
        nm = int(nxt('number of media'))
        if nm==0: media=[Medium(0,0)]
        else:
            media=[]; boundary='linear'
            if nm>1:
                tb=int(nxt('type of boundary')); boundary='circular' if tb==2 else 'linear'
            specs=[]
            for i in range(nm):
                eps,sig = floats(nxt('eps,sigma'))
                d=dict(boundary=boundary); h=0
                if i==0:
                    if nm>1 and boundary=='circular':
                        nr=int(nxt('radials'))
                        if nr: d.update(nradials=nr, radius=float(nxt('radial radius')))
                else:
                    h=float(nxt('height'))
                if i<nm-1:
                    d.update(coord=float(nxt('coord')))
                media.append(Medium(eps,sig,h,**d))
    nw = int(nxt('no of wires'))
    wires=[]
    for i in range(nw):
        n=int(nxt('segments')); p1=floats(nxt('end1')); p2=floats(nxt('end2')); r=float(nxt('radius'))
        ch=nxt('change wire'); assert ch.upper()=='N', ch
        wires.append(Wire(n,*p1,*p2,r))
    ch=nxt('change geometry'); assert ch.upper()=='N'
    m = Mininec(f, wires, media=media)
    ns=int(nxt('no of sources'))
    for i in range(ns):
        p,mag,ph = floats(nxt('source'))
        m.register_source(Excitation(mag, ph), int(p)-1)
    nl=int(nxt('number of loads'))
    if nl:
        is_s = nxt('s-parameter?').upper()=='Y'
        for i in range(nl):
            if is_s:
                p,order = [int(x) for x in nxt('pulse,order').split(',')]
                a=[];b=[]
                for d in range(order+1):
                    num,den = floats(nxt('coeff'))
                    fct = 10**(6*d) if version=='9' else 1
                    b.append(num/fct); a.append(den/fct)
                m.register_load(Laplace_Load(a=a,b=b), p-1)
            else:
                p,re,im = floats(nxt('load'))
                m.register_load(Impedance_Load(complex(re,im)), int(p)-1)
    rest=[]
    while True:
        try: c=nxt('cmd')
        except ReadErr: raise ReadErr('no Q')
        c=c.upper()
        if c=='Q': break
        if c=='C': nxt('save currents'); rest.append('C')
        elif c=='P':
            dv=nxt('D/V')
            if dv.upper()=='V':
                while nxt('change power').upper()=='Y': nxt('power')
                nxt('distance')
            nxt('zenith'); nxt('azimuth')
            if nxt('file pattern').upper()=='Y': nxt('gain filename')
            rest.append('P')
        elif c=='N':
            nxt('E/H'); nxt('x'); nxt('y'); nxt('z')
            while nxt('change power').upper()=='Y': nxt('power')
            nxt('save'); rest.append('N')
        else: raise ReadErr('unknown command '+c)
    left = list(it)
    if left: raise ReadErr('leftover answers %r'%left[:3])
    return m
