import sys, io, time, contextlib
import numpy as np
sys.path.insert(0, '/repo')
from mininec.mininec import *
from mininec.mininec import main
import mininec.mininec as MM

def build(argv):
    if isinstance(argv, str): argv = argv.split()
    err = io.StringIO(); out = io.StringIO()
    with contextlib.redirect_stdout(out):
        m = main(argv, f_err=err, return_mininec=True)
    if not isinstance(m, Mininec):
        raise RuntimeError("build failed: %r %s %s" % (m, err.getvalue(), out.getvalue()))
    return m

def prad_ratio(m, nth=91, nph=73, hemi=None):
    """ integrate total gain over sphere/hemisphere -> P_rad/P_in """
    if hemi is None: hemi = m.media is not None
    th_max = 90 if hemi else 180
    # Gauss-Legendre in cos(theta) would be better; use midpoint rule
    nth = nth; 
    dth = th_max / nth
    dph = 360 / nph
    zen = Angle(dth/2, dth, nth)
    azi = Angle(0, dph, nph)
    m.compute_far_field(zen, azi)
    g = m.far_field.gain  # shape (nth, nph, 3)
    gl = 10 ** (g[..., 2] / 10)
    th = zen.angle_rad()
    w = np.sin(th) * np.radians(dth) * np.radians(dph)
    return float((gl * w[:, None]).sum() / (4*np.pi))
