import numpy as np
def current_field(m, T=lambda x:x, Tv=lambda v:v, q=1e-6):
    """ dict: quantized midpoint of each half-segment -> sum of I*tau (complex 3-vector) """
    L = min(s.seg_len for g in m.geo for s in g.segments)
    f = {}
    for p, I in zip(m.pulses, m.current):
        P = np.array(p.point,float)
        for e, sg in ((np.array(p.ends[0],float), -1), (np.array(p.ends[1],float), 1)):
            h = (P+e)/2          # half-segment end
            mid = (P+h)/2
            if m.media is not None and mid[2] < 0: continue
            tau = (h-P)*sg; tau = tau/np.linalg.norm(tau)
            key = tuple(np.round(T(mid)/(L*q*1000)).astype(int)) if False else tuple(np.round(T(mid)/L, 4))
            f[key] = f.get(key, 0) + I*Tv(tau)
    return f
def cmp_fields(fa, fb):
    ka=set(fa); kb=set(fb)
    if ka!=kb: return ('KEYS', len(ka-kb), len(kb-ka))
    mx = max(np.linalg.norm(v) for v in fa.values())
    return max(np.linalg.norm(fa[k]-fb[k]) for k in ka)/mx
