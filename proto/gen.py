import numpy as np
from common import *

def rot(rng):
    # random rotation matrix
    q = rng.normal(size=4); q/=np.linalg.norm(q)
    a,b,c,d = q
    return np.array([[a*a+b*b-c*c-d*d, 2*(b*c-a*d), 2*(b*d+a*c)],
                     [2*(b*c+a*d), a*a-b*b+c*c-d*d, 2*(c*d-a*b)],
                     [2*(b*d-a*c), 2*(c*d+a*b), a*a-b*b-c*c+d*d]])

def wire_str(n, p1, p2, r, tag=None):
    s = "%d,%.12g,%.12g,%.12g,%.12g,%.12g,%.12g,%.12g" % ((n,)+tuple(p1)+tuple(p2)+(r,))
    if tag is not None: s = "%d,"%tag + s
    return s

def gen_free(rng, kind=None):
    """ returns argv list + meta; free space structures in wavelengths scaled by f"""
    f = float(rng.choice([3.5, 7, 14.2, 28.5, 50, 144, 300, 433]))
    lam = 299.8 / f
    kinds = ['dipole','vee','star','loop','yagi','L','zig']
    kind = kind or rng.choice(kinds)
    R = rot(rng); T = rng.uniform(-1,1,3)*lam*rng.choice([0,1,5])
    segl = lam * rng.uniform(1/100, 1/12)   # segment length
    rad  = segl / rng.uniform(8, 200)
    wires = []  # (n, p1, p2, r)
    P = lambda v: R @ np.array(v, float) + T
    if kind == 'dipole':
        n = int(rng.integers(4, 24)); L = n*segl
        wires.append((n, P([-L/2,0,0]), P([L/2,0,0]), rad))
    elif kind == 'vee':
        n1 = int(rng.integers(3, 12)); n2 = int(rng.integers(3,12))
        ang = np.radians(rng.uniform(40, 180))
        wires.append((n1, P([0,0,0]), P([n1*segl,0,0]), rad))
        wires.append((n2, P([0,0,0]), P([n2*segl*np.cos(ang), n2*segl*np.sin(ang),0]), rad))
    elif kind == 'L':
        n1 = int(rng.integers(3, 12)); n2 = int(rng.integers(3,12))
        wires.append((n1, P([0,0,0]), P([n1*segl,0,0]), rad))
        wires.append((n2, P([n1*segl,0,0]), P([n1*segl,0,n2*segl]), rad))
    elif kind == 'star':
        k = int(rng.integers(3,5))
        dirs = [[1,0,0],[-0.5,0.8660254,0],[-0.5,-0.8660254,0],[0,0,1]][:k]
        for d in dirs:
            n = int(rng.integers(3,9))
            wires.append((n, P([0,0,0]), P(np.array(d)*n*segl), rad))
    elif kind == 'loop':
        k = int(rng.choice([3,4,6]))
        n = int(rng.integers(2,8)); side = n*segl
        Rl = side/(2*np.sin(np.pi/k))
        pts = [[Rl*np.cos(2*np.pi*i/k), Rl*np.sin(2*np.pi*i/k), 0] for i in range(k)]
        for i in range(k):
            wires.append((n, P(pts[i]), P(pts[(i+1)%k]), rad))
    elif kind == 'yagi':
        k = int(rng.integers(2,4)); n = int(rng.integers(6,16))
        for i in range(k):
            L = n*segl*(1 - 0.05*i)
            wires.append((n, P([-L/2, i*lam*rng.uniform(0.1,0.3),0]), P([L/2, i*lam*0.2+0.0,0]), rad))
    elif kind == 'zig':
        k = int(rng.integers(2,5)); p=np.zeros(3)
        for i in range(k):
            n = int(rng.integers(2,8))
            d = np.array([1, (-1)**i*rng.uniform(0.3,1), rng.uniform(-.5,.5)]); d/=np.linalg.norm(d)
            q = p + d*n*segl
            wires.append((n, P(p), P(q), rad)); p=q
    argv = ['-f', '%.10g'%f]
    for w in wires: argv += ['-w', wire_str(*w)]
    return argv, dict(f=f, lam=lam, kind=str(kind), segl=segl, rad=rad)
