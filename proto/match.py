import numpy as np
def pulse_keys(m, T=lambda x: x, tol=1e-6):
    out=[]
    for p in m.pulses:
        out.append((T(np.array(p.point,float)), T(np.array(p.ends[0],float)), T(np.array(p.ends[1],float))))
    return out
def match(ma, mb, T=lambda x:x, tol=None):
    """ for each pulse of ma (geometry transformed by T) find pulse in mb with same point and same ends (either order)
        returns list of (idx_b, sign) """
    ka = pulse_keys(ma, T); kb = pulse_keys(mb)
    if tol is None: tol = 1e-6*max(np.linalg.norm(k[1]-k[2]) for k in ka)
    res=[]
    for (p,e0,e1) in ka:
        found=None
        for j,(q,f0,f1) in enumerate(kb):
            if np.linalg.norm(p-q) > tol: continue
            if np.linalg.norm(e0-f0)<tol and np.linalg.norm(e1-f1)<tol: found=(j,1); break
            if np.linalg.norm(e0-f1)<tol and np.linalg.norm(e1-f0)<tol: found=(j,-1); break
        res.append(found)
    return res
