import numpy as np
from numpy.polynomial.legendre import leggauss
XG, WG = leggauss(48)
def seg_int_vec(x, s0, s1, a, kw, thick):
    """ returns ∫ K ds' and ∫ gradK ds' (gradient wrt observation x) over segment, K = exp(-jkR)/R """
    t = (XG + 1)/2; w = WG/2
    L = np.linalg.norm(s1-s0)
    pts = s0[None,:] + (s1-s0)[None,:]*t[:,None]
    v = x[None,:] - pts
    R2 = (v*v).sum(1) + (a*a if thick else 0.0)
    R = np.sqrt(R2)
    K = np.exp(-1j*kw*R)/R
    dK = -(1 + 1j*kw*R) * np.exp(-1j*kw*R)/R**3   # dK/dR / R * v  => grad K = dK * v
    return (K*w).sum()*L, ((dK*w)[:,None]*v).sum(0)*L

def fields(m, x, n_sub=4):
    """ E, H at x from solved currents, free space or ideal ground """
    kw = m.w; srm = m.srm
    eta = 376.730313; 
    omega_mu_4pi = kw*eta/(4*np.pi)      # ωμ/4π = kη/4π
    inv_4pi_omega_eps = eta/(4*np.pi*kw) # 1/(4π ω ε) = η/(4π k)
    E = np.zeros(3, complex); H = np.zeros(3, complex)
    imgs = [1] if m.media is None else [1,-1]
    for p, I in zip(m.pulses, m.current):
        for k in imgs:
            if k < 0 and p.ground.any(): continue
            mir = np.array([1,1,k], float)
            P = np.array(p.point,float)*mir; E0 = np.array(p.ends[0],float)*mir; E1 = np.array(p.ends[1],float)*mir
            r0, r1 = p.geo[0].r, p.geo[1].r
            a_n = (P+E0)/2; b_n = (P+E1)/2
            for (s0, s1, r) in ((a_n, P, r0), (P, b_n, r1)):
                tau = (s1-s0)/np.linalg.norm(s1-s0)
                # subdivide for accuracy
                for q in range(n_sub):
                    u0 = s0 + (s1-s0)*q/n_sub; u1 = s0 + (s1-s0)*(q+1)/n_sub
                    Kint, gK = seg_int_vec(x, u0, u1, r, kw, r > srm)
                    E += k * (-1j*omega_mu_4pi) * I * tau * Kint
                    H += k * I * np.cross(gK, tau) / (4*np.pi)
            # charges: segment P->E1 has line charge density -I/(jω L1); segment E0->P has +I/(jω L0)
            L0 = np.linalg.norm(P-E0); L1 = np.linalg.norm(E1-P)
            for (s0, s1, r, dens) in ((P, E1, r1, -I/L1), (E0, P, r0, I/L0)):
                for q in range(n_sub):
                    u0 = s0 + (s1-s0)*q/n_sub; u1 = s0 + (s1-s0)*(q+1)/n_sub
                    Kint, gK = seg_int_vec(x, u0, u1, r, kw, r > srm)
                    # Φ = (1/4πε) ∫ ρ K ; ρ = dens/(jω) ;  E -= grad Φ
                    E += k * inv_4pi_omega_eps / 1j * dens * gK
    return E, H
