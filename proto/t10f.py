import common_fixed as _c; import sys; sys.modules["common"]=_c
from gen import *
import mininec; print(mininec.__file__)
from nfref import *
tests = [
 ("-f 7 -w 10,0,0,0,21.414285,0,0,0.001 --excitation-pulse=5", (3.,4.,5.)),
 ("-f 14 -w 5,0,0,0,5,1,0,0.001 -w 6,0,0,0,0,5,2,0.002 --excitation-pulse=2", (3.,3.,3.)),
 ("-f 14 -w 5,0,0,0,5,1,0,0.001 -w 6,5,1,0,5,5,2,0.002 --excitation-pulse=5", (3.,3.,3.)),
 ("-f 14 -w 5,0,0,0,5,1,0,0.001 -w 6,5,5,2,5,1,0,0.02 --excitation-pulse=5", (3.,3.,3.)),
 ("-f 14 -w 8,0,0,0,0,0,5,0.001 --medium=0,0,0 --excitation-pulse=1", (3.,3.,3.)),
 ("-f 14 -w 8,0,0,5,0,0,0,0.001 --medium=0,0,0 --excitation-pulse=8", (3.,3.,3.)),
 ("-f 14 -w 8,1,1,5,0,0,0,0.001 --medium=0,0,0 --excitation-pulse=8", (3.,3.,3.)),
]
for t, x in tests:
    m = build(t); m.compute()
    m.compute_near_field(x, (1,1,1), (1,1,1))
    e = m.e_field[0]; h = m.h_field[0]
    E, H = fields(m, np.array(x))
    print(t)
    print("  E code", np.round(e,6), "\n  E ref ", np.round(E,6), " rel %.3g"%(np.linalg.norm(e-E)/np.linalg.norm(E)))
    print("  H rel %.3g"%(np.linalg.norm(h-H)/np.linalg.norm(H)))
