from gen import *
from match import *
from field import *
A = "-f 14 -w 6,0,0,0,0,0,5,0.002 -w 4,0,0,5,3,1,5,0.002 -w 5,0,0,5,-3,-2,5.5,0.002"
B = "-f 14 -w 5,-3,-2,5.5,0,0,5,0.002 -w 6,0,0,5,0,0,0,0.002 -w 4,3,1,5,0,0,5,0.002"   # reversed + permuted
C = "-f 14 -w 2,0,0,0,0,0,1.6666666666666667,0.002 -w 4,0,0,1.6666666666666667,0,0,5,0.002 -w 4,0,0,5,3,1,5,0.002 -w 5,0,0,5,-3,-2,5.5,0.002"
for env in ("", " --medium=0,0,0"):
  ma = build(A+env+" --excitation-pulse=3"); ma.compute()
  fa = current_field(ma)
  for other in (B, C):
    mb0 = build(other+env+" --excitation-pulse=1")
    mt = match(ma, mb0)
    j, s = mt[2]
    mb = build(other+env+" --excitation-pulse=%d --excitation-voltage=%d"%(j+1, s)); mb.compute()
    print(env, ma.sources[0].impedance, mb.sources[0].impedance, cmp_fields(fa, current_field(mb)), np.linalg.cond(ma.Z))
    x=(2.,3.,4.)
    ma.compute_near_field(x,(1,1,1),(1,1,1)); mb.compute_near_field(x,(1,1,1),(1,1,1))
    print("   nf E rel", np.linalg.norm(ma.e_field[0]-mb.e_field[0])/np.linalg.norm(ma.e_field[0]), " H rel", np.linalg.norm(ma.h_field[0]-mb.h_field[0])/np.linalg.norm(ma.h_field[0]))
