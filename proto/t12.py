from gen import *
g  = "-f 14 -w 8,0,0,0,0,0,5,0.001 --medium=0,0,0 --excitation-pulse=1 --skin-effect-conductivity=1e4"
fs = "-f 14 -w 16,0,0,-5,0,0,5,0.001 --excitation-pulse=8 --skin-effect-conductivity=1e4"
mg = build(g); mg.compute(); mf = build(fs); mf.compute()
print(mg.sources[0].impedance, mf.sources[0].impedance/2)
for l in mg.loads: print([ (p.idx, l.impedance(14,p)) for p in l.pulses][:3])
for l in mf.loads: print([ (p.idx, l.impedance(14,p)) for p in l.pulses][6:9])
g  = "-f 14 -w 8,0,0,0,0,0,5,0.001 --medium=0,0,0 --excitation-pulse=1"
fs = "-f 14 -w 16,0,0,-5,0,0,5,0.001 --excitation-pulse=8"
mg = build(g); mg.compute(); mf = build(fs); mf.compute()
print(mg.sources[0].impedance, mf.sources[0].impedance/2)
