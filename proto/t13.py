from common import *
import tempfile, os, shlex
def run(argv):
    if isinstance(argv,str): argv=argv.split()
    out = io.StringIO(); err=io.StringIO()
    try:
        with contextlib.redirect_stdout(out), contextlib.redirect_stderr(err):
            r = main(argv, f_err=err)
    except SystemExit as e:
        return ('exit', e.code, out.getvalue(), err.getvalue())
    except BaseException as e:
        return ('EXC', repr(e), out.getvalue(), err.getvalue())
    return ('ret', r, out.getvalue(), err.getvalue())
def roundtrip(argv):
    if isinstance(argv,str): argv=argv.split()
    m = build(argv)
    txt = m.as_cmdline()
    args2 = [l for l in txt.split('\n') if l.strip()]
    # as the tests do: each line is option; split "-w x" style
    a2=[]
    for l in args2:
        a2 += l.split()
    try:
        m2 = build(a2)
    except BaseException as e:
        return txt, 'FAIL: %s'%e
    return txt, m2.as_cmdline()==txt
cases = [
 "-f 14 -w 5,0,0,0,5,0,0,0.001 --excitation-pulse=2 -l 50-20j --attach-load=1,3",
 "-f 14 -w 5,0,0,0,5,0,0,0.001 -w 5,5,0,0,5,5,0,0.001 --excitation-pulse=2 --excitation-pulse=6 --excitation-voltage=1 --excitation-voltage=2+1j",
 "-f 14 -w 7,5,0,0,0,5,0,0,0.001 -w 3,5,5,0,0,5,5,0,0.001 --excitation-pulse=2 --taper-wire=7,1",
 "-f 14 -w 5,0,0,0,5,0,0,0.001 -w 5,5,0,0,5,5,0,0.001 --excitation-pulse=2 --skin-effect-conductivity=1e5,1 --skin-effect-conductivity=2e5,2",
 "-f 14 -w 5,0,0,0,5,0,0,0.001 -w 5,5,0,0,5,5,0,0.001 --excitation-pulse=2 -l 50 --attach-load=1,all,2",
 "-f 14 -w 5,0,0,0,5,0,0,0.001 -w 5,5,0,0,5,5,0,0.001 --excitation-pulse=2 --rlc-load=0,1e-6,1e-11 --attach-load=1,3",
 "-f 14 -w 5,0,0,0,5,0,0,0.001 --excitation-pulse=2 --geo-rotate=1,10,20,30 --geo-translate=2,1,2,3 --geo-scale=1.5",
 "-f 14 -w 5,0,0,0,5,0,0,0.001 --excitation-pulse=2 --insulation-load=0.002,2.5",
 "-f 14.123456789 -w 5,0,0,0,5,0,0,0.001 --excitation-pulse=2 --excitation-voltage=1.23456789+0j",
 "-f 14 -w 5,0,0,1,5,0,1,0.001 --excitation-pulse=2 --medium=13,0.005,0,10 --medium=5,0.001,-1 --boundary=circular --radial-count=8 --radial-radius=0.001",
]
for c in cases:
    txt, ok = roundtrip(c)
    print(c, '\n   =>', ok)
    if ok is not True: print('   ', txt.replace('\n',' | '))
