from common import *
def info(argv):
    try:
        m = build(argv)
    except BaseException as e:
        return 'FAIL %r'%(e,)
    pts = [tuple(np.round(p.point,6)) for p in m.pulses]
    return len(m.pulses), [len(g.pulses) for g in m.geo], [p.idx for p in m.pulses]==list(range(len(m.pulses)))
cases = {
 'arc360 (12 seg, closed on itself) expect 12': "-f 14 -a 12,1,0,360,0.001 --excitation-pulse=1",
 'single-seg wires triangle expect 3': "-f 14 -w 1,0,0,0,1,0,0,0.001 -w 1,1,0,0,0,1,0,0.001 -w 1,0,1,0,0,0,0,0.001 --excitation-pulse=1",
 'square loop 4x3 expect 12': "-f 14 -w 3,0,0,0,1,0,0,0.001 -w 3,1,0,0,1,1,0,0.001 -w 3,1,1,0,0,1,0,0.001 -w 3,0,1,0,0,0,0,0.001 --excitation-pulse=1",
 'one-seg wire between two junctions: 3,1,3 expect 2+0+2+2=6': "-f 14 -w 3,0,0,0,1,0,0,0.001 -w 1,1,0,0,1.3,0,0,0.001 -w 3,1.3,0,0,2.3,0,0,0.001 --excitation-pulse=1",
 'one-seg wire alone + other: expect 0+2': "-f 14 -w 1,0,0,0,0.3,0,0,0.001 -w 3,0,1,0,1,1,0,0.001 --excitation-pulse=1",
 'star of 4 at first ends expect 4*2+3=11': "-f 14 -w 3,0,0,0,1,0,0,0.001 -w 3,0,0,0,0,1,0,0.001 -w 3,0,0,0,-1,0,0,0.001 -w 3,0,0,0,0,-1,0,0.001 --excitation-pulse=1",
 'star of 4 mixed ends expect 11': "-f 14 -w 3,1,0,0,0,0,0,0.001 -w 3,0,0,0,0,1,0,0.001 -w 3,-1,0,0,0,0,0,0.001 -w 3,0,0,0,0,-1,0,0.001 --excitation-pulse=1",
 'two wires both grounded vertical expect 3+3': "-f 14 -w 3,0,0,0,0,0,1,0.001 -w 3,1,0,0,1,0,1,0.001 --medium=0,0,0 --excitation-pulse=1",
 'two wires at same ground point (V) expect 3+3?': "-f 14 -w 3,0,0,0,1,0,1,0.001 -w 3,0,0,0,-1,0,1,0.001 --medium=0,0,0 --excitation-pulse=1",
 'grounded one-seg wire + top wire expect 1+ 1 + 2': "-f 14 -w 1,0,0,0,0,0,0.3,0.001 -w 3,0,0,0.3,1,0,0.3,0.001 --medium=0,0,0 --excitation-pulse=1",
 'fuzzy match within tol': "-f 14 -w 3,0,0,0,1,0,0,0.001 -w 3,1.0001,0,0,2,0,0,0.001 --excitation-pulse=1",
 'fuzzy match outside tol': "-f 14 -w 3,0,0,0,1,0,0,0.001 -w 3,1.001,0,0,2,0,0,0.001 --excitation-pulse=1",
 'chain through fuzzy (A~B, B~C but A!~C)': "-f 14 -w 3,0,0,0,1,0,0,0.001 -w 3,1.0003,0,0,2,0,0,0.001 -w 3,1.0006,0,0,1,1,0,0.001 --excitation-pulse=1",
}
for k,v in cases.items(): print(k, '->', info(v))
