from common import *
import traceback, collections, re, warnings
warnings.simplefilter('ignore')
np.seterr(all='ignore')
def run(argv):
    out = io.StringIO(); err=io.StringIO()
    try:
        with contextlib.redirect_stdout(out), contextlib.redirect_stderr(err):
            r = main(argv, f_err=err)
    except SystemExit as e:
        return ('exit', e.code, out.getvalue(), err.getvalue(), None)
    except BaseException as e:
        tb = traceback.extract_tb(e.__traceback__)
        fr = [f for f in tb if 'mininec' in f.filename][-1]
        return ('EXC', type(e).__name__, out.getvalue(), err.getvalue(), "%s:%s:%d %s"%(type(e).__name__, fr.name, fr.lineno, str(e)[:60]))
    return ('ret', r, out.getvalue(), err.getvalue(), None)
rng = np.random.default_rng(int(sys.argv[1]))
vals = ['0','-1','1','2','3','1e-3','0.5','1e9','-1e9','nan','inf','-inf','1e-300','7','10','100','0.001','5']
def v(): return str(rng.choice(vals))
def fl(n): return ','.join(v() for _ in range(n))
def rnd_argv():
    a=[]
    if rng.random()<0.8: a += ['-f', v()]
    for _ in range(rng.integers(0,3)):
        n = rng.choice(['1','2','5','0','-3','10'])
        if rng.random()<0.7:
            a += ['-w', '%s,%s'%(n, ','.join(str(rng.choice(['0','0','1','2','5','-1','0.5'])) for _ in range(6))+','+str(rng.choice(['0.001','0.01','0','-1','1','nan'])))]
        else:
            a += ['-w', '%s,%s'%(n, fl(7))]
    if rng.random()<0.15: a += ['-a', '%s,%s'%(rng.choice(['3','5','2','8']), fl(4))]
    if rng.random()<0.15: a += ['--helix', '%s,%s'%(rng.choice(['3','5','20','8']), fl(int(rng.choice([5,7]))))]
    if rng.random()<0.3: a += ['--medium', rng.choice(['0,0,0','13,0.005,0','0,1,0','5,0,0','13,0.005,0,5', fl(3), fl(4)])]
    if rng.random()<0.1: a += ['--medium', rng.choice(['13,0.005,-1','0,0,0',fl(3)])]
    if rng.random()<0.1: a += ['--radial-count', rng.choice(['0','4','-2'])]+ (['--radial-radius', v()] if rng.random()<0.7 else [])
    if rng.random()<0.5: a += ['--excitation-pulse', rng.choice(['1','2','0','-1','100','1,1','2,2','1,9','x'])]
    if rng.random()<0.2: a += ['--excitation-voltage', rng.choice(['1','0','1+1j','nan','inf','1e300j'])]
    if rng.random()<0.3:
        k = rng.choice(['-l','--rlc-load','--trap-load','--laplace-load-a','--laplace-load-b'])
        a += [k, rng.choice(['50','0','50+5j','nan']) if k=='-l' else fl(int(rng.integers(1,4)))]
        if rng.random()<0.9: a += ['--attach-load', rng.choice(['1,1','1,all','1,2,1','1,all,1','2,1','0,1','1,0','1,-1'])]
    if rng.random()<0.15: a += ['--skin-effect-conductivity', rng.choice(['1e5','0','-1','nan','1e5,1','1e5,7','inf'])]
    if rng.random()<0.1: a += ['--skin-effect-resistivity', rng.choice(['1e-5','0','-1','nan','1e-5,1'])]
    if rng.random()<0.15: a += ['--insulation-load', rng.choice(['0.002,2','0,2','0.002,0','0.002,1','1,nan','0.002,2,1','0.002,-2'])]
    if rng.random()<0.2: a += ['--taper-wire', rng.choice(['1,1','1,2','1,3','1,3,0.1','1,1,0.1,0.05','1,1,0,0','2,1','1,1,nan'])]
    if rng.random()<0.15: a += ['--geo-rotate', rng.choice(['1,0,0,90','1,nan,0,0','1,10,20,30,1','1,10,20,30,9'])]
    if rng.random()<0.15: a += ['--geo-translate', rng.choice(['1,0,0,1','1,inf,0,0','2,0,0,-1,1'])]
    if rng.random()<0.15: a += ['--geo-scale', rng.choice(['2','0','-1','nan','1e-9','2,1','2,9'])]
    if rng.random()<0.2: a += ['--theta', rng.choice(['0,10,10','0,0,1','0,10,0','0,10,-1','nan,10,3','0,inf,3','90,10,3'])]
    if rng.random()<0.2: a += ['--phi', rng.choice(['0,10,10','0,0,1','0,10,0','nan,1,2'])]
    if rng.random()<0.2: a += ['--near-field', rng.choice(['1,1,1,1,1,1,2,2,2','0,0,0,1,1,1,1,1,1','1,1,1,0,0,0,1,1,1','1,1,1,1,1,1,0,1,1','1,1,1,0.1,0.1,0.1,3,3,3','1,1,1,1,1,1,-1,1,1','nan,1,1,1,1,1,1,1,1'])]
    if rng.random()<0.2: a += ['--option', rng.choice(['far-field','near-field','far-field-absolute','none'])]
    if rng.random()<0.1: a += ['--ff-power', v()]
    if rng.random()<0.1: a += ['--ff-distance', v()]
    if rng.random()<0.1: a += ['--nf-power', v()]
    if rng.random()<0.1: a += ['--frequency-steps', rng.choice(['2','0','-1']), '--frequency-increment', v()]
    return [str(x) for x in a]
mech = collections.Counter(); ex = {}
nanrep = 0; nanex=None; cnt=collections.Counter()
for i in range(int(sys.argv[2])):
    a = rnd_argv()
    r = run(a)
    cnt[r[0]+str(r[1])]+=1
    if r[0]=='EXC':
        mech[r[4]]+=1; ex.setdefault(r[4], a)
    elif r[0]=='ret' and r[1] is None:
        if re.search(r'\bnan\b|\binf\b', r[2], re.I):
            nanrep+=1; nanex = nanex or a
print(cnt)
for k,c in mech.most_common(): print(c, k, '\n      ', ' '.join(ex[k]))
print('nan reports', nanrep, nanex)
