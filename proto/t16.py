from gen import *
# C10: far field from currents: point-moment sum and exact integral
def ff_ref(m, th, ph, exact=False):
    kw = m.w
    rhat = np.array([np.sin(th)*np.cos(ph), np.sin(th)*np.sin(ph), np.cos(th)])
    that = np.array([np.cos(th)*np.cos(ph), np.cos(th)*np.sin(ph), -np.sin(th)])
    phat = np.array([-np.sin(ph), np.cos(ph), 0])
    N = np.zeros(3, complex)
    imgs = [1] if m.media is None else [1,-1]
    for p, I in zip(m.pulses, m.current):
        for k in imgs:
            mir = np.array([1,1,k], float)
            P = np.array(p.point,float); E0=np.array(p.ends[0],float); E1=np.array(p.ends[1],float)
            halves = [((P+E0)/2, P, 0), (P, (P+E1)/2, 1)]
            for (s0, s1, hi) in halves:
                if m.media is not None:
                    # skip the half that lies below ground (image half of grounded pulse) for k=1; for k=-1 skip halves of grounded pulses' image? 
                    if p.ground[hi]: continue
                s0m = s0*mir; s1m = s1*mir
                vec = (s1m - s0m) * k      # image current = -mirror(dir) -> k * (mirrored vector)... check
                # image: J_img = -M J ; M J direction = mir*(s1-s0); so vec = -mir*(s1-s0) for k=-1 = k * mir*(s1-s0)
                if exact:
                    L = np.linalg.norm(s1-s0)
                    mid = (s0m+s1m)/2; u = (s1m-s0m)/L
                    x = kw*L/2*(u@rhat)
                    sinc = np.sinc(x/np.pi)
                    N += I*vec*np.exp(1j*kw*(mid@rhat))*sinc
                else:
                    N += I*vec*np.exp(1j*kw*((P*mir)@rhat))
    eta = 376.730313
    # E = -j k eta /(4 pi r) e^{-jkr} (N_theta, N_phi)
    c = -1j*kw*eta/(4*np.pi)
    return c*(N@that), c*(N@phat)
tests = ["-f 14 -w 6,0,0,0,1,2,5,0.002 -w 4,1,2,5,3,1,5,0.002 -w 5,1,2,5,-3,-2,5.5,0.002 --excitation-pulse=3",
         "-f 14 -w 6,0,0,0,1,2,5,0.002 -w 4,1,2,5,3,1,5,0.002 -w 5,1,2,5,-3,-2,5.5,0.002 --excitation-pulse=3 --medium=0,0,0",
         "-f 14 -w 6,1,2,5,0,0,0,0.002 -w 4,1,2,5,3,1,5,0.002 --excitation-pulse=6 --medium=0,0,0"]
for t in tests:
    m = build(t); m.compute()
    zen = Angle(5, 17, 5); azi = Angle(3, 47, 7)
    m.compute_far_field(zen, azi, pwr=None, dist=1.0)
    ff = m.far_field
    worst=[0,0]; mx=0
    for i,a in enumerate(azi.angle_rad()):
        for j,z in enumerate(zen.angle_rad()):
            et, ep = ff.e_theta[i,j] if ff.e_theta.shape[0]==len(azi.angle_rad()) else ff.e_theta[j,i], None
    print(ff.e_theta.shape, ff.gain.shape, ff.zen.shape)
    E = np.array([[ff_ref(m, z, a) for z in zen.angle_rad()] for a in azi.angle_rad()])
    Ex = np.array([[ff_ref(m, z, a, True) for z in zen.angle_rad()] for a in azi.angle_rad()])
    et = ff.e_theta; ep = ff.e_phi
    mx = max(np.abs(E).max(), 1e-30)
    print(" pt-moment: theta dev %.3g phi dev %.3g (abs of mags)"%(np.max(np.abs(np.abs(et)-np.abs(E[...,0])))/mx, np.max(np.abs(np.abs(ep)-np.abs(E[...,1])))/mx))
    print(" complex dev theta %.3g phi %.3g"%(np.max(np.abs(et-E[...,0]))/mx, np.max(np.abs(ep-E[...,1]))/mx))
    print(" exact: dev %.3g %.3g"%(np.max(np.abs(np.abs(et)-np.abs(Ex[...,0])))/mx, np.max(np.abs(np.abs(ep)-np.abs(Ex[...,1])))/mx))
    # gain consistency: gain = |E|^2 r^2/(59.96 P)
    g = 10**(ff.gain/10)
    P = m.power
    gv = np.abs(et)**2/(59.96*P); gh = np.abs(ep)**2/(59.96*P)
    print(" gain cons", np.max(np.abs(gv.T-g[...,0])/np.maximum(g[...,2],1e-12)) if gv.T.shape==g[...,0].shape else (gv.shape,g.shape))
