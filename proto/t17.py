from common import *
from mininec.taper import taper1, taper2, Taper_Error
import collections
rng = np.random.default_rng(3)
bad = collections.Counter(); ex={}
tot=0; acc=0
for it in range(20000):
    n = int(rng.integers(2, 60)); L = 10**rng.uniform(-1, 2)
    r = L/n/ 10**rng.uniform(0.5, 3)
    end = int(rng.integers(0,3))   # 0,1 -> taper1 ; 2 -> taper2
    min_t = 0 if rng.random()<0.5 else L/n*rng.uniform(0.01, 1.0)
    max_t = None if rng.random()<0.5 else L/n*rng.uniform(1.0, 8)
    d = np.array([1.,2.,2.])/3; p1 = rng.normal(size=3); p2 = p1 + d*L
    tot+=1
    try:
        if end<2: segs = list(taper1(p1,p2,n,r,min_t,max_t,end))
        else: segs = list(taper2(p1,p2,n,r,min_t,max_t))
    except Taper_Error: bad['Taper_Error']+=1; continue
    except AssertionError as e:
        bad['Assert']+=1; ex.setdefault('Assert',(n,L,r,end,min_t,max_t)); continue
    acc+=1
    lens = np.array([np.linalg.norm(b-a) for a,b in segs])
    ok_chain = all(np.allclose(segs[i][1], segs[i+1][0], atol=1e-12*L) for i in range(n-1)) and np.allclose(segs[0][0],p1) and np.allclose(segs[-1][1],p2)
    if len(segs)!=n: bad['count']+=1; ex.setdefault('count',(n,L,r,end,min_t,max_t))
    if not ok_chain: bad['chain']+=1
    if (lens<=0).any(): bad['nonpos']+=1; ex.setdefault('nonpos',(n,L,r,end,min_t,max_t))
    lo = max(2.5*r, min_t)
    if lens.min() < lo*(1-1e-9): bad['below_min']+=1; ex.setdefault('below_min',(n,L,r,end,min_t,max_t,lens.min(),lo))
    if max_t is not None and lens.max() > max_t*(1+1e-9): bad['above_max']+=1; ex.setdefault('above_max',(n,L,r,end,min_t,max_t,lens.max()))
    # growth from tapered end(s)
    if end==0: seq=lens
    elif end==1: seq=lens[::-1]
    else: seq=None
    if seq is not None:
        ratio = seq[1:]/seq[:-1]
        if ratio.max()>2.1: bad['ratio>2.1']+=1; ex.setdefault('ratio>2.1',(n,L,r,end,min_t,max_t,ratio.max()))
        if ratio.min()<1-1e-9: bad['shrinks']+=1; ex.setdefault('shrinks',(n,L,r,end,min_t,max_t,ratio.min(), list(np.round(seq,4))))
    else:
        h=n//2
        ratio = lens[1:h+ (n&1)]/lens[:h+(n&1)-1] if h>1 else np.array([1.0])
        if ratio.max()>2.1: bad['ratio2>2.1']+=1; ex.setdefault('ratio2>2.1',(n,L,r,end,min_t,max_t,ratio.max()))
        if not np.allclose(lens, lens[::-1], rtol=1e-6): bad['asym']+=1; ex.setdefault('asym',(n,L,r,end,min_t,max_t,list(np.round(lens,4))))
print(tot, acc, bad)
for k,v in ex.items(): print(k, v)
