from common import *
base = "-f 14 -w 7,4,0,0,0,1,0,0,0.001 -w 3,5,1,0,0,1,2,0,0.001 -w 12,3,1,2,0,0,2,0,0.001 -a 5,6,1,0,90,0.001"
m = build(base+" --excitation-pulse=1")
print(m.wires_as_mininec().split('ANTENNA GEOMETRY')[1])
for g in m.geo: print(g.tag, g.n, [p.idx+1 for p in g.pulses])
# per-object vs absolute
for tag in (3,5,7,12):
    g = m.geo.by_tag[tag]
    for k,p in enumerate(g.pulses):
        a = build(base+" --excitation-pulse=%d,%d -l 50 --attach-load=1,%d,%d"%(k+1,tag,k+1,tag)); a.compute()
        b = build(base+" --excitation-pulse=%d -l 50 --attach-load=1,%d"%(p.idx+1,p.idx+1)); b.compute()
        assert a.sources[0].idx==b.sources[0].idx==p.idx, (tag,k)
        assert a.loads[0].pulses[0].idx==p.idx
        assert abs(a.sources[0].impedance-b.sources[0].impedance)<1e-9
print("ok")
a = build(base+" --excitation-pulse=1 -l 50 --attach-load=1,all,7"); print([p.idx+1 for p in a.loads[0].pulses])
a = build(base+" --excitation-pulse=1 -l 50 --attach-load=1,all"); print([p.idx+1 for p in a.loads[0].pulses])
a = build(base+" --excitation-pulse=1 --skin-effect-conductivity=1e5,7"); a_l=[(l.__class__.__name__,[p.idx+1 for p in l.pulses]) for l in a.loads]; print(a_l)
a = build(base+" --excitation-pulse=1 --skin-effect-conductivity=1e5"); a_l=[(l.__class__.__name__,[p.idx+1 for p in l.pulses]) for l in a.loads]; print(a_l)
