from common import *
argv = "-f 14 -w 3,0,0,0,1,0,0,0.001 -w 3,0,1,0,1,1,0,0.001 -w 3,0,2,0,1,2,0,0.001 -w 3,0,3,0,1,3,0,0.001 -w 2,0,4,0,1,4,0,0.001 --excitation-pulse=1 -l 50 --attach-load=1,all,1 --attach-load=1,all,2 --attach-load=1,all,3 --attach-load=1,all,4"
outs=set(); keep=[]
for i in range(40):
    keep.append([object() for _ in range(np.random.randint(1,50))])
    keep.append([ [0]*np.random.randint(1,30) for _ in range(np.random.randint(1,50))])
    m = build(argv)
    t = m.as_cmdline()
    outs.add(t)
print(len(outs))
for o in list(outs)[:3]: print([l for l in o.split('\n') if 'attach' in l])
