from gen import *
rng = np.random.default_rng(int(sys.argv[1]) if len(sys.argv)>1 else 0)
res=[]
for i in range(60):
    argv, meta = gen_free(rng)
    m0 = build(argv + ['--excitation-pulse=1'])
    N = len(m0.pulses)
    p = int(rng.integers(1, N+1))
    m = build(argv + ['--excitation-pulse=%d'%p])
    m.compute()
    cond = np.linalg.cond(m.Z)
    pr = prad_ratio(m, 60, 72)
    S = abs(m.sources[0].voltage*m.sources[0].current)/2
    err = (m.power - pr*m.power)/S
    res.append((abs(err), meta['kind'], N, p, cond, m.sources[0].impedance, meta['segl']/meta['lam'], meta['segl']/meta['rad']))
res.sort(key=lambda x:-x[0])
for r in res[:15]: print("%.4f %s N=%d p=%d cond=%.3g Z=%s segl/lam=%.4f segl/r=%.1f"%r)
print("median", np.median([r[0] for r in res]))
