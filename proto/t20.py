from gen import *
geo = "-f 14 -w 6,0,0,0,1,2,5,0.002 -w 4,1,2,5,3,1,5,0.002 -w 5,1,2,5,-3,-2,5.5,0.002 --excitation-pulse=3"
zen = Angle(0, 10, 9); azi = Angle(0, 45, 8)
def gain(env):
    m = build(geo+" "+env); m.compute(); m.compute_far_field(zen, azi); return m, m.far_field.gain
mi, gi = gain("--medium=0,0,0")
for s in (1e2, 1e4, 1e6, 1e8, 1e10, 1e12):
    m, g = gain("--medium=10,%g,0"%s)
    print(s, np.max(np.abs(m.current-mi.current)), np.max(np.abs(10**(g[...,2]/10)-10**(gi[...,2]/10)))/np.max(10**(gi[...,2]/10)))
# splitting
m1, g1 = gain("--medium=13,0.005,0")
m2, g2 = gain("--medium=13,0.005,0,7 --medium=13,0.005,0")
m3, g3 = gain("--medium=13,0.005,0,7 --medium=13,0.005,0 --boundary=circular")
print("split lin", np.max(np.abs(g1-g2)), "split circ", np.max(np.abs(g1-g3)))
# further medium beyond all reflection points: max reflection distance: h*tan(theta) at 80deg: 5.5*5.67=31 + 3
m4, g4 = gain("--medium=13,0.005,0,1000 --medium=3,0.0001,-2")
print("far medium", np.max(np.abs(g1-g4)))
m5, g5 = gain("--medium=13,0.005,0,1000 --medium=3,0.0001,-2 --boundary=circular")
print("far medium circ", np.max(np.abs(g1-g5)))
# radials with zero... radials: nr wires; with far medium
m6, g6 = gain("--medium=13,0.005,0,20 --medium=13,0.005,0 --radial-count=16 --radial-radius=0.001")
print("radials differ", np.max(np.abs(g1-g6)))
