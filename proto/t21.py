from gen import *
from field import *
rng = np.random.default_rng(11)
worst=0
for it in range(30):
    argv, meta = gen_free(rng)
    m0 = build(argv+['--excitation-pulse=1']); N=len(m0.pulses); p=int(rng.integers(1,N+1))
    a = build(argv+['--excitation-pulse=%d'%p]); a.compute()
    ang = rng.uniform(-180,180,3); tr = rng.uniform(-1,1,3)*meta['lam']*50; s = 10**rng.uniform(-2,2)
    f = meta['f']
    argv2 = ['-f','%.17g'%(f/s)] + argv[2:] + ['--geo-rotate=1,%.17g,%.17g,%.17g'%tuple(ang), '--geo-translate=2,%.17g,%.17g,%.17g'%tuple(tr), '--geo-scale=%.17g'%s, '--excitation-pulse=%d'%p]
    b = build(argv2); b.compute()
    R = MM.Rotation_Matrix(ang).m
    T = lambda x: (R@x + tr)*s
    fa = current_field(a, T=lambda x: T(x)/s*1.0, Tv=lambda v: R@v)  # keys in units of L: a's L vs b's L differ by s
    # simpler: compare currents by pulse index (same ordering expected) and impedance
    di = np.max(np.abs(a.current-b.current))/np.max(np.abs(a.current))
    dz = abs(a.sources[0].impedance-b.sources[0].impedance)/abs(a.sources[0].impedance)
    c = np.linalg.cond(a.Z)
    worst=max(worst, di/max(5e-4, 5e-7*c))
    if di>1e-5: print(meta['kind'], N, "cond %.3g di %.3g dz %.3g s=%.3g"%(c, di, dz, s))
print("worst ratio to tol", worst)
