from gen import *
from field import *
from match import *
M = np.array([1,1,-1.0])
def mirror_model(wires, f, srcs):
    """ wires: list of (n,p1,p2,r); srcs: list of (pulse_idx_in_ground_model, V) """
    gargv = ['-f','%.12g'%f,'--medium=0,0,0']; fargv=['-f','%.12g'%f]
    for (n,p1,p2,r) in wires:
        gargv += ['-w', wire_str(n,p1,p2,r)]
        fargv += ['-w', wire_str(n,p1,p2,r)]
    for (n,p1,p2,r) in wires:
        fargv += ['-w', wire_str(n,p1*M,p2*M,r)]
    g0 = build(gargv+['--excitation-pulse=1']); f0 = build(fargv+['--excitation-pulse=1'])
    # map sources
    gs=[]; fs=[]
    kb = pulse_keys(f0)
    for (pi, V) in srcs:
        gs += ['--excitation-pulse=%d'%(pi+1), '--excitation-voltage=%r'%complex(V)]
        p = g0.pulses[pi]
        P=np.array(p.point,float); E0=np.array(p.ends[0],float); E1=np.array(p.ends[1],float)
        def find(P,E0,E1):
            for j,(q,f0_,f1_) in enumerate(kb):
                if np.linalg.norm(P-q)<1e-9:
                    if np.linalg.norm(E0-f0_)<1e-9 and np.linalg.norm(E1-f1_)<1e-9: return j,1
                    if np.linalg.norm(E0-f1_)<1e-9 and np.linalg.norm(E1-f0_)<1e-9: return j,-1
            raise KeyError
        if p.ground.any():
            j,s = find(P,E0,E1)
            fs += ['--excitation-pulse=%d'%(j+1), '--excitation-voltage=%r'%complex(2*V*s)]
        else:
            j,s = find(P,E0,E1)
            fs += ['--excitation-pulse=%d'%(j+1), '--excitation-voltage=%r'%complex(V*s)]
            # image: pulse at mirrored location; image current = -M(J): pulse from M E0 -> M E1 has direction M t; so I' = -I if same orientation
            j2,s2 = find(P*M,E0*M,E1*M)
            fs += ['--excitation-pulse=%d'%(j2+1), '--excitation-voltage=%r'%complex(-V*s2)]
    g = build(gargv+gs); fm = build(fargv+fs)
    g.compute(); fm.compute()
    return g, fm
def upper(field):
    return {k:v for k,v in field.items() if k[2]>0}
f=14.0
cases = [
 ([(8,np.array([0,0,0.]),np.array([1,2,5.]),0.005),(6,np.array([1,2,5.]),np.array([5,2,5.5]),0.005)], [(0,1+0.5j)]),
 ([(8,np.array([0,0,0.]),np.array([1,2,5.]),0.005),(6,np.array([1,2,5.]),np.array([5,2,5.5]),0.005)], [(3,1+0.5j)]),
 ([(8,np.array([1,2,5.]),np.array([0,0,0.]),0.005),(6,np.array([5,2,5.5]),np.array([1,2,5.]),0.002)], [(7,1.0),(10,0.3j)]),
 ([(8,np.array([0,0,2.]),np.array([4,1,2.]),0.005)], [(3,1.0)]),
]
for wires, srcs in cases:
    g, fm = mirror_model(wires, f, srcs)
    fg = upper(current_field(g)); ff = upper(current_field(fm))
    print(cmp_fields(fg, ff), [s.impedance for s in g.sources], [s.impedance for s in fm.sources][:2], np.linalg.cond(g.Z))
    zen = Angle(5,10,9); azi=Angle(0,30,12)
    g.compute_far_field(zen,azi); fm.compute_far_field(zen,azi)
    print("   gain diff-3.0103 max", np.max(np.abs(g.far_field.gain[...,2]-fm.far_field.gain[...,2]-3.0103)))
