from gen import *
rng = np.random.default_rng(128)
argv, meta = gen_free(rng)
print(meta); print(argv)
m = build(argv+['--excitation-pulse=13']); m.compute()
# min distance between wires
import itertools
def segdist(a0,a1,b0,b1,n=200):
    t=np.linspace(0,1,n); A=a0[None]+(a1-a0)[None]*t[:,None]; B=b0[None]+(b1-b0)[None]*t[:,None]
    return np.min(np.linalg.norm(A[:,None,:]-B[None,:,:],axis=2))
for g1,g2 in itertools.combinations(m.geo,2):
    print(g1.tag,g2.tag, segdist(g1.p1,g1.p2,g2.p1,g2.p2)/meta['segl'])
print(prad_ratio(m,120,144))
