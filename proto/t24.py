import sys; sys.path.insert(0,'/tmp/explore/deps')
from common import *
import icontract
class PostBroken(Exception): pass
cnt = {'n':0}
def nf_count_ok(self, start, inc, nvec, result):
    cnt['n']+=1
    n = int(np.prod([int(x) for x in nvec]))
    return len(self.e_field)==n and self.near_field_coord.shape==(3,n)
_orig = MM.Mininec.compute_near_field
def compute_near_field(self, start, inc, nvec, pwr=None):
    return _orig(self, start, inc, nvec, pwr)
MM.Mininec.compute_near_field = icontract.ensure(nf_count_ok, error=PostBroken)(compute_near_field)
m = build("-f 7 -w 10,0,0,0,21.414285,0,0,0.001 --excitation-pulse=5"); m.compute()
m.compute_near_field((0,1,1),(1,1,1),(2,2,2)); print('ok', cnt)
try:
    m.compute_near_field((0,1,1),(.1,.1,.1),(3,3,3))
except PostBroken as e: print('fired', str(e)[:200])
# sys.monitoring anchor coverage
import sys
mon = sys.monitoring; TID = 3
mon.use_tool_id(TID, 'anchors')
hits=set()
code_file = MM.__file__
def line_cb(code, line):
    if code.co_filename == code_file: hits.add(line)
    return mon.DISABLE
mon.register_callback(TID, mon.events.LINE, line_cb)
mon.set_events(TID, mon.events.LINE)
t=time.time()
m = build("-f 7.15 -w 5,0,0,0,0,0,10.0838,0.0127 --medium=13,0.005,0 --excitation-pulse=1"); m.compute(); m.compute_far_field(Angle(0,10,9), Angle(0,10,36))
mon.set_events(TID, 0)
print(time.time()-t, len(hits), sorted(h for h in hits if 2426<=h<=2519)[:10])
