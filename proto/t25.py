from gen import *
# C07 quick: linearity / superposition / source data
m = lambda extra: build("-f 14 -w 6,0,0,0,1,2,5,0.002 -w 4,1,2,5,3,1,5,0.002 -w 5,1,2,5,-3,-2,5.5,0.002 --medium=0,0,0 "+extra)
a = m("--excitation-pulse=1 --excitation-voltage=1+2j --excitation-pulse=8 --excitation-voltage=0.3-1j"); a.compute()
b = m("--excitation-pulse=1 --excitation-voltage=1+2j --excitation-pulse=8 --excitation-voltage=0"); b.compute()
c = m("--excitation-pulse=1 --excitation-voltage=0 --excitation-pulse=8 --excitation-voltage=0.3-1j"); c.compute()
print(np.max(abs(a.current-b.current-c.current))/np.max(abs(a.current)))
for s in a.sources: print(s.idx, s.impedance, s.voltage/a.current[s.idx], s.power, (0.5*s.voltage*np.conj(a.current[s.idx])).real)
# zero-volt source: impedance 0/I
print([s.impedance for s in b.sources])
out=io.StringIO()
with contextlib.redirect_stdout(out): main("-f 14 -w 6,0,0,0,1,2,5,0.002 --excitation-pulse=1 --excitation-voltage=0 --excitation-pulse=3 --option=none".split())
print(out.getvalue()[-900:])
