from gen import *
from zref import *
from nfref import fields
import multiprocessing as mp
exec(open('t16.py').read().split("tests = [")[0])   # import ff_ref
def one(seed):
    rng = np.random.default_rng(seed); out=[]
    for i in range(6):
        argv, meta = gen_free(rng)
        if meta['segl']/meta['lam'] > 1/18: continue
        m = build(argv+['--excitation-pulse=1']); N=len(m.pulses); p=int(rng.integers(1,N+1))
        m = build(argv+['--excitation-pulse=%d'%p]); m.compute()
        zen = Angle(7, 23, 8); azi = Angle(11, 37, 10)
        m.compute_far_field(zen, azi, dist=1.0)
        ff=m.far_field
        E = np.array([[ff_ref(m, z, a) for z in zen.angle_rad()] for a in azi.angle_rad()])
        Ex = np.array([[ff_ref(m, z, a, True) for z in zen.angle_rad()] for a in azi.angle_rad()])
        mx = np.abs(E).max()
        d1 = max(np.max(np.abs(ff.e_theta-E[...,0])), np.max(np.abs(ff.e_phi-E[...,1])))/mx
        d2 = max(np.max(np.abs(ff.e_theta-Ex[...,0])), np.max(np.abs(ff.e_phi-Ex[...,1])))/mx
        out.append((d1,d2,meta['kind'],meta['segl']/meta['lam']))
    return out
if __name__=='__main__':
    with mp.Pool(16) as pool: res=sum(pool.map(one, range(300,332)),[])
    print(len(res), "pt-moment max %.3g"%max(r[0] for r in res), "exact max %.3g"%max(r[1] for r in res))
    print(sorted(res,key=lambda r:-r[1])[:5])
