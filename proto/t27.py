from gen import *
exec(open('t16.py').read().split("tests = [")[0])
import multiprocessing as mp
def one(seed):
    rng = np.random.default_rng(seed); out=[]
    for i in range(10):
        argv, meta = gen_free(rng, kind='loop')
        if meta['segl']/meta['lam'] > 1/18: continue
        m = build(argv+['--excitation-pulse=1']); N=len(m.pulses); p=int(rng.integers(1,N+1))
        m = build(argv+['--excitation-pulse=%d'%p]); m.compute()
        zen = Angle(7, 23, 8); azi = Angle(11, 37, 10)
        m.compute_far_field(zen, azi, dist=1.0)
        ff=m.far_field
        Ex = np.array([[ff_ref(m, z, a, True) for z in zen.angle_rad()] for a in azi.angle_rad()])
        mx = np.abs(Ex).max()
        d2 = max(np.max(np.abs(ff.e_theta-Ex[...,0])), np.max(np.abs(ff.e_phi-Ex[...,1])))/mx
        perim = N*meta['segl']/meta['lam']
        out.append((round(d2,4), len(m.geo), N, round(meta['segl']/meta['lam'],4), round(perim,3), round(float(ff.gain[...,2].max()),2)))
    return out
if __name__=='__main__':
    with mp.Pool(16) as pool: res=sum(pool.map(one, range(400,416)),[])
    for r in sorted(res, key=lambda r:-r[0])[:12]: print(r)
