from gen import *
def ff_ref2(m, th, ph, mode):
    """ mode: 'pt' | 'exact' | 'exact_straight' """
    kw = m.w
    rhat = np.array([np.sin(th)*np.cos(ph), np.sin(th)*np.sin(ph), np.cos(th)])
    that = np.array([np.cos(th)*np.cos(ph), np.cos(th)*np.sin(ph), -np.sin(th)])
    phat = np.array([-np.sin(ph), np.cos(ph), 0])
    N = np.zeros(3, complex)
    for p, I in zip(m.pulses, m.current):
        P = np.array(p.point,float); E0=np.array(p.ends[0],float); E1=np.array(p.ends[1],float)
        t0 = (P-E0)/np.linalg.norm(P-E0); t1=(E1-P)/np.linalg.norm(E1-P)
        straight = np.linalg.norm(t0-t1) < 1e-9
        for (s0, s1) in (((P+E0)/2, P), (P, (P+E1)/2)):
            vec = s1-s0
            if mode=='exact' or (mode=='exact_straight' and straight):
                L = np.linalg.norm(vec); mid=(s0+s1)/2; u=vec/L
                N += I*vec*np.exp(1j*kw*(mid@rhat))*np.sinc(kw*L/2*(u@rhat)/np.pi)
            else:
                N += I*vec*np.exp(1j*kw*(P@rhat))
    c = -1j*kw*376.730313/(4*np.pi)
    return c*(N@that), c*(N@phat)
rng = np.random.default_rng(400)
for i in range(10):
    argv, meta = gen_free(rng, kind='loop')
    if meta['segl']/meta['lam'] > 1/18: continue
    m = build(argv+['--excitation-pulse=2']); m.compute()
    zen = Angle(7, 23, 8); azi = Angle(11, 37, 10)
    m.compute_far_field(zen, azi, dist=1.0); ff=m.far_field
    r={}
    for mode in ('pt','exact','exact_straight'):
        E = np.array([[ff_ref2(m, z, a, mode) for z in zen.angle_rad()] for a in azi.angle_rad()])
        mx=np.abs(E).max()
        r[mode] = max(np.max(np.abs(ff.e_theta-E[...,0])), np.max(np.abs(ff.e_phi-E[...,1])))/mx
    print(len(m.geo), len(m.pulses), {k: round(float(v),5) for k,v in r.items()})
