from gen import *
from zref import *
tests = [
 "-f 14 -w 9,0,0,0,6,2,1,0.002 --taper-wire=1,1 --excitation-pulse=1",
 "-f 14 -w 9,0,0,0,6,2,1,0.002 -w 7,6,2,1,6,6,3,0.004 --taper-wire=1,2 --taper-wire=2,3 --excitation-pulse=1",
 "-f 28 -a 12,1.5,10,200,0.002 --excitation-pulse=1",
 "-f 28 --helix 24,2,0.8,0.002,0.4,0.4 --excitation-pulse=1",
 "-f 28 --helix 24,-2,0.8,0.002,0.4,0.3,0.2,0.2 --excitation-pulse=1 --medium=0,0,0 --geo-translate=1,0,0,0.5",
 "-f 28 --helix 24,2,-0.8,0.02,0.4,0.4 -w 3,0.4,0,0,0.4,0,-0.9,0.02 --excitation-pulse=1",
 "-f 14 -w 9,0,0,0,6,2,1,0.2 -w 5,6,2,1,6,2,5,0.001 --excitation-pulse=1",
]
for t in tests:
    m = build(t); m.compute_impedance_matrix()
    ref = zref(m)
    if not ref: print(t,'no pairs'); continue
    worst = max(((abs(m.Z[i,j]-v)/s, i, j) for (i,j),(v,s) in ref.items()))
    print(len(m.pulses), len(ref), "worst %.3g at %s"%(worst[0], worst[1:]), t[:60])
