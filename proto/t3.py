from gen import *
rng = np.random.default_rng(1)
k=0
for i in range(60):
    argv, meta = gen_free(rng)
    m0 = build(argv + ['--excitation-pulse=1'])
    N = len(m0.pulses)
    p = int(rng.integers(1, N+1))
    if meta['kind'] in ('star','vee') and N in (26,17) and p in (23,7):
        m = build(argv + ['--excitation-pulse=%d'%p])
        m.compute()
        print(argv)
        print(m.wires_as_mininec())
        for n in ((60,72),(120,144),(180,90)):
            pr = prad_ratio(m, *n)
            S = abs(m.sources[0].voltage*m.sources[0].current)/2
            print(n, pr, (m.power - pr*m.power)/S)
