from gen import *
m = build("-f 7 -w 10,0,0,0,21.414285,0,0,0.001 --excitation-pulse=5"); m.compute()
lam = m.wavelen
for r in (10*lam, 100*lam, 300*lam):
    th, ph = np.radians(50), np.radians(30)
    rhat = np.array([np.sin(th)*np.cos(ph), np.sin(th)*np.sin(ph), np.cos(th)])
    that = np.array([np.cos(th)*np.cos(ph), np.cos(th)*np.sin(ph), -np.sin(th)])
    phat = np.array([-np.sin(ph), np.cos(ph), 0])
    x = rhat*r
    m.compute_near_field(tuple(x), (1,1,1), (1,1,1), 100.0)
    e = m.e_field[0]; h = m.h_field[0]
    m.compute_far_field(Angle(50,1,1), Angle(30,1,1), pwr=100.0, dist=r)
    et = m.far_field.e_theta[0,0]; ep = m.far_field.e_phi[0,0]
    print(r/lam, abs(e@that), abs(et), abs(e@phat), abs(ep), "radial frac %.3g"%(abs(e@rhat)/np.linalg.norm(e)), "E/H %.4f"%(np.linalg.norm(e)/np.linalg.norm(h)))
    # phase compare: far field phase reference excludes e^{-jkr}
    print("   complex ratio", (e@that)/et*np.exp(1j*m.w*r))
