import sys
which = sys.argv[1]
sys.path.insert(0, '/repo' if which=='orig' else '/tmp/explore/fixed')
import io, contextlib, itertools, re
import numpy as np
from mininec.mininec import main
def report(argv):
    out=io.StringIO()
    with contextlib.redirect_stdout(out): r=main(argv)
    return r, out.getvalue()
def parse_currents(txt):
    blk = txt.split('CURRENT DATA')[1]
    res = {}; cur=None
    for line in blk.split('\n'):
        m = re.match(r'(WIRE|ARC|HELIX) NO\.\s+(\d+) :', line)
        if m: cur=int(m.group(2)); res[cur]=[]; continue
        if cur is None: continue
        t = line.split()
        if not t: continue
        if t[0] in ('J','E') and len(t)>=5:
            res[cur].append((t[0], complex(float(t[1]), float(t[2]))))
        elif t[0].isdigit() and len(t)>=5:
            res[cur].append((int(t[0]), complex(float(t[1]), float(t[2]))))
    return res
rng=np.random.default_rng(1)
dirs = [np.array(d,float) for d in ([1,0,0],[0,1,0],[0,0,1],[-1,-0.3,0.2],[0.2,-1,0.5])]
bad=0; tot=0
for k in (2,3,4,5):
  for trial in range(12):
    # k wires meeting at origin, random end assignment & order
    ends = rng.integers(0,2,k); order = rng.permutation(k)
    argv=['-f','14']
    wl=[]
    for i in order:
        d = dirs[i]/np.linalg.norm(dirs[i]); n=int(rng.integers(2,5)); L=n*0.5
        a,b = np.zeros(3), d*L
        if ends[i]: a,b=b,a
        argv += ['-w','%d,%g,%g,%g,%g,%g,%g,0.001'%((n,)+tuple(a)+tuple(b))]
        wl.append(int(ends[i]))
    argv += ['--excitation-pulse=1','--option=none']
    r,txt = report(argv)
    cur = parse_currents(txt)
    # junction at origin: wire w joined with end index wl[w-1]; J lines: first entry if end 0 else last
    s=0; mx=0
    for w,(e) in enumerate(wl, start=1):
        rows = cur[w]
        row = rows[0] if e==0 else rows[-1]
        assert row[0]=='J', (row, argv)
        # current printed is along wire direction at that end; into junction: end0 -> -J ; end1 -> +J
        s += (-row[1] if e==0 else row[1]); mx=max(mx,abs(row[1]))
    tot+=1
    if abs(s) > 1e-5*mx:
        bad+=1
        if bad<=3: print('KCL fail', k, wl, abs(s)/mx)
print(which, 'total', tot, 'bad', bad)
