from common import *
from fractions import Fraction as Fr
def exact_laplace(a, b, f):
    w = 2*np.pi*f*1e6   # same float as code
    W = Fr(w)
    # s = jW ; s^k = j^k W^k
    def poly(c):
        re=Fr(0); im=Fr(0); terms=0.0
        for k,ck in enumerate(c):
            t = Fr(float(ck))*W**k
            jk = k%4
            if jk==0: re+=t
            elif jk==1: im+=t
            elif jk==2: re-=t
            else: im-=t
            terms += abs(float(t))
        return re, im, terms
    nr, ni, nt = poly(b); dr, di, dt = poly(a)
    den = dr*dr+di*di
    zr = (nr*dr+ni*di)/den; zi=(ni*dr-nr*di)/den
    kappa = (nt/ max(abs(complex(float(nr),float(ni))),1e-300)) + (dt/max(abs(complex(float(dr),float(di))),1e-300))
    return complex(float(zr), float(zi)), kappa
rng=np.random.default_rng(0)
worst=0; worstk=0
for i in range(20000):
    R=10**rng.uniform(-6,6); L=10**rng.uniform(-12,0); C=10**rng.uniform(-15,-3); f=10**rng.uniform(-1,3)
    kind = rng.integers(3)
    if kind==0: ld=Series_RLC_Load(R,L,C); ref = R + 1j*2*np.pi*f*1e6*L + 1/(1j*2*np.pi*f*1e6*C)
    elif kind==1: ld=Trap_Load(R,L,C); w=2*np.pi*f*1e6; z1=R+1j*w*L; z2=1/(1j*w*C); ref=z1*z2/(z1+z2)
    else: ld=Series_RLC_Load(R,L,None); ref=R+1j*2*np.pi*f*1e6*L
    z = ld.impedance(f)
    ze, kap = exact_laplace(ld.a, ld.b, f)
    e1 = abs(z-ze)/abs(ze)
    worst=max(worst, e1/kap)
    # circuit formula vs exact rational (tests coefficient construction): coefficient products r*c etc. are rounded floats
    e2 = abs(ref-ze)/abs(ze)
    worstk=max(worstk, e2/kap)
print("code vs exact-rational of its own coefficients: worst err/kappa %.3g"%worst)
print("circuit formula vs exact rational: worst err/kappa %.3g"%worstk)
