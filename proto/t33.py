from gen import *
def pload(m):
    P=0
    for l in m.loads:
        for p in l.pulses:
            P += 0.5*abs(m.current[p.idx])**2 * l.impedance(m.f, p).real
    return P
def bal(argv):
    m = build(argv); m.compute()
    S = sum(abs(s.voltage*s.current)/2 for s in m.sources)
    pr = prad_ratio(m, 60 if m.media is not None else 120, 72)*m.power
    return (m.power - pload(m) - pr)/S, m.power, pload(m), pr
geo = "-f 14 -w 8,0,0,0,1,2,5,0.002 -w 7,1,2,5,4,1,5.5,0.002 -w 6,1,2,5,-3,-2,5.5,0.002"
for env in ("", "--medium=0,0,0", "--medium=13,0.005,0", "--medium=13,0.005,0,6 --medium=5,0.001,-1 --boundary=circular --radial-count=12 --radial-radius=0.001"):
    g = geo if env else geo.replace("0,0,0,1,2,5","0,0,0.3,1,2,5")
    for extra in ("--excitation-pulse=1", "--excitation-pulse=1 --excitation-pulse=12 --excitation-voltage=1 --excitation-voltage=0.5+1j",
                  "--excitation-pulse=1 -l 30+40j --attach-load=1,1 --rlc-load=5,1e-6,1e-10 --attach-load=2,10",
                  "--excitation-pulse=3 --skin-effect-conductivity=1e4"):
        r = bal((g+" "+env+" "+extra).split())
        print("%-30s %-50s err/S=%+.4f P=%.3g Pl=%.3g Pr=%.3g"%(env[:30], extra[:50], *r))
