from gen import *
import multiprocessing as mp
def gen2(rng):
    f = float(rng.choice([7, 14.2, 28.5, 144])); lam=299.8/f
    R = rot(rng); P=lambda v: R@np.array(v,float)
    k = int(rng.integers(2,5))
    base = lam*rng.uniform(1/100,1/22)
    rad = base/rng.uniform(10,200)
    dirs = [np.array(d,float) for d in ([1,0,0],[-0.5,0.866,0],[-0.5,-0.866,0],[0,0,1])][:k]
    wires=[]
    for d in dirs:
        n=int(rng.integers(3,10)); sl = base*rng.uniform(0.5,1.0)   # ratio up to 2
        a,b=np.zeros(3), d*n*sl
        if rng.random()<0.5: a,b=b,a
        wires.append((n,P(a),P(b),rad*rng.uniform(0.5,1)))
    argv=['-f','%.10g'%f]
    for w in wires: argv+=['-w',wire_str(*w)]
    return argv, dict(lam=lam, base=base, k=k)
def one(seed):
    rng=np.random.default_rng(seed); out=[]
    for i in range(8):
        argv,meta=gen2(rng)
        m0=build(argv+['--excitation-pulse=1']); N=len(m0.pulses)
        ns=int(rng.integers(1,3)); src=[]
        for p in rng.choice(N, ns, replace=False):
            v = complex(rng.normal(), rng.normal())
            src += ['--excitation-pulse=%d'%(p+1), '--excitation-voltage=%r'%v]
        m=build(argv+src); m.compute()
        S=sum(abs(s.voltage*s.current)/2 for s in m.sources)
        pr=prad_ratio(m,120,72)*m.power
        out.append((abs(m.power-pr)/S, meta['k'], N, ns, meta['base']/meta['lam'], min(abs(s.impedance) for s in m.sources), [s.idx for s in m.sources], seed, i))
    return out
if __name__=='__main__':
    with mp.Pool(16) as pool: res=sum(pool.map(one, range(500,532)),[])
    res.sort(key=lambda r:-r[0])
    for r in res[:12]: print("%.4f k=%d N=%d ns=%d seg/lam=%.4f minZ=%.3g src=%s seed=%d i=%d"%r)
    print(len(res), np.median([r[0] for r in res]))
