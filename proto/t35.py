from gen import *
import multiprocessing as mp
def one(seed):
    rng=np.random.default_rng(seed); out=[]
    for i in range(8):
        argv,meta=gen_free(rng)
        segl=meta['segl']; lam=meta['lam']
        if segl/lam>1/20: continue
        # override radius: thin
        rr = lam*10**rng.uniform(-6,-3.5)
        argv=[a if not (',' in a and a.count(',')>=7) else ','.join(a.split(',')[:-1]+['%.6g'%rr]) for a in argv]
        m0=build(argv+['--excitation-pulse=1']); N=len(m0.pulses); p=int(rng.integers(1,N+1))
        m=build(argv+['--excitation-pulse=%d'%p]); m.compute()
        S=abs(m.sources[0].voltage*m.sources[0].current)/2
        pr=prad_ratio(m,120,72)*m.power
        out.append((abs(m.power-pr)/S, meta['kind'], N, segl/lam, rr/lam, segl/rr, seed, i))
    return out
if __name__=='__main__':
    with mp.Pool(16) as pool: res=sum(pool.map(one, range(600,640)),[])
    res.sort(key=lambda r:-r[0])
    for r in res[:12]: print("%.4f %s N=%d seg/lam=%.4f r/lam=%.2g seg/r=%.0f seed=%d i=%d"%r)
    for lo,hi in [(0,1e-5),(1e-5,1e-4),(1e-4,1e-3)]:
        e=[r[0] for r in res if lo<=r[4]<hi]
        if e: print("r/lam %.0e-%.0e n=%d max=%.4f med=%.4f"%(lo,hi,len(e),max(e),np.median(e)))
