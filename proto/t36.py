from gen import *
def bal(argv, nth=120, nph=72):
    m = build(argv); m.compute()
    S = sum(abs(s.voltage*s.current)/2 for s in m.sources)
    pr = prad_ratio(m, nth, nph)*m.power
    return (m.power - pr)/S, m.sources[0].impedance, len(m.pulses)
g = "-f 14 -w 8,0,0,0.3,1,2,5,0.002 -w 7,1,2,5,4,1,5.5,0.002 -w 6,1,2,5,-3,-2,5.5,0.002"
for p in (1,4,8,9,12,16):
    print(p, bal((g+" --excitation-pulse=%d"%p).split()))
print('finer int', bal((g+" --excitation-pulse=1").split(), 240, 144))
# double the segments
g2 = "-f 14 -w 16,0,0,0.3,1,2,5,0.002 -w 14,1,2,5,4,1,5.5,0.002 -w 12,1,2,5,-3,-2,5.5,0.002"
print('2x segs', bal((g2+" --excitation-pulse=1").split()))
# thicker
g3 = g.replace('0.002','0.02')
print('thick', bal((g3+" --excitation-pulse=1").split()))
# equal seg lengths
g4 = "-f 14 -w 8,0,0,0.3,1,2,5,0.002 -w 5,1,2,5,4,1,5.5,0.002 -w 9,1,2,5,-3,-2,5.5,0.002"
print('eq seg', bal((g4+" --excitation-pulse=1").split()))
