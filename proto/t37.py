from gen import *
import multiprocessing as mp
def one(args):
    seed, ratio = args
    rng=np.random.default_rng(seed); out=[]
    for i in range(6):
        f = float(rng.choice([7, 14.2, 28.5, 144])); lam=299.8/f
        R = rot(rng); P=lambda v: R@np.array(v,float)
        k = int(rng.integers(2,5))
        base = lam*rng.uniform(1/60,1/22)
        rad = base/rng.uniform(10,300)
        dirs = [np.array(d,float) for d in ([1,0,0],[-0.5,0.866,0],[-0.5,-0.866,0],[0,0,1])][:k]
        wires=[]
        for j,d in enumerate(dirs):
            n=int(rng.integers(3,10)); sl = base/(ratio if j%2 else 1.0)
            a,b=np.zeros(3), d*n*sl
            if rng.random()<0.5: a,b=b,a
            wires.append((n,P(a),P(b),rad))
        argv=['-f','%.10g'%f]
        for w in wires: argv+=['-w',wire_str(*w)]
        m0=build(argv+['--excitation-pulse=1']); N=len(m0.pulses)
        worst=0
        for p in rng.choice(N, min(N,4), replace=False):
            m=build(argv+['--excitation-pulse=%d'%(p+1)]); m.compute()
            S=abs(m.sources[0].voltage*m.sources[0].current)/2
            pr=prad_ratio(m,90,72)*m.power
            worst=max(worst, abs(m.power-pr)/S)
        out.append(worst)
    return ratio, out
if __name__=='__main__':
    jobs=[(s,r) for r in (1.0,1.25,1.5,2.0) for s in range(700,708)]
    with mp.Pool(16) as pool: res=pool.map(one, jobs)
    for r in (1.0,1.25,1.5,2.0):
        e=sum([o for rr,o in res if rr==r],[])
        print("ratio %.2f n=%d max=%.4f p90=%.4f med=%.4f"%(r,len(e),max(e),np.percentile(e,90),np.median(e)))
