from gen import *
import multiprocessing as mp
def one(args):
    seed, ratio = args
    rng=np.random.default_rng(seed); out=[]
    for i in range(6):
        f = float(rng.choice([7, 14.2, 28.5, 144])); lam=299.8/f
        R = rot(rng); P=lambda v: R@np.array(v,float)
        k = int(rng.integers(2,5))
        base = lam*rng.uniform(1/60,1/22)
        rad = base/rng.uniform(10,300)
        dirs = [np.array(d,float) for d in ([1,0,0],[-0.5,0.866,0],[-0.5,-0.866,0],[0,0,1])][:k]
        wires=[]
        for j,d in enumerate(dirs):
            n=int(rng.integers(3,10)); sl = base/(ratio if j%2 else 1.0)
            a,b=np.zeros(3), d*n*sl
            if rng.random()<0.5: a,b=b,a
            wires.append((n,P(a),P(b),rad))
        argv=['-f','%.10g'%f]
        for w in wires: argv+=['-w',wire_str(*w)]
        m0=build(argv+['--excitation-pulse=1']); N=len(m0.pulses)
        for p in rng.choice(N, min(N,4), replace=False):
            m=build(argv+['--excitation-pulse=%d'%(p+1)]); m.compute()
            S=abs(m.sources[0].voltage*m.sources[0].current)/2
            pr=prad_ratio(m,90,72)*m.power
            pu=m.pulses[p]
            isj = pu.geo[0] is not pu.geo[1]
            dist = np.linalg.norm(pu.point - R@np.zeros(3))/base
            out.append((abs(m.power-pr)/S, k, N, int(p), isj, round(dist,2), round(base/lam,4), round(base/rad), m.sources[0].impedance, seed, i))
    return out
if __name__=='__main__':
    jobs=[(s,1.25) for s in range(700,708)]+[(s,1.5) for s in range(700,708)]
    with mp.Pool(16) as pool: res=sum(pool.map(one, jobs),[])
    res.sort(key=lambda r:-r[0])
    for r in res[:12]: print(r)
