from gen import *
import multiprocessing as mp
def one(seed):
    rng = np.random.default_rng(seed)
    out=[]
    for i in range(12):
        argv, meta = gen_free(rng)
        try:
            m0 = build(argv + ['--excitation-pulse=1'])
        except Exception as e:
            out.append(('ERR', str(e)[:100], argv)); continue
        N = len(m0.pulses)
        p = int(rng.integers(1, N+1))
        m = build(argv + ['--excitation-pulse=%d'%p])
        m.compute()
        cond = np.linalg.cond(m.Z)
        pr = prad_ratio(m, 60, 72)
        S = abs(m.sources[0].voltage*m.sources[0].current)/2
        err = (m.power - pr*m.power)/S
        # total length in wavelengths
        out.append((abs(err), meta['kind'], N, p, cond, meta['segl']/meta['lam'], meta['segl']/meta['rad'], seed, i))
    return out
if __name__=='__main__':
    with mp.Pool(16) as pool:
        res = sum(pool.map(one, range(100, 148)), [])
    errs=[r for r in res if r[0]=='ERR']
    print(len(errs), errs[:3])
    res=[r for r in res if r[0]!='ERR']
    res.sort(key=lambda x:-x[0])
    for r in res[:25]: print("%.4f %s N=%d p=%d cond=%.3g segl/lam=%.4f segl/r=%.1f seed=%d i=%d"%r)
    import collections
    for lo,hi in [(0,1/40),(1/40,1/20),(1/20,1/15),(1/15,1/12),(1/12,1/10)]:
        e=[r[0] for r in res if lo<=r[5]<hi]
        if e: print("%.4f-%.4f n=%d max=%.4f med=%.4f"%(lo,hi,len(e),max(e),np.median(e)))
