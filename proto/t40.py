from common import *
base = "-f 14 -w 5,0,0,0,5,0,0,0.001 -w 5,5,0,0,5,5,0,0.003 --excitation-pulse=2"
a = build(base+" --insulation-load=0.004,3,1 --insulation-load=0.006,2,2"); a.compute()
b = build(base+" --insulation-load=0.006,2,2 --insulation-load=0.004,3,1"); b.compute()
print(a.sources[0].impedance, b.sources[0].impedance)
print([g.zins for g in a.geo], [g.zins for g in b.geo])
mu0=1.25663706127e-6
print("expected zins A", mu0*(3-1)/3*np.log(0.004/0.001)/(2*np.pi), "B", mu0*(2-1)/2*np.log(0.006/0.003)/(2*np.pi))
