from gen import *
import re
def tok_ok(tok, val):
    v = float(tok)
    if not np.isfinite(val): return False
    err = abs(v-val)
    if 'E' in tok.upper():
        return err <= 5e-6*abs(val)*(1+1e-6)
    return err <= max(5e-6*abs(val), 1e-6)*(1+1e-6)
def check_report(m, txt, bad):
    lines = txt.split('\n')
    # CURRENT DATA rows with pulse numbers
    blk = txt.split('CURRENT DATA')[1].split('FAR FIELD')[0].split('NEAR FIELDS')[0]
    n=0
    for line in blk.split('\n'):
        t=line.split()
        if len(t)==5 and t[0].isdigit():
            k=int(t[0])-1; c=m.current[k]
            vals=(c.real,c.imag,abs(c),np.degrees(np.angle(c)))
            for tok,val,name in zip(t[1:],vals,('re','im','mag','ph')):
                n+=1
                if not tok_ok(tok,val): bad.append(('current',k,name,tok,val))
    # geometry rows
    geo = txt.split('ANTENNA GEOMETRY')[1].split('NO. OF SOURCES')[0]
    for line in geo.split('\n'):
        t=line.split()
        if len(t)==7 and re.match(r'^-?[\d.]', t[0]):
            k=int(t[6])-1; p=m.pulses[k]
            for tok,val in zip(t[:3], p.point):
                n+=1
                if not tok_ok(tok,val): bad.append(('geo',k,tok,val))
    # source data
    sd = txt.split('SOURCE DATA')[1].split('CURRENT DATA')[0]
    mm = re.findall(r'PULSE\s+(\d+)\s+VOLTAGE = \( (\S+) , (\S+) J\)\s+CURRENT = \(\s*(\S+) ,\s*(\S+) J\)\s+IMPEDANCE = \(\s*(\S+) ,\s*(\S+) J\)\s+POWER =\s*(\S+)', sd)
    for s, g in zip(m.sources, mm):
        vals=(s.voltage.real,s.voltage.imag,s.current.real,s.current.imag,s.impedance.real,s.impedance.imag,s.power)
        for tok,val in zip(g[1:],vals):
            n+=1
            if not tok_ok(tok,val): bad.append(('src',tok,val))
    # far field dB table
    if 'PATTERN DATA' in txt and 'PATTERN (DB)' in txt:
        ff = txt.split('PATTERN (DB)  PATTERN (DB)  PATTERN (DB)')[1]
        rows=[l.split() for l in ff.split('\n') if len(l.split())==5]
        g = m.far_field.gain
        v,h,t_ = g.T
        exp = list(zip(m.far_field.zen.flat, m.far_field.azi.flat, v.flat, h.flat, t_.flat))
        if len(rows)!=len(exp): bad.append(('ffrows',len(rows),len(exp)))
        for r,e in zip(rows,exp):
            for tok,val in zip(r,e):
                n+=1
                if not tok_ok(tok,val): bad.append(('ff',tok,val))
    return n
rng=np.random.default_rng(2)
bad=[]; ntok=0
for it in range(25):
    argv,meta=gen_free(rng)
    m0=build(argv+['--excitation-pulse=1']); N=len(m0.pulses); p=int(rng.integers(1,N+1))
    v=complex(rng.normal()*10**rng.uniform(-3,3), rng.normal())
    m=build(argv+['--excitation-pulse=%d'%p,'--excitation-voltage=%r'%v]); m.compute()
    m.compute_far_field(Angle(0.5,17.3,6), Angle(-3,33.3,5))
    txt=m.as_mininec()
    ntok+=check_report(m,txt,bad)
print(ntok, len(bad)); print(bad[:15])
