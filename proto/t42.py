from common import *
from mininec.util import format_float
rng=np.random.default_rng(0)
def tok_ok(tok, val):
    v=float(tok); err=abs(v-val)
    if 'E' in tok.upper(): return err <= 5e-6*abs(val)*(1+1e-6)
    return err <= max(5e-6*abs(val),1e-6)*(1+1e-6)
bad=[]; n=0
vals=[]
for e in range(-30,13):
    for mant in (1.0, 0.99999995, 0.9999994, 1.0000005, 9.9999995, 9.999994, 3.14159265, 5.0000005, 1.2345678, 0.99999949999):
        vals.append(mant*10.0**e)
vals += list(10**rng.uniform(-30,12,20000)*rng.choice([-1,1],20000))
vals += [np.nextafter(10.0**e, 0) for e in range(-10,12)] + [np.nextafter(10.0**e, 1e99) for e in range(-10,12)]
for v in vals:
    for s in (1,-1):
        for use_e in (0,1):
            t = format_float((s*v,), use_e)[0]
            n+=1
            try:
                ok = tok_ok(t.strip(), s*v)
            except Exception as ex:
                ok=False
            if not ok: bad.append((s*v,use_e,t))
            if len(t.rstrip())>13 : bad.append(('LEN',s*v,use_e,t))
print(n,len(bad)); print(bad[:20])
