from common import *
import collections
rng = np.random.default_rng(int(sys.argv[1]) if len(sys.argv)>1 else 0)
def rnd_model():
    a=['-f','%.6g'%10**rng.uniform(0.5,2.2)]
    tags = list(rng.permutation(np.arange(1,30))[:6])
    use_tags = rng.random()<0.6
    objs=[]
    nobj=int(rng.integers(1,4)); pos=np.zeros(3)
    for i in range(nobj):
        kind = rng.choice(['w','w','w','a','h'])
        tg = ('%d,'%tags[i]) if use_tags else ''
        if kind=='w':
            n=int(rng.integers(3,9)); q=pos+rng.normal(size=3)
            a+=['-w', tg+'%d,%.6g,%.6g,%.6g,%.6g,%.6g,%.6g,%.4g'%((n,)+tuple(pos)+tuple(q)+(10**rng.uniform(-4,-2.5),))]
            objs.append(('w',tags[i] if use_tags else None)); 
            if rng.random()<0.7: pos=q
            else: pos=q+rng.normal(size=3)*3
        elif kind=='a':
            a+=['-a', tg+'%d,%.4g,%.4g,%.4g,%.4g'%(int(rng.integers(3,9)), rng.uniform(0.3,2), rng.uniform(-90,90), rng.uniform(100,300), 10**rng.uniform(-4,-3))]
            objs.append(('a',tags[i] if use_tags else None))
        else:
            a+=['--helix', tg+'%d,%.4g,%.4g,%.4g,%.4g,%.4g'%(int(rng.integers(8,20)), rng.choice([-1,1])*rng.uniform(0.5,2), rng.choice([-1,1])*rng.uniform(0.4,1), 10**rng.uniform(-4,-3), rng.uniform(0.1,0.4), rng.uniform(0.1,0.4))]
            objs.append(('h',tags[i] if use_tags else None))
    m0 = build(a+['--excitation-pulse=1'])
    alltags=[g.tag for g in m0.geo]; N=len(m0.pulses)
    # transforms
    for k in range(int(rng.integers(0,3))):
        t = rng.choice(alltags) if rng.random()<0.5 else None
        if rng.random()<0.5: a+=['--geo-rotate=%d,%.4g,%.4g,%.4g%s'%(k+1,*rng.uniform(-90,90,3), '' if t is None else ',%d'%t)]
        else: a+=['--geo-translate=%d,%.4g,%.4g,%.4g%s'%(k+1,*rng.uniform(-2,2,3), '' if t is None else ',%d'%t)]
    if rng.random()<0.3: a+=['--geo-scale=%.4g'%rng.uniform(0.5,2)]
    # taper
    for g in m0.geo:
        if g.name=='WIRE' and g.n_segments>=3 and rng.random()<0.3:
            a+=['--taper-wire=%d,%d'%(g.tag,int(rng.integers(1,4)))]
    m1 = build(a+['--excitation-pulse=1']); N=len(m1.pulses)
    ns=int(rng.integers(1,3))
    for p in rng.choice(N,ns,replace=False):
        v=complex(round(rng.normal(),3),round(rng.normal(),3)) if rng.random()<0.7 else 1+0j
        if rng.random()<0.5:
            a+=['--excitation-pulse=%d'%(p+1),'--excitation-voltage=%r'%v]
        else:
            pu=m1.pulses[p]; a+=['--excitation-pulse=%d,%d'%(pu.n+1,pu.geobj.tag),'--excitation-voltage=%r'%v]
    nl=0
    for k in range(int(rng.integers(0,3))):
        kind=rng.choice(['l','rlc','trap','lap'])
        if kind=='l': a+=['-l','%r'%complex(round(rng.uniform(0,100),2), round(rng.normal()*50,2))]
        elif kind=='rlc': a+=['--rlc-load=%.3g,%.3g,%.3g'%(rng.uniform(0,10),10**rng.uniform(-8,-5),10**rng.uniform(-12,-9))]
        elif kind=='trap': a+=['--trap-load=%.3g,%.3g,%.3g'%(rng.uniform(0.1,10),10**rng.uniform(-8,-5),10**rng.uniform(-12,-9))]
        else: a+=['--laplace-load-a=1,%.3g'%10**rng.uniform(-9,-7), '--laplace-load-b=%.3g,%.3g'%(rng.uniform(0,10),10**rng.uniform(-8,-6))]
        nl+=1
    # load indices follow kind order: simple, rlc, trap, laplace -> attach each by index
    for li in range(nl):
        form=rng.integers(3)
        if form==0: a+=['--attach-load=%d,%d'%(li+1,int(rng.integers(1,N+1)))]
        elif form==1: a+=['--attach-load=%d,all,%d'%(li+1,rng.choice(alltags))]
        else:
            g=m1.geo.by_tag[int(rng.choice(alltags))]
            if len(g.pulses): a+=['--attach-load=%d,%d,%d'%(li+1,int(rng.integers(1,len(g.pulses)+1)),g.tag)]
            else: a+=['--attach-load=%d,all'%(li+1)]
    for t in alltags:
        if rng.random()<0.25: a+=['--skin-effect-conductivity=%.3g,%d'%(10**rng.uniform(4,7.7),t)]
    return a
def sig(m):
    segs=[ (g.name,g.tag,len(g.segments),np.round(np.array([[*s.p1,*s.p2] for s in g.segments]),7).tolist(), round(g.r_orig,9)) for g in m.geo]
    src=sorted((s.idx, complex(round(s.voltage.real,5),round(s.voltage.imag,5))) for s in m.sources)
    ld=collections.defaultdict(complex)
    for l in m.loads:
        for p in l.pulses: ld[p.idx]+=l.impedance(m.f,p)
    ldr={k:complex(float('%.5g'%v.real),float('%.5g'%v.imag)) for k,v in ld.items()}
    return segs,src,ldr
fails=collections.Counter(); ex={}
for it in range(int(sys.argv[2]) if len(sys.argv)>2 else 200):
    try:
        a=rnd_model(); m=build(a)
    except BaseException as e:
        fails['gen:'+str(e)[:40]]+=1; continue
    txt=m.as_cmdline(); a2=txt.split()
    try:
        m2=build(a2)
    except BaseException as e:
        k='reject:'+str(e).strip().split('\n')[-1][:70]; fails[k]+=1; ex.setdefault(k,(a,txt)); continue
    s1,s2=sig(m),sig(m2)
    for name,x,y in zip(('geo','src','load'),s1,s2):
        if x!=y:
            k='diff:'+name; fails[k]+=1; ex.setdefault(k,(a,txt,x if name!='geo' else '',y if name!='geo' else ''))
    if m2.as_cmdline()!=txt: fails['not-fixed-point']+=1; ex.setdefault('not-fixed-point',(a,txt,m2.as_cmdline()))
    fails['total']+=1
for k,v in fails.most_common(): print(v,k)
for k,v in ex.items():
    print('==',k); print('  argv:',' '.join(v[0])); print('  txt :',v[1].replace('\n',' | ')[:600])
    if len(v)>2: print('  ', v[2:] if k!='not-fixed-point' else v[2].replace('\n',' | ')[:600])
