from basic_reader import *
import glob, os
ok=0; res=[]
for mini in sorted(glob.glob('/repo/test/*.mini')):
    base=os.path.basename(mini)[:-5]
    pym='/repo/test/'+base+'.pym'
    try:
        m = read_basic(open(mini).read())
    except Exception as e:
        res.append((base,'READ-FAIL',repr(e)[:100])); continue
    if not os.path.exists(pym): res.append((base,'no pym')); continue
    argv=[]
    for l in open(pym):
        l=l.strip()
        if not l or l.startswith('#'): continue
        argv += l.split()
    try:
        mp_ = build(argv)
    except BaseException as e:
        res.append((base,'pym-build-fail',str(e)[:80])); continue
    m.compute(); mp_.compute()
    same_n = len(m.pulses)==len(mp_.pulses)
    pts = same_n and np.allclose([p.point for p in m.pulses],[p.point for p in mp_.pulses], atol=1e-6)
    z1=[s.impedance for s in m.sources]; z2=[s.impedance for s in mp_.sources]
    dz = max(abs(a-b)/abs(b) for a,b in zip(z1,z2)) if len(z1)==len(z2) else None
    res.append((base, same_n, pts, dz))
for r in res: print(r)
