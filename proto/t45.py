from basic_reader import *
argv=[]
for l in open('/repo/test/dip_coat_yn.pym'):
    l=l.strip()
    if l and not l.startswith('#'): argv+=l.split()
mp_=build(argv); mp_.compute(); print('pym', mp_.sources[0].impedance)
m=read_basic(open('/repo/test/dip_coat_yn.mini').read()); m.compute(); print('rebuilt from .mini', m.sources[0].impedance)
# recompute i6 with equivalent radius
mp2=build(argv)
for g in mp2.geo:
    for s in g.segments:
        s.i6=(1+np.log(16*g.r/s.seg_len))/np.pi/g.r
mp2.pulses.reset(); mp2.compute(); print('pym with i6 refreshed', mp2.sources[0].impedance)
