from gen import *
from field import *
from match import *
exec(open('t22.py').read().split("f=14.0")[0].split("from match import *")[1])
import multiprocessing as mp
def rnd_ground(rng):
    f=float(rng.choice([7,14.2,28.5])); lam=299.8/f
    seg=lam*rng.uniform(1/60,1/22); rad=seg/rng.uniform(10,150)
    wires=[]
    kind=rng.choice(['mono','invL','two','elev','T'])
    def up(n, base, az, elev):
        d=np.array([np.cos(elev)*np.cos(az), np.cos(elev)*np.sin(az), np.sin(elev)])
        return base, base+d*n*seg
    az=rng.uniform(0,2*np.pi); el=np.radians(rng.uniform(25,90))
    n1=int(rng.integers(3,9))
    b=np.array([rng.uniform(-1,1)*lam, rng.uniform(-1,1)*lam, 0.0])
    if kind=='elev':
        h=seg*rng.uniform(1.2,10); n=int(rng.integers(4,12)); a0=b+np.array([0,0,h]); a1=a0+np.array([np.cos(az),np.sin(az),rng.uniform(0,0.5)])/np.sqrt(1+0.25)*n*seg
        a1[2]=max(a1[2],h)
        wires.append((n,a0,a1,rad))
    else:
        p1,p2=up(n1,b,az,el)
        wires.append((n1,p1,p2,rad) if rng.random()<0.5 else (n1,p2,p1,rad))
        if kind in ('invL','T'):
            n2=int(rng.integers(3,8)); az2=az+np.radians(rng.uniform(60,300))
            q=p2+np.array([np.cos(az2),np.sin(az2),rng.uniform(-0.1,0.3)])*n2*seg/1.05
            wires.append((n2,p2,q,rad*rng.uniform(0.5,1)) if rng.random()<0.5 else (n2,q,p2,rad))
        if kind=='T':
            n3=int(rng.integers(3,8)); az3=az2+np.pi
            q=p2+np.array([np.cos(az3),np.sin(az3),0.1])*n3*seg/1.005
            wires.append((n3,p2,q,rad))
        if kind=='two':
            b2=b+np.array([np.cos(az+2),np.sin(az+2),0])*lam*rng.uniform(0.1,0.4)
            n2=int(rng.integers(3,9)); p1,p2=up(n2,b2,rng.uniform(0,6.28),np.radians(rng.uniform(60,90)))
            wires.append((n2,p1,p2,rad))
    return f,wires
def one(seed):
    rng=np.random.default_rng(seed); out=[]
    for i in range(6):
        f,wires=rnd_ground(rng)
        gargv=['-f','%.12g'%f,'--medium=0,0,0']
        for w in wires: gargv+=['-w',wire_str(*w)]
        try:
            g0=build(gargv+['--excitation-pulse=1'])
        except Exception as e:
            out.append(('ERR',str(e)[:60])); continue
        N=len(g0.pulses)
        cand=[i for i,p in enumerate(g0.pulses) if (p.geo[0] is p.geo[1]) or True]
        ns=int(rng.integers(1,3)); srcs=[(int(p), complex(rng.normal(),rng.normal())) for p in rng.choice(N,ns,replace=False)]
        # avoid sources on pulses of >=3-wire junction
        try:
            g,fm=mirror_model(wires,f,srcs)
        except KeyError:
            out.append(('ERR','nomatch')); continue
        c=np.linalg.cond(g.Z); tol=max(5e-4,5e-7*c)
        d=cmp_fields(upper(current_field(g)), upper(current_field(fm)))
        zen=Angle(5,10,9); azi=Angle(0,30,12)
        g.compute_far_field(zen,azi); fm.compute_far_field(zen,azi)
        dg=np.max(np.abs(g.far_field.gain[...,2]-fm.far_field.gain[...,2]-3.0103))
        out.append((d if not isinstance(d,tuple) else 9, c, d/tol if not isinstance(d,tuple) else 9, dg, len(wires), N))
    return out
if __name__=='__main__':
    with mp.Pool(16) as pool: res=sum(pool.map(one, range(900,932)),[])
    errs=[r for r in res if r[0]=='ERR']; res=[r for r in res if r[0]!='ERR']
    print(len(res), len(errs), errs[:4])
    res.sort(key=lambda r:-r[2])
    for r in res[:8]: print("dev %.3g cond %.3g dev/tol %.3g dgain %.3g nw=%d N=%d"%r)
    print("max gain dev", max(r[3] for r in res))
