from common import *
# C09: three wires, two later wires meet first end of earlier wire
argv = "-f 14 -w 5,0,0,0,5,0,0,0.001 -w 5,0,0,0,0,5,0,0.001 -w 5,0,0,0,0,0,5,0.001 --excitation-pulse=2 --option=none"
out = io.StringIO()
with contextlib.redirect_stdout(out):
    r = main(argv.split())
txt = out.getvalue()
i = txt.index('CURRENT DATA')
print(txt[i-30:])
