from common import *
def run(argv):
    if isinstance(argv,str): argv=argv.split()
    out = io.StringIO(); err=io.StringIO()
    try:
        with contextlib.redirect_stdout(out), contextlib.redirect_stderr(err):
            r = main(argv, f_err=err)
    except SystemExit as e:
        return ('exit', e.code, out.getvalue(), err.getvalue())
    except BaseException as e:
        return ('EXC', repr(e), out.getvalue(), err.getvalue())
    return ('ret', r, out.getvalue(), err.getvalue())
import re
def imp(txt):
    return re.findall(r'IMPEDANCE = \((.*?)\)', txt)
# C14 sweep with skin effect
base = "-w 10,0,0,0,21.414285,0,0,0.001 --excitation-pulse=5 --skin-effect-conductivity=1e5 --option=none"
a = run("-f 7 --frequency-increment=1 --frequency-steps=3 " + base)
print('sweep', imp(a[2]))
for f in (7,8,9):
    b = run("-f %d "%f + base)
    print('fresh', f, imp(b[2]))
# C16
m = build("-f 7 -w 10,0,0,0,21.414285,0,0,0.001 --excitation-pulse=5")
m.compute()
for st,inc,n in [((0,1,1),(0.1,0.1,0.1),(3,3,3)), ((1,1,1),(0.1,0.3,0.7),(3,6,7)), ((0,1,1),(0,0,0),(1,1,1)), ((0,1,1),(-0.1,0.1,0.1),(3,1,1))]:
    try:
        m.compute_near_field(st,inc,n)
        print(st,inc,n, m.near_field_coord.shape, len(m.e_field))
    except Exception as e:
        print(st,inc,n,'EXC',repr(e))
# C18 phase
m = build("-f 7 -w 10,0,0,0,21.414285,0,0,0.001 --excitation-pulse=5 --excitation-voltage=1+1j")
class A: mininec_version='9'
print(m.as_basic_input(A()))
print(m.sources_as_mininec())
