from gen import *
from zref import *
rng = np.random.default_rng(5)
tests = [
 "-f 7 -w 10,0,0,0,21.414285,0,0,0.001 --excitation-pulse=5",
 "-f 7 -w 10,0,0,0,21.414285,0,0,0.01 --excitation-pulse=5",
 "-f 14 -w 5,0,0,0,5,1,0,0.001 -w 6,0,0,0,0,5,2,0.002 -w 7,0,0,0,-1,-1,5,0.02 --excitation-pulse=2",
 "-f 14 -w 5,0,0,0,1,1,5,0.001 -w 6,1,1,5,4,5,6,0.01 -w 4,6,5,9,4,5,6,0.01 --medium=0,0,0 --excitation-pulse=1",
]
for t in tests:
    m = build(t); m.compute_impedance_matrix()
    t0=time.time()
    ref = zref(m)
    worst = max(((abs(m.Z[i,j]-v)/s, i, j) for (i,j),(v,s) in ref.items()))
    print(len(m.pulses), len(ref), "worst rel dev %.3g at %s"%(worst[0], worst[1:]), "%.1fs"%(time.time()-t0))
