from gen import *
from zref import *
import multiprocessing as mp
def one(seed):
    rng = np.random.default_rng(seed)
    out=[]
    for i in range(4):
        argv, meta = gen_free(rng)
        m = build(argv + ['--excitation-pulse=1']); m.compute_impedance_matrix()
        N=len(m.pulses)
        # sample pairs
        pairs=set()
        for _ in range(150):
            pairs.add((int(rng.integers(N)), int(rng.integers(N))))
        ref = zref(m, pairs)
        if not ref: continue
        worst = max(((abs(m.Z[i,j]-v)/s, i, j) for (i,j),(v,s) in ref.items()))
        out.append((worst[0], meta['kind'], N, meta['segl']/meta['lam'], meta['segl']/meta['rad'], meta['rad']/meta['lam'], seed, i))
    return out
if __name__=='__main__':
    with mp.Pool(16) as pool:
        res = sum(pool.map(one, range(200, 232)), [])
    res.sort(key=lambda x:-x[0])
    for r in res[:12]: print("%.3g %s N=%d segl/lam=%.4f segl/r=%.1f r/lam=%.2g seed=%d i=%d"%r)
    print(len(res))
