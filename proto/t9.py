from gen import *
def mirror(p): return np.array([p[0],p[1],-p[2]])
def image_pair(wires, srcs, f):
    """ wires: list (n,p1,p2,r) over ground (z>=0), srcs: list of (wire_idx, k (1-based pulse within wire incl. ground pulse rules), V)
        -> returns argv_ground, argv_free and mapping """
    pass
# simple cases by hand
f=14.0
cases = []
# 1: vertical monopole base-fed
cases.append(dict(g="-f 14 -w 8,0,0,0,0,0,5,0.005 --medium=0,0,0 --excitation-pulse=1",
                  fs="-f 14 -w 16,0,0,-5,0,0,5,0.005 --excitation-pulse=8 --excitation-voltage=2",
                  mapg=list(range(8)), mapf=list(range(7,15))))
# 2: sloping monopole base-fed, wire 2 from top horizontally (inverted L sloped)
cases.append(dict(g="-f 14 -w 8,0,0,0,1,2,5,0.005 -w 6,1,2,5,5,2,5.5,0.005 --medium=0,0,0 --excitation-pulse=1",
                  fs="-f 14 -w 16,1,2,-5,1,2,5,0.005 --excitation-pulse=8 --excitation-voltage=2", mapg=None, mapf=None))
for c in cases[:1]:
    mg = build(c['g']); mg.compute()
    mf = build(c['fs']); mf.compute()
    print(mg.sources[0].impedance, mf.sources[0].impedance/2)
    ig = mg.current[c['mapg']]; i_f = mf.current[c['mapf']]
    print(np.max(np.abs(ig-i_f))/np.max(np.abs(ig)))
    zen = Angle(5,10,9); azi=Angle(0,30,4)
    mg.compute_far_field(zen,azi); mf.compute_far_field(zen,azi)
    print(np.max(np.abs(mg.far_field.gain[...,2]-mf.far_field.gain[...,2]-3.0103)))
# case 2: bent grounded: wire A grounded sloping, wire B elevated. free-space: A' = mirror(A.p2)->A.p2 (2n segs), B, B' = mirror(B)
g = "-f 14 -w 8,0,0,0,1,2,5,0.005 -w 6,1,2,5,5,2,5.5,0.005 --medium=0,0,0 --excitation-pulse=3 --excitation-voltage=1+0.5j"
# not straight through ground if sloping: mirror of (1,2,5) is (1,2,-5): wire from (1,2,-5) to (0,0,0) to (1,2,5) is bent -> two wires
fs = "-f 14 -w 8,1,2,-5,0,0,0,0.005 -w 8,0,0,0,1,2,5,0.005 -w 6,1,2,5,5,2,5.5,0.005 -w 6,1,2,-5,5,2,-5.5,0.005"
mg = build(g); mg.compute()
print(mg.wires_as_mininec())
m0 = build(fs + " --excitation-pulse=1")
print(m0.wires_as_mininec())
