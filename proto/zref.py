import numpy as np
from scipy.integrate import quad

def seg_int(x, s0, s1, a, kw, thick):
    """ integral over straight segment s0->s1 of exp(-jkR)/R, R = sqrt(|x-s|^2 + a^2) if thick else |x-s| """
    L = np.linalg.norm(s1 - s0)
    d = s1 - s0
    def R(t):
        v = s0 + d*t - x
        r2 = v @ v
        if thick: r2 += a*a
        return np.sqrt(r2)
    fr = lambda t: np.cos(kw*R(t))/R(t)
    fi = lambda t: -np.sin(kw*R(t))/R(t)
    re = quad(fr, 0, 1, epsabs=0, epsrel=1e-10, limit=200)[0]
    im = quad(fi, 0, 1, epsabs=0, epsrel=1e-10, limit=200)[0]
    return (re + 1j*im) * L

def zref_entry(pm, pn, kw, srm, image=False):
    """ pm, pn: dict(point, ends[2], r[2])  (unit current from ends[0] side to ends[1] side)
        returns (value, scale) """
    mir = np.array([1,1,-1.0]) if image else np.ones(3)
    P = pn['point']*mir; E0 = pn['ends'][0]*mir; E1 = pn['ends'][1]*mir
    a_n = (P+E0)/2; b_n = (P+E1)/2
    xm = pm['point']; am = (xm + pm['ends'][0])/2; bm = (xm + pm['ends'][1])/2
    r0, r1 = pn['r']
    th0 = r0 > srm; th1 = r1 > srm
    # vector potential: halves a_n->P (radius r0), P->b_n (radius r1)
    t0 = (P - a_n); t0 = t0/np.linalg.norm(t0)
    t1 = (b_n - P); t1 = t1/np.linalg.norm(t1)
    psi0 = seg_int(xm, a_n, P, r0, kw, th0)
    psi1 = seg_int(xm, P, b_n, r1, kw, th1)
    A = psi0*t0 + psi1*t1
    vt = kw**2 * ((bm - am) @ A)
    L0 = np.linalg.norm(P - E0); L1 = np.linalg.norm(E1 - P)
    Fp_a = seg_int(am, P, E1, r1, kw, th1); Fp_b = seg_int(bm, P, E1, r1, kw, th1)
    Fm_a = seg_int(am, E0, P, r0, kw, th0); Fm_b = seg_int(bm, E0, P, r0, kw, th0)
    st = (Fp_a - Fp_b)/L1 + (Fm_b - Fm_a)/L0
    scale = kw**2*np.linalg.norm(bm-am)*(abs(psi0)+abs(psi1)) + (abs(Fp_a)+abs(Fp_b))/L1 + (abs(Fm_a)+abs(Fm_b))/L0
    sgn = -1 if image else 1
    return sgn*(vt + st), scale

def zref(m, pairs=None, minsep=2.5):
    kw = m.w; srm = m.srm
    ps = []
    for p in m.pulses:
        ps.append(dict(point=np.array(p.point,float), ends=[np.array(p.ends[0],float), np.array(p.ends[1],float)],
                       r=[p.geo[0].r, p.geo[1].r], gnd=bool(p.ground.any()),
                       L=max(s.seg_len for s in p.segs)))
    N = len(ps); out = {}
    for i in range(N):
        for j in range(N):
            if pairs is not None and (i,j) not in pairs: continue
            sep = np.linalg.norm(ps[i]['point'] - ps[j]['point'])
            if sep < minsep * max(ps[i]['L'], ps[j]['L']): continue
            v, s = zref_entry(ps[i], ps[j], kw, srm)
            if m.media is not None and not ps[j]['gnd']:
                v2, s2 = zref_entry(ps[i], ps[j], kw, srm, image=True)
                v += v2; s += s2
            out[(i,j)] = (v, s)
    return out
