#!/venv/bin/python
""" Random one-token changes to /repo/mininec/*.py for blind-spot sampling (not a check, a tool):
      automut.py gen <n> <seed> <outdir>   - writes <outdir>/m<k>.diff (git diff against HEAD) and index.json
    Operators: + <-> -, * <-> /, < <-> <=, > <-> >=, == <-> !=, and <-> or, numeric constant c -> 2c / c+1,
    subscript constant 0 <-> 1, abs (x) -> x, .real <-> .imag, logical_and <-> logical_or, p1 <-> p2.
    Only code outside docstrings, in functions of the solver / geometry / output classes.
"""
import ast, sys, os, json, random, subprocess

REPO  = os.environ.get ('AUTOMUT_REPO', '/nonexistent')
FILES = ['mininec/mininec.py', 'mininec/pulse.py', 'mininec/taper.py', 'mininec/util.py', 'mininec/segment.py']

def candidates (path):
    src   = open (os.path.join (REPO, path)).read ()
    tree  = ast.parse (src)
    lines = src.split ('\n')
    out   = []
    def seg (n):
        if n.lineno != n.end_lineno:
            return None
        return (n.lineno, n.col_offset, n.end_col_offset, lines [n.lineno - 1][n.col_offset:n.end_col_offset])
    class V (ast.NodeVisitor):
        def __init__ (self):
            self.fn = []
        def visit_FunctionDef (self, node):
            self.fn.append (node.name)
            for st in node.body:
                # skip the docstring
                if isinstance (st, ast.Expr) and isinstance (getattr (st, 'value', None), ast.Constant) and isinstance (st.value.value, str):
                    continue
                self.visit (st)
            self.fn.pop ()
        def generic_visit (self, node):
            if self.fn and self.fn [-1] not in ('main',) or (self.fn and self.fn [-1] == 'main' and random.random () < 0.15):
                self.mutations (node)
            super ().generic_visit (node)
        def mutations (self, node):
            fn = '.'.join (self.fn)
            def add (n, new, kind):
                s = seg (n)
                if s and s [3] != new:
                    out.append (dict (file = path, line = s [0], c0 = s [1], c1 = s [2], old = s [3], new = new, kind = kind, fn = fn))
            if isinstance (node, ast.BinOp) and node.lineno == node.end_lineno:
                swap = {ast.Add: '-', ast.Sub: '+', ast.Mult: '/', ast.Div: '*'}
                for k, v in swap.items ():
                    if isinstance (node.op, k):
                        l, r = seg (node.left), seg (node.right)
                        if l and r:
                            mid = lines [node.lineno - 1][l [2]:r [1]]
                            sym = {ast.Add: '+', ast.Sub: '-', ast.Mult: '*', ast.Div: '/'} [k]
                            if mid.count (sym) == 1 and '**' not in mid:
                                out.append (dict (file = path, line = node.lineno, c0 = l [2], c1 = r [1], old = mid, new = mid.replace (sym, v), kind = 'binop', fn = fn))
            if isinstance (node, ast.Compare) and len (node.ops) == 1 and node.lineno == node.end_lineno:
                swap = {ast.Lt: ('<', '<='), ast.LtE: ('<=', '<'), ast.Gt: ('>', '>='), ast.GtE: ('>=', '>'), ast.Eq: ('==', '!='), ast.NotEq: ('!=', '==')}
                for k, (a, b) in swap.items ():
                    if isinstance (node.ops [0], k):
                        l, r = seg (node.left), seg (node.comparators [0])
                        if l and r:
                            mid = lines [node.lineno - 1][l [2]:r [1]]
                            if mid.strip () == a:
                                out.append (dict (file = path, line = node.lineno, c0 = l [2], c1 = r [1], old = mid, new = mid.replace (a, b), kind = 'compare', fn = fn))
            if isinstance (node, ast.Constant) and isinstance (node.value, (int, float)) and not isinstance (node.value, bool):
                s = seg (node)
                if s:
                    v = node.value
                    add (node, repr (v * 2 if v not in (0,) else 1), 'const*2')
                    if isinstance (v, int) and abs (v) <= 3:
                        add (node, repr (v + 1), 'const+1')
            if isinstance (node, ast.Subscript) and isinstance (node.slice, ast.Constant) and node.slice.value in (0, 1):
                add (node.slice, repr (1 - node.slice.value), 'index')
            if isinstance (node, ast.Call) and isinstance (node.func, ast.Name) and node.func.id == 'abs' and len (node.args) == 1:
                a = seg (node.args [0])
                if a:
                    add (node, '(' + a [3] + ')', 'abs')
            if isinstance (node, ast.Attribute) and node.attr in ('real', 'imag', 'p1', 'p2', 'logical_and', 'logical_or', 'sin', 'cos', 'min', 'max'):
                pair = dict (real = 'imag', imag = 'real', p1 = 'p2', p2 = 'p1', logical_and = 'logical_or', logical_or = 'logical_and', sin = 'cos', cos = 'sin', min = 'max', max = 'min')
                s = seg (node)
                if s and s [3].endswith ('.' + node.attr):
                    add (node, s [3][: -len (node.attr)] + pair [node.attr], 'attr')
            if isinstance (node, ast.BoolOp) and node.lineno == node.end_lineno and len (node.values) == 2:
                l, r = seg (node.values [0]), seg (node.values [1])
                if l and r:
                    mid = lines [node.lineno - 1][l [2]:r [1]]
                    a, b = (' and ', ' or ') if isinstance (node.op, ast.And) else (' or ', ' and ')
                    if mid == a:
                        out.append (dict (file = path, line = node.lineno, c0 = l [2], c1 = r [1], old = mid, new = b, kind = 'boolop', fn = fn))
    V ().visit (tree)
    return out

def gen (n, seed, outdir):
    random.seed (seed)
    os.makedirs (outdir, exist_ok = True)
    cands = []
    for f in FILES:
        cands += candidates (f)
    random.shuffle (cands)
    index = []
    seen  = set ()
    for c in cands:
        key = (c ['file'], c ['line'])
        if key in seen:
            continue
        seen.add (key)
        p   = os.path.join (REPO, c ['file'])
        src = open (p).read ()
        ls  = src.split ('\n')
        l   = ls [c ['line'] - 1]
        assert l [c ['c0']:c ['c1']] == c ['old'], (c, l)
        ls [c ['line'] - 1] = l [:c ['c0']] + c ['new'] + l [c ['c1']:]
        open (p, 'w').write ('\n'.join (ls))
        try:
            compile ('\n'.join (ls), p, 'exec')
            d = subprocess.check_output (['git', '-C', REPO, 'diff'], text = True)
        except SyntaxError:
            d = ''
        finally:
            open (p, 'w').write (src)
        if not d:
            continue
        k = len (index)
        open (os.path.join (outdir, 'm%03d.diff' % k), 'w').write (d)
        index.append (dict (c, k = k))
        if len (index) >= n:
            break
    json.dump (index, open (os.path.join (outdir, 'index.json'), 'w'), indent = 1)
    print ('%d mutants of %d candidates' % (len (index), len (cands)))

if __name__ == '__main__':
    if sys.argv [1] == 'gen':
        gen (int (sys.argv [2]), int (sys.argv [3]), sys.argv [4])
