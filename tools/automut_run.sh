#!/bin/bash
# usage: automut_run.sh <dir with m*.diff> <first> <last> <slot>
# For each mutant: scratch worktree of /repo HEAD (outside /repo and /verif), repository tests (pytest -n 4);
# survivors of the tests are run through every quick check (PMV_REPO). One result line per mutant.
dir=$1; a=$2; b=$3; slot=$4
wt=/tmp/automut-wt-$slot
git -C /repo worktree add -q --detach "$wt" HEAD 2>/dev/null || true
for k in $(seq $a $b); do
  f=$(printf "%s/m%03d.diff" $dir $k); [ -f "$f" ] || continue
  git -C "$wt" checkout -q -- . ; git -C "$wt" apply "$f" || { echo "$k NOAPPLY" >> $dir/results.txt; continue; }
  t=$(cd "$wt" && PYTHONPATH="$wt" timeout 1500 /venv/bin/python -m pytest -q -x -p no:cacheprovider -n 4 --timeout=600 --deselect test/test_mininec.py::Test_Case_Known_Structure::test_timing --deselect test/test_mininec.py::Test_Case_Known_Structure::test_vertical_ideal_ground_near 2>&1 | tail -1)
  if echo "$t" | grep -q "170 passed" && ! echo "$t" | grep -q failed; then
    caught=""
    for id in C01 C02 C03 C04 C05 C06 C07 C08 C09 C10 C11 C12 C13 C14 C15 C16 C17 C18 C19 C20; do
      o=$(cd /verif && PMV_REPO="$wt" PMV_EVIDENCE_DIR="$wt/.evidence" /venv/bin/python -m pmv.run $id --tier quick 2>&1); rc=$?
      [ $rc -eq 1 ] && caught="$caught $id"
      [ $rc -eq 2 ] && caught="$caught $id?"
    done
    echo "$k TESTS-PASS caught:[$caught ]" >> $dir/results.txt
  else
    echo "$k tests-fail" >> $dir/results.txt
  fi
done
git -C "$wt" checkout -q -- . ; git -C /repo worktree remove --force "$wt"
