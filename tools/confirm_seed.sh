#!/bin/bash
# usage: confirm_seed.sh <agent out dir> <i> <seed name>
# Confirms an agent-produced change in a fresh scratch worktree: demo passes on the clean tree,
# patch applies, repository tests still pass (170), demo fails on the patched tree.
# On success stores it as /verif/seeded/<seed name>/.
src=$1; i=$2; name=$3
wt=$(mktemp -d /tmp/pmv-seed-XXXXXX)
git -C /repo worktree add -q --detach "$wt" HEAD || exit 3
cleanup() { git -C /repo worktree remove --force "$wt"; }
cd "$wt"
c_out=$(PYTHONPATH="$wt" timeout 900 /venv/bin/python "$src/demo$i.py" 2>&1); c_rc=$?
if ! git apply "$src/patch$i.diff"; then echo "NOAPPLY"; cleanup; exit 1; fi
t_out=$(PYTHONPATH="$wt" /venv/bin/python -m pytest -q -p no:cacheprovider -n 12 --timeout=900 --deselect test/test_mininec.py::Test_Case_Known_Structure::test_timing --deselect test/test_mininec.py::Test_Case_Known_Structure::test_vertical_ideal_ground_near 2>&1 | tail -1)
p_out=$(PYTHONPATH="$wt" timeout 900 /venv/bin/python "$src/demo$i.py" 2>&1); p_rc=$?
cleanup
echo "clean rc=$c_rc | tests: $t_out | patched rc=$p_rc"
if [ $c_rc -eq 0 ] && [ $p_rc -ne 0 ] && echo "$t_out" | grep -q "170 passed" && ! echo "$t_out" | grep -q failed; then
  d=/verif/seeded/$name; mkdir -p "$d"
  cp "$src/patch$i.diff" "$d/patch.diff"; cp "$src/demo$i.py" "$d/demo.py"
  /venv/bin/python - "$src/meta$i.json" "$d/meta.json" "$t_out" "$(echo "$c_out" | tail -3)" "$(echo "$p_out" | tail -3)" <<'PY'
import json, sys
m = json.load(open(sys.argv[1]))
m['confirmed'] = dict(base_commit=__import__('subprocess').check_output(['git','-C','/repo','rev-parse','HEAD'],text=True).strip(),
    ran=['demo.py on a clean scratch worktree (exit 0)', 'git apply patch.diff', 'repository test suite (pytest -n 12, test_timing and the baseline always-fail test deselected)', 'demo.py on the patched worktree (exit != 0)'],
    tests=sys.argv[3], demo_clean=sys.argv[4], demo_patched=sys.argv[5])
json.dump(m, open(sys.argv[2],'w'), indent=1)
PY
  echo "STORED $d"
else
  echo "NOT CONFIRMED: $name"; echo "$c_out" | tail -3; echo "$p_out" | tail -3
fi
