#!/bin/bash
# usage: merge_matrix.sh <dir with MATRIX.shard-*.md>  - joins the shards of a sharded run of seed_matrix.sh into /verif/seeded/MATRIX.md
d=$1
V=$(cd "$(dirname "$0")/.." && pwd)
out=$V/seeded/MATRIX.md
first=$(ls $d/MATRIX.shard-*.md | head -1)
head -1 $first | sed 's/$/ - own check only, run in shards/' > $out
echo >> $out
echo "| seed | needs | own check | related checks |" >> $out
echo "|---|---|---|---|" >> $out
cat $d/MATRIX.shard-*.md | grep '^| C' | sort -t'|' -k2,2V >> $out
echo "$(grep -c '^| C' $out) seeds, $(grep -c 'caught' $out) caught by their own check" 
