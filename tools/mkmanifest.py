#!/usr/bin/env python3
""" Regenerates /verif/MANIFEST.json from the table below and validates it.
    A property is listed under checks as soon as pmv/props/<id>.py exists,
    otherwise under not_applicable with the reason given in PENDING.
"""
import os, sys, json, subprocess
V = os.path.dirname (os.path.dirname (os.path.abspath (__file__)))

T = {
 'C01': ( 'power balance: sources vs loads + integrated far-field gain'
        , 'independent power bookkeeping (own source/load power, midpoint-rule sphere integral of the reported dBi table with a refinement self-check) over generated structures inside the validity filter'
        , 'midpoint integration error bounded by a half-step re-integration on every 8th case; deciding class seg <= lambda/20 and matched segment lengths at >=3-wire junctions (DESIGN C01)'),
 'C02': ( 'impedance matrix vs independent MININEC-3 potential integrals'
        , 'executable reference model: adaptive quadrature (scipy quad, epsrel 1e-10) of the published formulation from recorded pulse geometry, compared entry-wise with the Z the real code filled'
        , 'scipy.integrate.quad and numpy trusted; geometry reference re-derives pulse points/ends from the spec; wave number and small-radius condition of the reference are computed from the frequency, not read from the model; a second object created at another frequency and set to this one must reproduce the same terms; insulated wires with the documented equivalent radius; workload includes the 65 hand-made antennas of /repo/test (pmv/corpus.py) and curves standing on the ground plane'),
 'C03': ( 'image theory: ideal ground vs free space + mirror image'
        , 'metamorphic oracle: the same real code run on the harness-built mirrored free-space model; description-invariant current field, feed impedances, gain - 3.0103 dB'
        , 'tolerance by condition number as stated in the property; cond > 1e5 skipped and counted'),
 'C04': ( 'near field vs independent field of the solved currents and charges; far-shell convergence'
        , 'executable reference model (Gauss-Legendre 48 x 4 with refinement self-check) of E = -jwA - grad Phi and H = curl A / mu from recorded currents, evaluated at the grid points compute_near_field just produced; far shells vs reported far field'
        , 'reference shares numpy only; 0.136 % constant offset of the code (4.77783352 vs eta/8pi^2) is inside the 1 % budget; deviations above 1 % are the known finding near-field-finite-difference-step only if the reported field equals the same finite difference (H) / virtual-dipole voltage (E) formed from the exact potentials, recomputed for the point at hand; requests in whole numbers (python ints), corpus antennas'),
 'C05': ( 'rigid motion and scaling invariance, option route vs coordinate route'
        , 'metamorphic oracle over fresh runs: transformed model via --geo-* options vs motion written into coordinates vs untransformed; current field, impedances, rotated pattern samples'
        , 'tolerance by condition number as stated; third route through the classes of the library (whole numbers as ints, container tags computed before / after / in the middle); gain deviations on the scale of the main beam with the conditioning of the net input power; known finding quadrature-order-on-threshold classified by an experiment with the 8-point rule everywhere; corpus antennas and whole-number lattices; pairs of wires that nearly meet, turned onto a space diagonal and scaled; table request of the original against single requests of the moved antenna'),
 'C06': ( 'description independence (reversal, permutation, retagging, collinear splitting), mirror symmetry'
        , 'metamorphic oracle over fresh runs with description-invariant observables (current field by position, impedance by location, near field at fixed points, gain)'
        , 'inside the stated domain (validity filter: unconnected wires >= 2 segments apart, wires on a common neighbour >= 0.5 segments apart, one wire per ground point); field pattern compared as amplitude relative to the main beam; known findings classified by mechanism, each by an experiment made on the spot (feed at a current minimum, distributed load on a junction of three, exact kernel on a short neighbour, junction ends that meet only within the matching tolerance on thick wires); collinear objects with bitwise equal segment lengths; corpus antennas'),
 'C07': ( 'linearity in source voltages; source data = V/I, Re(VI*)/2'
        , 'algebraic oracle over fresh and reused model objects (scaling, superposition with others at 0 V / absent / re-registered on the same object) + solve-residual and power contracts + SOURCE DATA block parsed back'
        , 'numpy.linalg trusted; tolerance 1e-9 * cond; contract compute_rhs.sources (every source enters the right-hand side with its voltage, doubled on the ground plane, and nothing else) evaluated in the workloads of all checks'),
 'C08': ( 'loads as series circuit elements'
        , 'exact rational circuit reference (fractions) for RLC/trap/Laplace, README closed forms with scaled Bessel functions for skin effect and insulation, feed-impedance difference with/without load, neutral elements, monopole = half dipole cross-check'
        , 'scipy.special trusted for Bessel functions; models built through the command line and through the classes of the library (load objects created before the geometry is scaled); repeated solves on one object; load kinds by number (command line) against the same elements registered through the library'),
 'C09': ( 'Kirchhoff current law in the CURRENT DATA block'
        , 'offline checker over the parsed report: union-find junction clusters from the spec, signed sum of J lines, E lines, J line vs pulse currents through that wire end; enumerated junction topologies'
        , 'report reader is keyed on the fixed MININEC block headers; the known finding end1-junction-line-single-pulse is granted only to the wire defined first on its junction; ends exactly the matching distance apart are expected joined (README: within 1/1000)'),
 'C10': ( 'far field = radiation integral; dBi <-> V/m consistency'
        , 'executable reference (point-moment and exact-segment radiation integrals) on the recorded currents as postcondition of compute_far_field + table identities (gain = |E|^2 r^2 / 59.96 P, power scaling, 1/r, 360 deg periodicity, zenith azimuth independence)'
        , 'reference uses only pulse points, ends and currents'),
 'C11': ( 'real ground affects only the far field; conductivity limit; medium split / far medium'
        , 'bit-identity of Z, rhs, currents between ideal and real ground + recording proxy proving the matrix fill never reads the constants; monotone convergence in sigma; metamorphic medium split / far boundary'
        , 'reflection-point distance for the far-medium variant computed by the harness from heights and elevation; negative zenith angles, interface through the origin, azimuth sweep = single requests, radial screen on uniform soil, Medium objects shared between models, a width given for the last medium (documented as unused), radial screen without naming the boundary, first of two media up to 1e12 S/m'),
 'C12': ( 'number, numbering and placement of pulses from the wire topology'
        , 'independent geometry reference (own segmentation, union-find junctions with the 1e-3 tolerance, ground detection) vs len(pulses), pulse points, segments, ANTENNA GEOMETRY block; end points perturbed around the tolerance'
        , 'chains of near ends (diameter above the tolerance, neighbours within it) are expected joined transitively; the first-match joining of the code is emulated to classify the known finding near-end-chain-first-match; scaled structures, tapered wires (tolerance from the program\'s own shortest segment of the exact structure), open arcs; closed figures of arcs and chords with freely numbered objects judged by an own topology (check_curves)'),
 'C13': ( 'segmentation tiles each object; taper, arc, helix, transformation rules'
        , 'contract on compute_segments + independent formulas (README) for arcs/helices, taper growth/min/max/mirror rules, transformations recomputed from the spec'
        , 'taper requests the code rejects (fallback to equal segments) are counted, not judged; wires over a ground plane with ends inside / outside the ground distance; the 65 antennas of /repo/test; a maximum alone through the library'),
 'C14': ( 'no history dependence, no run-to-run variation'
        , 'history + executable model: random operation sequences on one object vs a fresh object per step (state and cache coherence); frequency sweep vs single runs; byte comparison of stdout and files over fresh interpreters with varied PYTHONHASHSEED / allocator / heap layout'
        , 'fresh object built by the same code is the model of "pure function of (spec, f)"; frequency steps of parts per million, repeated requests at other levels / distances, compute bursts; the same model through the command line and through the library in several call orders (routes) must give identical matrices, currents and reports; two live objects of different models computed in turns; report sections with and without the other field request; sweep steps with the wire radius on the thin-wire limit against single runs at f0 + k * inc; a field asked for between a frequency change and the next solve is refused or that of the new frequency (stale)'),
 'C15': ( 'option file round trip'
        , 'model equality between M and main(as_cmdline(M)) (objects, taper, transforms, sources, per-pulse load impedance, media), feed impedance within printed precision, second-generation text fixed point'
        , 'the reader is the program itself'),
 'C16': ( 'field tables contain exactly the requested points'
        , 'contracts on compute_near_field / compute_far_field with the grid recomputed in exact rational arithmetic; counts and order vs report text'
        , 'tolerance (n+4) ulp of the largest coordinate (the repaired code reproduces numpy.arange values); the points the fields are evaluated at (near_field_iter) in table order'),
 'C17': ( 'pulse addressing of sources and loads'
        , 'parsed ANTENNA GEOMETRY table vs geometry reference vs Excitation.idx / load.pulses; both addressing forms give identical models; listings name the pulse; all-forms attach each pulse exactly once'
        , 'exhaustive over all valid pulse numbers of each generated model'),
 'C18': ( 'generated BASIC input describes the same antenna'
        , 'offline prompt-order state machine consuming the answer stream, rebuilding the model through the public API; same pulse points/numbering, feed impedance'
        , 'prompt order taken from the comments in as_basic_input and validated on the 48 .mini files of the test directory'),
 'C19': ( 'report text carries the computed values'
        , 'offline token checker pairing every numeric token of every block with the in-memory value by token kind + format_float round-trip contract swept over 1e-30..1e12'
        , 'V/m table format (%.3E / %.2f) is a known finding by mechanism; END CONNECTION column: minus own number on the ground plane, 0 without an earlier object at that end, else the number of an earlier object (or the object itself) ending there'),
 'C20': ( 'fail-safe command line'
        , 'grammar-based argv fuzzer (valid generated command lines with hostile substitutions) run through main() under the event recorder; outcome classifier keyed by (exception type, innermost repository function)'
        , 'strata: fixed valid command lines, boundary-value lists, enumerated single-field substitutions, magnitude ladder over the overflow decades, random mutated lines; new mechanisms are violations; remaining mechanisms listed in known_findings.json'),
}
PENDING = 'check not built yet (work in progress in this session)'

def main ():
    checks, na = [], []
    for pid in sorted (T):
        title, tech, note = T [pid]
        if os.path.exists (os.path.join (V, 'pmv', 'props', pid.lower () + '.py')):
            checks.append (dict
                ( property_id   = pid
                , quick_cmd     = 'cd /verif && /venv/bin/python -m pmv.run %s --tier quick' % pid
                , thorough_cmd  = 'cd /verif && /venv/bin/python -m pmv.run %s --tier thorough' % pid
                , evidence_file = '/verif/evidence/%s.json' % pid
                , replay_cmd_template = 'cd /verif && /venv/bin/python -m pmv.run %s --replay {path}' % pid
                , engine        = 'pmv'
                , level_claimed = dict
                    ( category   = 'exploration'
                    , text       = 'Runtime monitoring: %s. Held on the executions the run produced (counts, feature signatures and anchor lines hit are in the evidence), not a proof.' % title
                    , design_ref = 'DESIGN.md section 2, ' + pid
                    )
                , level_note    = note
                , technique     = tech
                ))
        else:
            na.append (dict (property_id = pid, reason = PENDING))
    m = dict \
        ( version = 1
        , setup_cmd = 'cd /verif && /venv/bin/python -m pmv.setup'
        , hooks = dict
            ( guard = 'PYMININEC_VERIF'
            , enable = 'No hook commits in /repo. Checks import mininec from /repo\'s working tree (PYTHONPATH=/repo) in worker subprocesses started with PYMININEC_VERIF=1; only then does pmv.instrument monkey-patch class attributes of the real classes (contracts, event recorder, sys.monitoring anchor tracer).'
            , baseline_off_cmd = 'cd /repo && env -u PYMININEC_VERIF /venv/bin/python -m pytest -ra -q -p no:cacheprovider --timeout=900 --continue-on-collection-errors'
            , source_commits = []
            , add_only = True
            )
        , engines = [dict ( name = 'pmv', path = '/verif/pmv'
                          , serves_properties = [c ['property_id'] for c in checks]
                          , kind_free_text = 'runtime monitoring harness: sharded workload generators, contract layer (icontract), sys.monitoring anchor tracer, reference oracles, offline checkers')]
        , checks = checks
        , not_applicable = na
        , notes = 'Genuine defects repaired by fix: commits in /repo and defects kept as known findings are listed in /verif/known_findings.json; DESIGN.md section 3.'
        )
    p = os.path.join (V, 'MANIFEST.json')
    json.dump (m, open (p, 'w'), indent = 1)
    r = subprocess.run (['python3-vt', '-c', 'import json, jsonschema; jsonschema.validate (json.load (open ("%s")), json.load (open ("/root/.vp/MANIFEST.schema.json"))); print ("MANIFEST valid: %d checks, %d not_applicable")' % (p, len (checks), len (na))])
    return r.returncode
# end def main

if __name__ == '__main__':
    sys.exit (main ())
