#!/usr/bin/env python3
""" mkmut.py <name> <file relative to repo> <old> <new> [count]
    Writes /verif/pmv/mutants/<name>.diff: a one-site textual change of /repo HEAD
    (made in a temporary worktree, which is removed again).
"""
import sys, os, subprocess, tempfile
name, rel, old, new = sys.argv [1:5]
cnt = int (sys.argv [5]) if len (sys.argv) > 5 else 1
wt = tempfile.mkdtemp (prefix = 'pmv-mk-', dir = '/tmp')
subprocess.check_call (['git', '-C', '/repo', 'worktree', 'add', '-q', '--detach', wt, 'HEAD'])
try:
    p = os.path.join (wt, rel)
    s = open (p).read ()
    old = old.encode ().decode ('unicode_escape'); new = new.encode ().decode ('unicode_escape')
    assert s.count (old) == cnt, 'found %d times' % s.count (old)
    open (p, 'w').write (s.replace (old, new))
    d = subprocess.check_output (['git', '-C', wt, 'diff'], text = True)
    open ('/verif/pmv/mutants/%s.diff' % name, 'w').write (d)
    print ('wrote', name, len (d.split ('\n')), 'lines')
finally:
    subprocess.call (['git', '-C', '/repo', 'worktree', 'remove', '--force', wt])
