#!/bin/bash
# For every patch in pmv/mutants: apply to a scratch worktree of /repo HEAD, run the check named by the
# file name (cNN-* -> CNN; revert-<commit>-* -> property of that commit in known_findings.json), record the verdict.
# Writes /verif/pmv/mutants/MATRIX.md
cd /verif
out=pmv/mutants/MATRIX.md
echo "# Own mutant catalogue vs checks (quick tier, /repo $(git -C /repo rev-parse --short HEAD), $(date -u +%F))" > $out
echo >> $out
echo "Mutants named *-ok / c06-cper-ok / c02-gauss-move-ok are equivalent or inside the tolerance by design: they must NOT fire." >> $out
echo >> $out
echo "| mutant | check | verdict |" >> $out
echo "|---|---|---|" >> $out
for f in pmv/mutants/*.diff; do
  b=$(basename $f .diff)
  case $b in
    revert-*) c=$(echo $b | cut -d- -f2); prop=$(/venv/bin/python -c "
import json
for e in json.load(open('/verif/known_findings.json'))['findings']:
    if e.get('commit') == '$c': print(e['property']); break
");;
    c[0-9][0-9]-*) prop=$(echo ${b:0:3} | tr c C);;
    *) prop="";;
  esac
  [ -z "$prop" ] && continue
  wt=$(mktemp -d /tmp/pmv-mm-XXXXXX)
  git -C /repo worktree add -q --detach "$wt" HEAD || exit 3
  if ! git -C "$wt" apply /verif/$f 2>/dev/null; then echo "| $b | $prop | patch does not apply to HEAD any more |" >> $out; git -C /repo worktree remove --force "$wt"; continue; fi
  o=$(PMV_REPO="$wt" PMV_EVIDENCE_DIR="$wt/.evidence" /venv/bin/python -m pmv.run "$prop" --tier quick 2>&1); rc=$?
  key=$(echo "$o" | grep -A1 '^VIOLATION' | grep -o 'key=[^ ]*' | head -1 | sed 's/key=//; s/:$//')
  n=$(echo "$o" | grep -o '[0-9]* violation case' | head -1 | awk '{print $1}')
  if [ $rc -eq 1 ]; then v="caught ($n cases, $key)"; elif [ $rc -eq 0 ]; then v="silent"; else v="inconclusive (rc=$rc)"; fi
  echo "| $b | $prop | $v |" >> $out
  echo "$b -> $prop: $v"
  git -C /repo worktree remove --force "$wt"
done
