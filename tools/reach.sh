#!/bin/bash
# usage: reach.sh [tier] [ids...] - runs the checks with line recording (coverage.py, settrace core) in the
# workers and reports which executable lines of /repo/mininec/*.py no workload reached. The evidence of these
# runs goes to a scratch directory (the recording slows the workers; nothing registered depends on this).
tier=${1:-quick}; shift
ids=${@:-C01 C02 C03 C04 C05 C06 C07 C08 C09 C10 C11 C12 C13 C14 C15 C16 C17 C18 C19 C20}
cd "$(dirname "$0")/.."
d=$(mktemp -d /tmp/pmv-reach-XXXXXX)
for id in $ids; do
  PMV_COVER=$d/cov PMV_EVIDENCE_DIR=$d/ev /venv/bin/python -m pmv.run $id --tier $tier 2>&1 | grep -E "^$id (quick|thorough)"
done
cd $d && /venv/bin/python -m coverage combine --data-file=$d/all $d/cov.* >/dev/null 2>&1
/venv/bin/python -m coverage report --data-file=$d/all --include='/repo/mininec/*' -m > /verif/reach/REPORT.txt 2>&1
/venv/bin/python -m coverage json --data-file=$d/all --include='/repo/mininec/*' -o /verif/reach/reach.json >/dev/null 2>&1
tail -8 /verif/reach/REPORT.txt | cut -c1-150
rm -rf "$d"
