#!/bin/bash
# usage: rebase_seed.sh <seed name> <rebased patch>  - re-confirms a seeded change whose patch had to be rebased onto the
# current /repo HEAD (after a repair in the same lines): demo passes clean, patch applies, tests pass, demo fails patched.
s=$1; np=$(readlink -f "$2")
wt=$(mktemp -d /tmp/pmv-seed-XXXXXX)
git -C /repo worktree add -q --detach "$wt" HEAD || exit 3
cd "$wt"
PYTHONPATH="$wt" timeout 900 /venv/bin/python /verif/seeded/$s/demo.py > /tmp/rb-clean.txt 2>&1; c_rc=$?
git apply "$np" || { echo "$s NOAPPLY"; git -C /repo worktree remove --force "$wt"; exit 1; }
t_out=$(PYTHONPATH="$wt" /venv/bin/python -m pytest -q -p no:cacheprovider -n 12 --timeout=900 --deselect test/test_mininec.py::Test_Case_Known_Structure::test_timing --deselect test/test_mininec.py::Test_Case_Known_Structure::test_vertical_ideal_ground_near 2>&1 | tail -1)
PYTHONPATH="$wt" timeout 900 /venv/bin/python /verif/seeded/$s/demo.py > /tmp/rb-patched.txt 2>&1; p_rc=$?
cd /verif; git -C /repo worktree remove --force "$wt"
echo "$s clean rc=$c_rc | tests: $t_out | patched rc=$p_rc"
if [ $c_rc -eq 0 ] && [ $p_rc -ne 0 ] && echo "$t_out" | grep -q "170 passed"; then
  cp "$np" /verif/seeded/$s/patch.diff
  /venv/bin/python - "$s" "$t_out" <<'PY'
import json, sys, subprocess
p='/verif/seeded/%s/meta.json' % sys.argv[1]
m=json.load(open(p))
head=subprocess.check_output(['git','-C','/repo','rev-parse','--short','HEAD'],text=True).strip()
m.setdefault('rebased', '')
m['rebased'] = (m['rebased'] + ' ' if m['rebased'] else '') + 'patch rebased onto /repo %s (repairs in the same lines); re-confirmed: demo exit 0 clean, exit != 0 patched, tests: %s' % (head, sys.argv[2])
json.dump(m, open(p,'w'), indent=1)
PY
  echo "$s UPDATED"
else
  echo "$s NOT RE-CONFIRMED"; tail -3 /tmp/rb-clean.txt; tail -3 /tmp/rb-patched.txt
fi
