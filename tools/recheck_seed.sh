#!/bin/bash
# usage: recheck_seed.sh <seed name>  - the stored change still breaks its property on the current /repo HEAD: its demo passes on a
# clean scratch worktree and fails with the patch applied (the repository tests are not run again here)
s=$1
V=$(cd "$(dirname "$0")/.." && pwd)
wt=$(mktemp -d /tmp/pmv-rc-XXXXXX)
git -C /repo worktree add -q --detach "$wt" HEAD || exit 3
cd "$wt"
PYTHONPATH="$wt" timeout 900 /venv/bin/python $V/seeded/$s/demo.py > /dev/null 2>&1; c=$?
if git apply $V/seeded/$s/patch.diff 2>/dev/null; then
  PYTHONPATH="$wt" timeout 900 /venv/bin/python $V/seeded/$s/demo.py > /dev/null 2>&1; p=$?
else
  p=NOAPPLY
fi
cd /; git -C /repo worktree remove --force "$wt"
echo "$s clean=$c patched=$p"
