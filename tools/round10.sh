#!/bin/bash
# usage: round10.sh Cxx  - confirms /tmp/agent-out10/Cxx/{patch,demo,meta}{1,2} as seeded/Cxx-19 and runs the property's quick check on each
p=$1
for i in 1; do
  name=$p-$((18+i))
  [ -f /tmp/agent-out10/$p/patch$i.diff ] || { echo "$name: no patch"; continue; }
  [ -d /verif/seeded/$name ] || /verif/tools/confirm_seed.sh /tmp/agent-out10/$p $i $name 2>&1 | tail -4
  [ -d /verif/seeded/$name ] && /verif/tools/seed_matrix.sh quick $name 2>&1 | grep -- '->'
done
