#!/bin/bash
# usage: round5.sh Cxx  - confirms /tmp/agent-out7/Cxx/{patch,demo,meta}{1,2} as seeded/Cxx-11, Cxx-12 and runs the property's quick check on each
p=$1
for i in 1 2; do
  name=$p-$((12+i))
  [ -f /tmp/agent-out7/$p/patch$i.diff ] || { echo "$name: no patch"; continue; }
  [ -d /verif/seeded/$name ] || /verif/tools/confirm_seed.sh /tmp/agent-out7/$p $i $name 2>&1 | tail -4
  [ -d /verif/seeded/$name ] && /verif/tools/seed_matrix.sh quick $name 2>&1 | grep -- '->'
done
