#!/bin/bash
# usage: round5.sh Cxx  - confirms /tmp/agent-out8/Cxx/{patch,demo,meta}{1,2} as seeded/Cxx-15, Cxx-16 and runs the property's quick check on each
p=$1
for i in 1 2; do
  name=$p-$((14+i))
  [ -f /tmp/agent-out8/$p/patch$i.diff ] || { echo "$name: no patch"; continue; }
  [ -d /verif/seeded/$name ] || /verif/tools/confirm_seed.sh /tmp/agent-out8/$p $i $name 2>&1 | tail -4
  [ -d /verif/seeded/$name ] && /verif/tools/seed_matrix.sh quick $name 2>&1 | grep -- '->'
done
