#!/bin/bash
# usage: round5.sh Cxx  - confirms /tmp/agent-out9/Cxx/{patch,demo,meta}{1,2} as seeded/Cxx-17, Cxx-18 and runs the property's quick check on each
p=$1
for i in 1 2; do
  name=$p-$((16+i))
  [ -f /tmp/agent-out9/$p/patch$i.diff ] || { echo "$name: no patch"; continue; }
  [ -d /verif/seeded/$name ] || /verif/tools/confirm_seed.sh /tmp/agent-out9/$p $i $name 2>&1 | tail -4
  [ -d /verif/seeded/$name ] && /verif/tools/seed_matrix.sh quick $name 2>&1 | grep -- '->'
done
