#!/bin/bash
# usage: run_all.sh <tier> [ids...]  - runs the registered checks sequentially, prints one summary line each
tier=${1:-quick}; shift
ids=${@:-C01 C02 C03 C04 C05 C06 C07 C08 C09 C10 C11 C12 C13 C14 C15 C16 C17 C18 C19 C20}
cd "$(dirname "$0")/.."
for id in $ids; do
  start=$(date +%s)
  out=$(/venv/bin/python -m pmv.run $id --tier $tier 2>&1); rc=$?
  echo "$id rc=$rc $(( $(date +%s) - start ))s :: $(echo "$out" | grep -E "^$id (quick|thorough)" | tail -1)"
  echo "$out" | grep -E "^(VIOLATION|INCONCLUSIVE)" | head -3
done
