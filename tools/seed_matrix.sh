#!/bin/bash
# usage: seed_matrix.sh [tier] [seed dirs...]
# For every seeded change: apply it to a scratch worktree of /repo HEAD, run the check of the property it
# breaks (and the related checks listed in RELATED), record exit code and the first violation key.
# Writes /verif/seeded/MATRIX.md. Worktrees are removed again.
tier=${1:-quick}; shift
V=$(cd "$(dirname "$0")/.." && pwd)     # the checkout this script belongs to (/verif or a snapshot of it)
seeds=${@:-$(ls -d $V/seeded/C*/ | xargs -n1 basename | sort -V)}
declare -A RELATED=( [C01]="C14 C07" [C02]="C03 C06" [C03]="C02 C06" [C04]="C06" [C05]="C13" [C06]="C02 C03 C04" [C07]="C01" [C08]="C01 C11" [C09]="" [C10]="C01" [C11]="C08 C01" [C12]="C17" [C13]="C05" [C14]="C01" [C15]="" [C16]="" [C17]="C12" [C18]="" [C19]="" [C20]="C13" )
out=$V/seeded/MATRIX.md
[ $# -gt 0 ] && out=$V/seeded/MATRIX.part.md     # a partial run does not overwrite the full matrix
# SM_OWN_ONLY=1: only the check of the property the change breaks. SM_SHARD=k/n: every n-th seed starting with the
# k-th (several shards can run side by side; each writes MATRIX.shard-k.md, tools/merge_matrix.sh joins them)
if [ -n "$SM_SHARD" ]; then
  k=${SM_SHARD%%/*}; n=${SM_SHARD##*/}
  seeds=$(echo $seeds | tr ' ' '\n' | awk -v k=$k -v n=$n 'NR % n == k % n')
  out=$V/seeded/MATRIX.shard-$k.md
fi
[ -n "$SM_OWN_ONLY" ] && for p in "${!RELATED[@]}"; do RELATED[$p]=""; done
echo "# Seeded changes vs checks (tier $tier, /repo $(git -C /repo rev-parse --short HEAD), $(date -u +%F))" > $out
echo >> $out
echo "| seed | needs | own check | related checks |" >> $out
echo "|---|---|---|---|" >> $out
for s in $seeds; do
  prop=${s%%-*}
  wt=$(mktemp -d /tmp/pmv-sm-XXXXXX)
  git -C /repo worktree add -q --detach "$wt" HEAD || exit 3
  if ! git -C "$wt" apply $V/seeded/$s/patch.diff; then echo "| $s | - | PATCH DOES NOT APPLY | |" >> $out; git -C /repo worktree remove --force "$wt"; continue; fi
  res=""
  for id in $prop ${RELATED[$prop]}; do
    o=$(cd $V && PMV_REPO="$wt" PMV_EVIDENCE_DIR="$wt/.evidence" /venv/bin/python -m pmv.run "$id" --tier "$tier" 2>&1); rc=$?
    key=$(echo "$o" | grep -A1 '^VIOLATION' | grep -o 'key=[^ ]*' | head -1 | sed 's/key=//; s/:$//')
    n=$(echo "$o" | grep -o '[0-9]* violation case' | head -1 | awk '{print $1}')
    if [ $rc -eq 1 ]; then cell="**caught** ($n cases, $key)"; elif [ $rc -eq 0 ]; then cell="silent"; else cell="inconclusive (rc=$rc)"; fi
    if [ "$id" = "$prop" ]; then own="$id: $cell"; else res="$res $id: $cell;"; fi
  done
  needs=$(/venv/bin/python -c "import json,sys; print(json.load(open('$V/seeded/$s/meta.json')).get('needs','')[:160].replace('|','/').replace('\n',' '))")
  echo "| $s | $needs | $own | $res |" >> $out
  echo "$s -> $own |$res"
  git -C /repo worktree remove --force "$wt"
done
