#!/bin/bash
# usage: sweep.sh tier seeds... ; runs from cwd (snapshot)
tier=$1; shift
for s in "$@"; do
 for id in C01 C02 C03 C04 C05 C06 C07 C08 C09 C10 C11 C12 C13 C14 C15 C16 C17 C18 C19 C20; do
  start=$(date +%s)
  out=$(VERIF_SEED=$s PMV_EVIDENCE_DIR=$PWD/ev-$tier-$s /venv/bin/python -m pmv.run $id --tier $tier 2>&1); rc=$?
  echo "seed=$s $id rc=$rc $(( $(date +%s) - start ))s :: $(echo "$out" | grep -E "^$id (quick|thorough)" | tail -1)"
  echo "$out" | grep -E "^(VIOLATION|INCONCLUSIVE)" -A1 | head -8
 done
done
