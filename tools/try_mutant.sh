#!/bin/bash
# usage: try_mutant.sh <patch.diff> <tier> <ID> [<ID> ...]
# Applies the patch to a scratch worktree of /repo HEAD (outside /repo and /verif), runs the
# named checks against it (PMV_REPO) and removes the worktree again.
patch=$(readlink -f "$1"); tier=$2; shift 2
wt=$(mktemp -d /tmp/pmv-mut-XXXXXX)
git -C /repo worktree add -q --detach "$wt" HEAD || exit 3
if ! git -C "$wt" apply "$patch"; then echo "PATCH DOES NOT APPLY"; git -C /repo worktree remove --force "$wt"; exit 3; fi
rc=0
for id in "$@"; do
  out=$(cd /verif && PMV_REPO="$wt" PMV_EVIDENCE_DIR="$wt/.evidence" /venv/bin/python -m pmv.run "$id" --tier "$tier" 2>&1)
  code=$?
  echo "== $id exit=$code: $(echo "$out" | grep -c '^VIOLATION') violation lines"
  echo "$out" | grep -A1 '^VIOLATION' | head -6
  echo "$out" | grep -E "^(INCONCLUSIVE|C[0-9]+ (quick|thorough))" 
  [ $code -ne 0 ] && rc=1
done
git -C /repo worktree remove --force "$wt"
exit $rc
